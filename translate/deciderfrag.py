"""
G-tie for the decider model (C03, C04, C05, C12, C13): fragments of
bobocep/cep/engine/decider/decider.py rendered as Lean definitions that are
proved equal to what the hand-written model (Model/Decider.lean) uses.

Translated:
* the forward-only test of `on_distributed_update` (the `if` guarding `set_block`) as a Bool function of
  (remote index, remote history size, local index, local history size): tuple comparisons are rendered
  lexicographically, boolean combinations of component comparisons as they stand;
* the three filters of `_maybe_check_against_cache` as Bool functions of (identifier in the completed memory,
  identifier in the halted memory);
* the order of the top-level steps of `on_distributed_update` (filter, memorise, removal loops, second filter,
  update loop, dropping of unknown patterns, de-duplication, notification) and of `update()`
  (process, serialise, memorise, notify-if-changed) and the way `_process_event` assembles its three lists.

Refused (TieBroken): any other statement at those levels, any other shape of the tests.
"""
import ast

from .pyexpr import TieBroken, find_class, find_func, strip_doc, sha
from .normalize import parse_file, parse as norm_parse

SRC = 'bobocep/cep/engine/decider/decider.py'
OUT = 'DeciderFrag.lean'

NAMES = {
    'runremote.block_index': 'rIdx', 'runremote.history.size()': 'rSize',
    'runlocal.block_index': 'lIdx', 'runlocal.history().size()': 'lSize',
}
CMP = {ast.Gt: '>', ast.GtE: '≥', ast.Lt: '<', ast.LtE: '≤', ast.Eq: '=', ast.NotEq: '≠'}


def _n(x):
    """source text without blanks and parentheses (tuple targets are unparsed differently across Python versions)"""
    return x.replace(' ', '').replace('(', '').replace(')', '')


def _atom(e):
    k = ast.unparse(e)
    if k in NAMES:
        return NAMES[k]
    if isinstance(e, ast.Constant) and isinstance(e.value, int) and not isinstance(e.value, bool):
        return str(e.value)
    raise TieBroken('forward-only test: unknown operand ' + k)


def _lex(ls, op, rs):
    """lexicographic comparison of two equally long tuples of atoms"""
    if len(ls) != len(rs) or not ls:
        raise TieBroken('forward-only test: tuples of different length')
    strict = {ast.Gt: '>', ast.GtE: '>', ast.Lt: '<', ast.LtE: '<'}
    if type(op) not in strict:
        raise TieBroken('forward-only test: tuple comparison with ' + type(op).__name__)
    s = strict[type(op)]
    if len(ls) == 1:
        return f"decide ({ls[0]} {CMP[type(op)]} {rs[0]})"
    rest = _lex(ls[1:], op, rs[1:])
    return f"(decide ({ls[0]} {s} {rs[0]}) || (decide ({ls[0]} = {rs[0]}) && {rest}))"


def _ahead_expr(e):
    if isinstance(e, ast.BoolOp):
        op = ' && ' if isinstance(e.op, ast.And) else ' || '
        return '(' + op.join(_ahead_expr(v) for v in e.values) + ')'
    if isinstance(e, ast.UnaryOp) and isinstance(e.op, ast.Not):
        return '(!' + _ahead_expr(e.operand) + ')'
    if isinstance(e, ast.Compare) and len(e.ops) == 1:
        l, r, op = e.left, e.comparators[0], e.ops[0]
        if isinstance(l, ast.Tuple) and isinstance(r, ast.Tuple):
            return _lex([_atom(x) for x in l.elts], op, [_atom(x) for x in r.elts])
        if type(op) in CMP:
            return f"decide ({_atom(l)} {CMP[type(op)]} {_atom(r)})"
    raise TieBroken('forward-only test: ' + ast.unparse(e)[:80])


def _filter_expr(e, var):
    """condition of one comprehension of `_maybe_check_against_cache` over inC / inH"""
    if isinstance(e, ast.BoolOp):
        op = ' && ' if isinstance(e.op, ast.And) else ' || '
        return '(' + op.join(_filter_expr(v, var) for v in e.values) + ')'
    if isinstance(e, ast.UnaryOp) and isinstance(e.op, ast.Not):
        return '(!' + _filter_expr(e.operand, var) + ')'
    if isinstance(e, ast.Call) and isinstance(e.func, ast.Name) and e.func.id == 'any' and len(e.args) == 1 \
            and isinstance(e.args[0], ast.GeneratorExp) and len(e.args[0].generators) == 1:
        g = e.args[0]
        gen = g.generators[0]
        if gen.ifs or not isinstance(gen.target, ast.Name):
            raise TieBroken('cache filter: generator shape')
        c = gen.target.id
        test = ast.unparse(g.elt)
        if test not in (f"{var}.run_id == {c}.run_id", f"{c}.run_id == {var}.run_id"):
            raise TieBroken('cache filter: membership test is not an identifier comparison: ' + test)
        it = ast.unparse(gen.iter)
        if it == 'self._cache_completed':
            return 'inC'
        if it == 'self._cache_halted':
            return 'inH'
        raise TieBroken('cache filter: iterates over ' + it)
    raise TieBroken('cache filter: ' + ast.unparse(e)[:80])


def _cache_filters(fn):
    body = strip_doc(fn.body)
    if len(body) != 2 or not isinstance(body[0], ast.If) or body[0].orelse or not isinstance(body[1], ast.Return):
        raise TieBroken('_maybe_check_against_cache: expected `if caching: …` then `return`')
    if _n(ast.unparse(body[1].value)) != 'completed,halted,updated':
        raise TieBroken('_maybe_check_against_cache: returns ' + ast.unparse(body[1].value))
    guard = ast.unparse(body[0].test)
    if _n(guard) != _n('self._caching and self._cache_completed is not None and self._cache_halted is not None'):
        raise TieBroken('_maybe_check_against_cache: guard is `' + guard + '` (expected: caching enabled and both memories exist)')
    out = {}
    for st in body[0].body:
        if not (isinstance(st, ast.Assign) and len(st.targets) == 1 and isinstance(st.targets[0], ast.Name)
                and isinstance(st.value, ast.ListComp) and len(st.value.generators) == 1):
            raise TieBroken('_maybe_check_against_cache: statement ' + ast.unparse(st)[:60])
        tgt = st.targets[0].id
        gen = st.value.generators[0]
        if ast.unparse(gen.iter) != tgt or not isinstance(gen.target, ast.Name) or ast.unparse(st.value.elt) != gen.target.id \
                or len(gen.ifs) != 1:
            raise TieBroken('_maybe_check_against_cache: comprehension for ' + tgt)
        if tgt in out:
            raise TieBroken('_maybe_check_against_cache: ' + tgt + ' filtered twice')
        out[tgt] = _filter_expr(gen.ifs[0], gen.target.id)
    if set(out) != {'completed', 'halted', 'updated'}:
        raise TieBroken('_maybe_check_against_cache: filters for ' + repr(sorted(out)))
    return out


def _with_body(fn, what):
    body = strip_doc(fn.body)
    if len(body) != 1 or not isinstance(body[0], ast.With) or ast.unparse(body[0].items[0].context_expr) != 'self._lock':
        raise TieBroken(what + ': body is not a single `with self._lock:`')
    return body[0].body


def _remote_order(fn):
    steps = []
    ahead = None
    for st in _with_body(fn, 'on_distributed_update'):
        src = ast.unparse(st)
        if isinstance(st, ast.If) and ast.unparse(st.test) == 'self._closed':
            steps.append('closed?')
        elif isinstance(st, (ast.Assign, ast.AnnAssign)) and ast.unparse(st.target if isinstance(st, ast.AnnAssign) else st.targets[0]) in (
                'remove_indices_completed', 'remove_indices_halted', 'remove_indices_updated', 'runlocal'):
            continue
        elif _n(src) == _n('completed, halted, updated = self._maybe_check_against_cache(completed, halted, updated)'):
            steps.append('filter')
        elif src == 'self._maybe_cache(completed, halted)':
            steps.append('memorise')
        elif isinstance(st, ast.For) and _n(ast.unparse(st.iter)) == _n('enumerate((completed, halted))'):
            steps.append('remove')
        elif _n(src) == _n('_, _, updated = self._maybe_check_against_cache([], [], updated)'):
            steps.append('refilter')
        elif isinstance(st, ast.For) and ast.unparse(st.iter) == 'enumerate(updated)':
            steps.append('update')
            tests = [n for n in ast.walk(st) if isinstance(n, ast.If)
                     and any(isinstance(c, ast.Expr) and 'set_block' in ast.unparse(c) for c in n.body)]
            if len(tests) != 1:
                raise TieBroken('on_distributed_update: expected exactly one `if` guarding set_block')
            ahead = _ahead_expr(tests[0].test)
        elif isinstance(st, ast.For) and 'remove_indices_completed' in ast.unparse(st.iter):
            steps.append('drop-unknown')
        elif isinstance(st, ast.For) and _n(ast.unparse(st.iter)) == 'completed,halted' and 'unique' in src:
            steps.append('dedup')
        elif isinstance(st, ast.For) and ast.unparse(st.iter) == 'self._subscribers':
            steps.append('notify')
        else:
            raise TieBroken('on_distributed_update: unexpected statement: ' + src[:70])
    if ahead is None:
        raise TieBroken('on_distributed_update: the update loop was not found')
    return steps, ahead


def _local_order(fn):
    body = _with_body(fn, 'update')
    steps = []
    for st in body:
        if isinstance(st, ast.If) and ast.unparse(st.test) == 'self._closed':
            steps.append('closed?')
        elif isinstance(st, ast.If) and ast.unparse(st.test) == 'not self._queue.empty()':
            for s2 in st.body:
                src = ast.unparse(s2)
                if '_process_event(self._queue.get_nowait())' in src:
                    steps.append('process')
                elif isinstance(s2, (ast.Assign, ast.AnnAssign)) and '.serialize()' in src:
                    steps.append('serialise:' + ast.unparse(s2.target if isinstance(s2, ast.AnnAssign) else s2.targets[0]))
                elif src == 'self._maybe_cache(completed, halted)':
                    steps.append('memorise')
                elif isinstance(s2, ast.Assign) and ast.unparse(s2.targets[0]) == 'internal_state_change':
                    if _n(ast.unparse(s2.value)) != _n('any(len(rl) > 0 for rl in [completed, halted, updated])'):
                        raise TieBroken('update: changed-test is ' + ast.unparse(s2.value))
                    steps.append('changed?')
                elif isinstance(s2, ast.If) and ast.unparse(s2.test) == 'internal_state_change':
                    steps.append('notify-if-changed')
                elif isinstance(s2, ast.Return) and ast.unparse(s2.value) == 'internal_state_change':
                    steps.append('return-changed')
                else:
                    raise TieBroken('update: unexpected statement: ' + src[:70])
        elif isinstance(st, ast.Return) and ast.unparse(st.value) == 'False':
            steps.append('return-false')
        else:
            raise TieBroken('update: unexpected statement: ' + ast.unparse(st)[:70])
    return steps


def _process_event_lists(fn):
    body = strip_doc(fn.body)
    if len(body) != 3:
        raise TieBroken('_process_event: expected three statements')
    a, b, r = (ast.unparse(x) for x in body)
    if _n(a) != _n('r_halt_com, r_halt_incom, r_upd = self._check_against_runs(event)') or \
            _n(b) != _n('p_halt_com, p_upd = self._check_against_patterns(event)'):
        raise TieBroken('_process_event: calls changed: ' + a + ' ; ' + b)
    return _n(r.replace('return ', ''))



# ---------------------------------------------------------------------------------------------------------
# the local path: `_check_against_runs` and `_check_against_patterns`
# ---------------------------------------------------------------------------------------------------------

def _cls_tree(stmts, tests, leaves, what):
    stmts = list(stmts)
    if len(stmts) == 1 and isinstance(stmts[0], ast.If):
        st = stmts[0]
        t = ast.unparse(st.test)
        if t not in tests:
            raise TieBroken(what + ': test `' + t + '`')
        els = _cls_tree(st.orelse, tests, leaves, what) if st.orelse else leaves[()]
        return f"(if {tests[t]} then {_cls_tree(st.body, tests, leaves, what)} else {els})"
    if stmts and isinstance(stmts[0], ast.Expr) and len(stmts) == 2 and isinstance(stmts[1], ast.If):
        # `runs_to_remove.append(...)` followed by the complete / incomplete split
        if _n(ast.unparse(stmts[0])) != _n('runs_to_remove.append((phenomenon_name, pattern_name, run.run_id))'):
            raise TieBroken(what + ': ' + ast.unparse(stmts[0])[:60])
        inner = _cls_tree([stmts[1]], tests, {k: v for k, v in leaves.items()}, what)
        return inner.replace('.completed', '.completedRemoved').replace('.halted', '.haltedRemoved')
    key = tuple(ast.unparse(x) for x in stmts)
    if key in leaves:
        return leaves[key]
    raise TieBroken(what + ': unexpected statements: ' + ' ; '.join(key)[:100])


def _runs_phase(fn):
    body = strip_doc(fn.body)
    shape = []
    cls = None
    for st in body:
        src = ast.unparse(st)
        if isinstance(st, ast.AnnAssign) and ast.unparse(st.target) in ('runs_halted_complete', 'runs_halted_incomplete', 'runs_updated', 'runs_to_remove'):
            continue
        if isinstance(st, ast.For) and _n(ast.unparse(st.iter)) == 'self._runs.items':
            f2 = st.body
            if len(f2) != 1 or not isinstance(f2[0], ast.For) or _n(ast.unparse(f2[0].iter)) != 'dict_patterns.items':
                raise TieBroken('_check_against_runs: second loop level')
            f3 = f2[0].body
            if len(f3) != 1 or not isinstance(f3[0], ast.For) or _n(ast.unparse(f3[0].iter)) != 'dict_runs.items':
                raise TieBroken('_check_against_runs: third loop level')
            inner = [x for x in f3[0].body if not (isinstance(x, ast.AnnAssign) and x.value is None)]
            if len(inner) != 2 or not isinstance(inner[0], ast.Try):
                raise TieBroken('_check_against_runs: per-run body is not `try: process … except: continue` + classification')
            tr = inner[0]
            if [ast.unparse(x) for x in tr.body] != ['run_eval = run.process(event)'] or len(tr.handlers) != 1 \
                    or [ast.unparse(x) for x in tr.handlers[0].body] != ['continue'] or tr.orelse or tr.finalbody:
                raise TieBroken('_check_against_runs: the try no longer wraps exactly `run.process(event)` with `continue`')
            cls = _cls_tree([inner[1]], {'run_eval': 'changed', 'run.is_halted()': 'halted', 'run.is_complete()': 'complete'},
                            {('runs_halted_complete.append(run)',): '.completed', ('runs_halted_incomplete.append(run)',): '.halted',
                             ('runs_updated.append(run)',): '.updated', (): '.same'}, '_check_against_runs')
            shape.append('per-run:try-process-only;classify')
        elif isinstance(st, ast.For) and ast.unparse(st.iter) == 'runs_to_remove':
            if [ast.unparse(x) for x in st.body] != ['self._remove_run(phenomenon_name, pattern_name, run_id)']:
                raise TieBroken('_check_against_runs: removal loop body')
            shape.append('remove-finished-after-all-runs')
        elif isinstance(st, ast.Return):
            if _n(ast.unparse(st.value)) != 'runs_halted_complete,runs_halted_incomplete,runs_updated':
                raise TieBroken('_check_against_runs: returns ' + src)
            shape.append('return:completed,halted,updated')
        else:
            raise TieBroken('_check_against_runs: unexpected statement: ' + src[:70])
    if cls is None:
        raise TieBroken('_check_against_runs: loop not found')
    return cls, shape


def _patterns_phase(fn):
    body = strip_doc(fn.body)
    shape = []
    dec = None
    for st in body:
        src = ast.unparse(st)
        if isinstance(st, ast.AnnAssign) and ast.unparse(st.target) in ('runs_halted_complete', 'runs_updated'):
            continue
        if isinstance(st, ast.For) and _n(ast.unparse(st.iter)) == 'self._phenomena.values':
            f2 = st.body
            if len(f2) != 1 or not isinstance(f2[0], ast.For) or ast.unparse(f2[0].iter) != 'phenomenon.patterns':
                raise TieBroken('_check_against_patterns: second loop level')
            b = f2[0].body
            if len(b) != 3:
                raise TieBroken('_check_against_patterns: per-pattern body has %d statements' % len(b))
            if _n(ast.unparse(b[0])) != _n('any_eval: bool = False'):
                raise TieBroken('_check_against_patterns: any_eval initialisation')
            first = ast.unparse(b[1])
            exp_first = ('for predicate in pattern.blocks[0].predicates:\n    try:\n        if predicate.evaluate(event, self._stub_history):\n'
                         '            any_eval = True\n            break\n    except (Exception,):\n        pass')
            if first != exp_first:
                raise TieBroken('_check_against_patterns: first-block test changed')
            shape.append('first-block:any-predicate,raise-counts-as-no,empty-history')
            if not isinstance(b[2], ast.If) or ast.unparse(b[2].test) != 'any_eval' or b[2].orelse:
                raise TieBroken('_check_against_patterns: `if any_eval:`')
            c = b[2].body
            if len(c) != 2 or not isinstance(c[0], ast.Assign) or ast.unparse(c[0].targets[0]) != 'newrun':
                raise TieBroken('_check_against_patterns: run construction')
            call = c[0].value
            kws = {k.arg: _n(ast.unparse(k.value)) for k in call.keywords}
            if ast.unparse(call.func) != 'BoboRun' or kws != {
                    'run_id': 'self._gen_run_id.generate', 'phenomenon_name': 'phenomenon.name', 'pattern': 'pattern',
                    'block_index': '1', 'history': _n('BoboHistory({pattern.blocks[0].group: [event]})')}:
                raise TieBroken('_check_against_patterns: new run is built as ' + ast.unparse(call)[:120])
            shape.append('new-run:index-1,history-{group0:[event]},fresh-id')
            d = c[1]
            if not isinstance(d, ast.If) or _n(ast.unparse(d.test)) != _n('newrun.is_halted() and newrun.is_complete()') \
                    or [ast.unparse(x) for x in d.body] != ['runs_halted_complete.append(newrun)']:
                raise TieBroken('_check_against_patterns: completed-at-once branch')
            e = d.orelse
            if len(e) != 2 or ast.unparse(e[0]) != 'runs = self.runs_from(phenomenon.name, pattern.name)' or not isinstance(e[1], ast.If) or e[1].orelse:
                raise TieBroken('_check_against_patterns: singleton gate shape')
            gate = e[1].test
            names = {'pattern.singleton': 'singleton', 'len(runs) == 0': 'noRuns'}

            def g(x):
                if isinstance(x, ast.BoolOp):
                    return '(' + (' && ' if isinstance(x.op, ast.And) else ' || ').join(g(v) for v in x.values) + ')'
                if isinstance(x, ast.UnaryOp) and isinstance(x.op, ast.Not):
                    return '(!' + g(x.operand) + ')'
                k = ast.unparse(x)
                if k in names:
                    return names[k]
                raise TieBroken('_check_against_patterns: singleton gate term ' + k)
            if [ast.unparse(x) for x in e[1].body] != ['self._add_run(phenomenon.name, pattern.name, newrun)', 'runs_updated.append(newrun)']:
                raise TieBroken('_check_against_patterns: store branch')
            dec = f"(if (haltedNew && completeNew) then .completeAtOnce else (if {g(gate)} then .store else .skip))"
        elif isinstance(st, ast.Return):
            if _n(ast.unparse(st.value)) != 'runs_halted_complete,runs_updated':
                raise TieBroken('_check_against_patterns: returns ' + src)
            shape.append('return:completed,updated')
        else:
            raise TieBroken('_check_against_patterns: unexpected statement: ' + src[:70])
    if dec is None:
        raise TieBroken('_check_against_patterns: loop not found')
    return dec, shape



def _memorise(cls, src):
    fn = find_func(cls, '_maybe_cache')
    body = strip_doc(fn.body)
    if len(body) != 1 or not isinstance(body[0], ast.If) or body[0].orelse or \
            _n(ast.unparse(body[0].test)) != _n('self._caching and self._cache_completed is not None and self._cache_halted is not None'):
        raise TieBroken('_maybe_cache: expected a single `if caching enabled and both memories exist:`')
    gp = find_func(cls, '_get_pattern')
    gpb = [ast.unparse(x) for x in strip_doc(gp.body)]
    if gpb != ['if phenomenon_name in self._phenomena:\n    for pattern in self._phenomena[phenomenon_name].patterns:\n'
               '        if pattern.name == pattern_name:\n            return pattern', 'return']:
        raise TieBroken('_get_pattern: no longer "first pattern of that name among the named phenomenon\'s own patterns": ' + ' ; '.join(gpb)[:120])
    got = [ast.unparse(x) for x in body[0].body]
    exp = ['for c in completed:\n    self._cache_completed.append(c)', 'for h in halted:\n    self._cache_halted.append(h)']
    if got != exp:
        raise TieBroken('_maybe_cache: body changed: ' + ' ; '.join(got)[:120])
    init = find_func(cls, '__init__')
    text = ast.get_source_segment(src, init)
    flat = _n(text)
    need = [_n('self._caching: bool = (max_cache > 0)'), _n('deque(maxlen=max_cache) if self._caching else None')]
    alt0 = _n('self._caching = max_cache > 0')
    if not (need[0] in flat or alt0 in flat or _n('self._caching: bool = max_cache > 0') in flat):
        raise TieBroken('__init__: `_caching` is no longer `max_cache > 0`')
    if flat.count(need[1]) != 2:
        raise TieBroken('__init__: the two memories are no longer `deque(maxlen=max_cache) if self._caching else None`')
    return ['completed->completed-memory:append-each', 'halted->halted-memory:append-each', 'caching:=max_cache>0',
            'memories:deque(maxlen=max_cache)', 'get_pattern:first-of-that-name-in-the-named-phenomenon']


def translate(repo):
    src, tree = parse_file(repo, SRC)
    cls = find_class(tree, 'BoboDecider')
    hashes = {}
    fns = {n: find_func(cls, n) for n in ('on_distributed_update', '_maybe_check_against_cache', 'update', '_process_event',
                                         '_check_against_runs', '_check_against_patterns')}
    for n, f in fns.items():
        hashes[f"{SRC}::BoboDecider.{n}"] = sha(ast.get_source_segment(src, f))
    rsteps, ahead = _remote_order(fns['on_distributed_update'])
    filt = _cache_filters(fns['_maybe_check_against_cache'])
    lsteps = _local_order(fns['update'])
    plists = _process_event_lists(fns['_process_event'])
    rcls, rshape = _runs_phase(fns['_check_against_runs'])
    pdec, pshape = _patterns_phase(fns['_check_against_patterns'])
    mshape = _memorise(cls, src)
    hashes[f"{SRC}::BoboDecider._maybe_cache"] = sha(ast.get_source_segment(src, find_func(cls, '_maybe_cache')))

    def strs(l):
        return '[' + ', '.join(f'"{x}"' for x in l) + ']'
    lean = f"""-- GENERATED by translate/deciderfrag.py from {SRC} — do not edit.
namespace Bobo.Gen.DeciderFrag

/-- the test guarding `set_block` in `on_distributed_update`, on (remote index, remote history size,
local index, local history size). -/
def ahead (rIdx rSize lIdx lSize : Nat) : Bool :=
  {ahead}

/-- `_maybe_check_against_cache` keeps a completed / halted / updated record (identifier remembered as completed,
identifier remembered as halted). -/
def keepCompleted (inC inH : Bool) : Bool := {filt['completed']}
def keepHalted (inC inH : Bool) : Bool := {filt['halted']}
def keepUpdated (inC inH : Bool) : Bool := {filt['updated']}

/-- the top-level steps of `on_distributed_update`, in source order. -/
def remoteOrder : List String := {strs(rsteps)}

/-- the steps of `update()`, in source order. -/
def localOrder : List String := {strs(lsteps)}

/-- what `_process_event` returns. -/
def processEventLists : String := "{plists}"

/-- `_check_against_runs`: what happens to one run after `process` (changed?, halted?, complete?). -/
inductive RunCls where
  | completedRemoved | haltedRemoved | updated | same | completed | halted
deriving DecidableEq, Repr

def classify (changed halted complete : Bool) : RunCls :=
  {rcls}

/-- the shape of `_check_against_runs`. -/
def runsShape : List String := {strs(rshape)}

/-- `_check_against_patterns`: what happens to the freshly built run. -/
inductive StartAct where
  | completeAtOnce | store | skip
deriving DecidableEq, Repr

def startDecision (haltedNew completeNew singleton noRuns : Bool) : StartAct :=
  {pdec}

/-- the shape of `_check_against_patterns`. -/
def patternsShape : List String := {strs(pshape)}

/-- `_maybe_cache` and the construction of the two memories. -/
def memoriseShape : List String := {strs(mshape)}

end Bobo.Gen.DeciderFrag
"""
    return {OUT: lean}, hashes
