"""
G-tie for C16: translate the body of BoboGenEventIDUnique.generate into
Lean (Gen/IdGen.lean).

Accepted shape (after the docstring):
    with self._lock:
        now: int = int(time())
        if <cond over now, self._last, self._count, integer constants of the class>:
            <assignments to self._count / self._last, possibly ending in a nested if / elif / else of the same kind>
        else:
            <the same>
        if self._urn is not None:
            return '{}_{}_{}'.format(self._urn, A, B)
        else:
            return '{}_{}'.format(A, B)
The state update is evaluated as a sequential assignment program.
"""
import ast
from .pyexpr import ExprT, TieBroken, find_class, find_func, strip_doc, sha
from .normalize import parse_file, parse as norm_parse

SRC = 'bobocep/cep/gen/event_id.py'
OUT = 'IdGen.lean'


def _assign_block(body, env, tr_names):
    """sequentially apply assignments; env maps var -> Lean term"""
    env = dict(env)
    for st in body:
        if isinstance(st, ast.AugAssign):
            tgt = ExprT({}).dotted(st.target)
            if not isinstance(st.op, ast.Add):
                raise TieBroken("augassign op")
            cur = env[tgt]
            val = ExprT(env).tr(st.value)
            env[tgt] = f"({cur} + {val})"
        elif isinstance(st, (ast.Assign, ast.AnnAssign)):
            tgt_node = st.targets[0] if isinstance(st, ast.Assign) else st.target
            if isinstance(st, ast.Assign) and len(st.targets) != 1:
                raise TieBroken("multi-assign")
            tgt = ExprT({}).dotted(tgt_node)
            env[tgt] = ExprT(env).tr(st.value)
        elif isinstance(st, ast.Pass):
            pass
        else:
            raise TieBroken("statement in state update: " + ast.dump(st)[:80])
    return env


def translate(repo):
    src, tree = parse_file(repo, SRC)
    cls = find_class(tree, 'BoboGenEventIDUnique')
    fn = find_func(cls, 'generate')
    frag = ast.get_source_segment(src, fn)
    # the prefix the identifiers carry is the constructor's argument itself (the model's `fmt urn`; prefix_disjoint is about it)
    init = find_func(cls, '__init__')
    urn_assigns = [ast.unparse(st.value) for st in ast.walk(init) if isinstance(st, (ast.Assign, ast.AnnAssign)) and st.value is not None
                   and ast.unparse(st.targets[0] if isinstance(st, ast.Assign) else st.target) == 'self._urn']
    if urn_assigns != ['urn']:
        raise TieBroken("__init__: the prefix is not stored as given (`self._urn = urn`): " + ' ; '.join(urn_assigns)[:120])
    body = strip_doc(fn.body)
    if len(body) != 1 or not isinstance(body[0], ast.With):
        raise TieBroken("generate: body is not a single `with self._lock:` block")
    w = body[0]
    item = w.items[0].context_expr
    if ExprT({}).dotted(item) != 'self._lock':
        raise TieBroken("generate: not under self._lock")
    stmts = w.body
    if len(stmts) != 3:
        raise TieBroken(f"generate: expected 3 statements under the lock, found {len(stmts)}")
    s0, s1, s2 = stmts
    # now = int(time())
    if not (isinstance(s0, (ast.AnnAssign, ast.Assign))):
        raise TieBroken("generate: first statement is not the clock read")
    val = s0.value
    if ast.unparse(val) != 'int(time())':
        raise TieBroken("generate: clock read is not int(time()): " + ast.unparse(val))
    tgt = s0.target if isinstance(s0, ast.AnnAssign) else s0.targets[0]
    nowname = ExprT({}).dotted(tgt)
    env0 = {nowname: 'now', 'self._last': 's.last', 'self._count': 's.count'}
    # integer constants of the class / module (`_MAX = 99999`) read as `self._MAX`, `BoboGenEventIDUnique._MAX` or `_MAX`
    for holder, prefixes in ((cls.body, ('self.', 'BoboGenEventIDUnique.')), (tree.body, ('',))):
        for st in holder:
            if isinstance(st, (ast.Assign, ast.AnnAssign)) and st.value is not None:
                t = st.targets[0] if isinstance(st, ast.Assign) else st.target
                v = st.value
                if isinstance(v, ast.UnaryOp) and isinstance(v.op, ast.USub) and isinstance(v.operand, ast.Constant):
                    v = ast.Constant(-v.operand.value)
                if isinstance(t, ast.Name) and isinstance(v, ast.Constant) and type(v.value) is int:
                    for pre in prefixes:
                        env0.setdefault(pre + t.id, f"({v.value})" if v.value < 0 else str(v.value))
    if not isinstance(s1, ast.If):
        raise TieBroken("generate: second statement is not an if")

    def tree_of(stmts, env):
        """statements -> nested (cond, then, else) / environment at the leaf; an `if` must be the last statement of its
        block (anything before it is a sequence of assignments)"""
        stmts = list(stmts)
        k = next((i for i, st in enumerate(stmts) if isinstance(st, ast.If)), None)
        if k is None:
            return _assign_block(stmts, env, None)
        if k != len(stmts) - 1:
            raise TieBroken("generate: statements after a nested if in the state update")
        env = _assign_block(stmts[:k], env, None)
        st = stmts[k]
        # comparisons mix Int (last, now) and Nat (count) only through the literal constants
        return (ExprT(env).tr(st.test), tree_of(st.body, env), tree_of(st.orelse, env))
    utree = tree_of([s1], env0)
    # return
    if not isinstance(s2, ast.If) or ast.unparse(s2.test) != 'self._urn is not None':
        raise TieBroken("generate: third statement is not `if self._urn is not None`")

    def ret_args(b, fmt, nargs, skip):
        if len(b) != 1 or not isinstance(b[0], ast.Return):
            raise TieBroken("generate: return shape")
        c = b[0].value
        if not (isinstance(c, ast.Call) and isinstance(c.func, ast.Attribute) and c.func.attr == 'format'
                and isinstance(c.func.value, ast.Constant) and c.func.value.value == fmt and len(c.args) == nargs):
            raise TieBroken("generate: format string/arity changed: " + ast.unparse(c))
        return c.args[skip:]
    a_some = ret_args(s2.body, '{}_{}_{}', 3, 1)
    if ast.unparse(s2.body[0].value.args[0]) != 'self._urn':
        raise TieBroken("generate: first format argument is not self._urn")
    a_none = ret_args(s2.orelse, '{}_{}', 2, 0)
    if [ast.unparse(a) for a in a_some] != [ast.unparse(a) for a in a_none]:
        raise TieBroken("generate: the two returns format different values")

    def branch(env, ind='    '):
        if isinstance(env, tuple):
            c, t, e = env
            return f"if {c} then\n{ind}  {branch(t, ind + '  ')}\n{ind}else\n{ind}  {branch(e, ind + '  ')}"
        o1 = ExprT(env).tr(a_some[0])
        o2 = ExprT(env).tr(a_some[1])
        return f"(⟨{env['self._last']}, {env['self._count']}⟩, ({o1}, {o2}))"

    lean = f"""-- GENERATED by translate/idgen.py from {SRC} — do not edit.
-- source sha256: {sha(frag)}
import BoboVerif.Model.IdGen
namespace Bobo.Gen.IdGen
open Bobo.IdGen
def step (s : St) (now : Int) : St × Out :=
  {branch(utree, '  ')}
end Bobo.Gen.IdGen
"""
    return {OUT: lean}, {SRC + '::BoboGenEventIDUnique.generate': sha(frag)}
