"""
G-tie for C09: regenerate the field schemas of bobocep's wire representation
(Gen/Serial.lean) from the source.

Per object class (BoboRunSerial, BoboEventSimple, BoboEventComplex,
BoboEventAction) the accepted shape is

    def to_json_dict(self):   return {self.KEY: self.<attr or TYPE constant>, ...}
    def to_json_str(self):    return dumps(self.to_json_dict(), default=lambda o: o.to_json_str())
    def from_json_str(j):     return Cls.from_json_dict(loads(j))
    def from_json_dict(d):    return Cls(kw=d[Cls.KEY], ..., kw=X.from_json_str(d[Cls.KEY]))

with every `self.<attr>` a property `return self._<attr>` of the class or its
base, `self._<attr>` assigned from the constructor parameter `<attr>` (directly
or through `super().__init__(<attr>=<attr>, …)`), and the set of kwargs equal to
the constructor's parameters.  A constructor parameter annotated with a
BoboJSONable class is `nested` (it reaches `dumps` as a non-JSON object, i.e.
through `default`).

BoboHistory: the three loops (to_json_dict, from_json_dict, __init__) are
matched against their expected text; the element decoder call is extracted.
BoboEventFactory: the `EVENT_TYPE` test and the if-chain are extracted in source
order.  tcp.py: the three message keys in object-hook order, the element
decoder of the hook, `_OutgoingJSONEncoder.default`, the two json calls, the
header format line and `_split_plaintext` (pinned by text).

Anything else raises TieBroken; nothing is guessed.
"""
import ast

from .pyexpr import TieBroken, find_class, find_func, strip_doc, sha
from .normalize import parse_file, parse as norm_parse

OUT = 'Serial.lean'

F_RUN = 'bobocep/cep/engine/decider/runserial.py'
F_EVENT = 'bobocep/cep/event/event.py'
F_SIMPLE = 'bobocep/cep/event/simple.py'
F_COMPLEX = 'bobocep/cep/event/complex.py'
F_ACTION = 'bobocep/cep/event/action.py'
F_HISTORY = 'bobocep/cep/event/history.py'
F_FACTORY = 'bobocep/cep/event/factory.py'
F_TCP = 'bobocep/dist/tcp.py'
F_DEVICE = 'bobocep/dist/device.py'

JSONABLE = {'BoboHistory', 'BoboRunSerial', 'BoboEvent', 'BoboEventSimple', 'BoboEventComplex', 'BoboEventAction'}
CLS_LEAN = {'BoboEventSimple': '.simple', 'BoboEventComplex': '.complex', 'BoboEventAction': '.action'}

TO_JSON_STR = 'return dumps(self.to_json_dict(), default=lambda o: o.to_json_str())'


def lstr(s):
    if not isinstance(s, str) or any(ord(c) < 32 or c in '"\\' or ord(c) > 126 for c in s):
        raise TieBroken(f"string constant not representable: {s!r}")
    return '"' + s + '"'


def llist(items):
    return '[' + ', '.join(items) + ']'


def unparse_body(body):
    return '\n'.join(ast.unparse(s) for s in strip_doc(body))


def consts_of(cls):
    """NAME = "literal" assignments in a class body."""
    out = {}
    for st in cls.body:
        if isinstance(st, ast.Assign) and len(st.targets) == 1 and isinstance(st.targets[0], ast.Name) \
                and isinstance(st.value, ast.Constant) and isinstance(st.value.value, str):
            out[st.targets[0].id] = st.value.value
    return out


def single_return(fn, what):
    body = strip_doc(fn.body)
    if len(body) != 1 or not isinstance(body[0], ast.Return) or body[0].value is None:
        raise TieBroken(f"{what}: body is not a single return")
    return body[0].value


def props_of(cls):
    """property name -> backing field, for properties whose body is `return self._x`."""
    out = {}
    for st in cls.body:
        if isinstance(st, ast.FunctionDef) and any(isinstance(d, ast.Name) and d.id == 'property' for d in st.decorator_list):
            v = single_return(st, f"property {st.name}")
            if not (isinstance(v, ast.Attribute) and isinstance(v.value, ast.Name) and v.value.id == 'self'):
                raise TieBroken(f"property {st.name} does not return a field of self")
            out[st.name] = v.attr
    return out


def ctor_info(cls, what):
    """(params in order, annotations, {field: param} from `self._f[: T] = p`, super kwargs or None)."""
    fn = find_func(cls, '__init__')
    a = fn.args
    if a.vararg or a.kwarg or a.kwonlyargs or a.posonlyargs or a.defaults:
        raise TieBroken(f"{what}.__init__: unexpected parameter kinds")
    params = [x.arg for x in a.args[1:]]
    ann = {x.arg: (ast.unparse(x.annotation) if x.annotation is not None else None) for x in a.args[1:]}
    fields = {}
    sup = None
    for st in strip_doc(fn.body):
        if isinstance(st, (ast.Assign, ast.AnnAssign)):
            tgt = st.target if isinstance(st, ast.AnnAssign) else (st.targets[0] if len(st.targets) == 1 else None)
            if isinstance(tgt, ast.Attribute) and isinstance(tgt.value, ast.Name) and tgt.value.id == 'self':
                if isinstance(st.value, ast.Name) and st.value.id in params:
                    if tgt.attr in fields:
                        raise TieBroken(f"{what}.__init__: field {tgt.attr} assigned twice")
                    fields[tgt.attr] = st.value.id
                else:
                    raise TieBroken(f"{what}.__init__: field {tgt.attr} is not assigned from a parameter")
            else:
                raise TieBroken(f"{what}.__init__: unexpected assignment")
        elif isinstance(st, ast.Expr) and isinstance(st.value, ast.Call) and ast.unparse(st.value.func) == 'super().__init__':
            if st.value.args:
                raise TieBroken(f"{what}.__init__: positional super() arguments")
            sup = {}
            for k in st.value.keywords:
                if not (isinstance(k.value, ast.Name) and k.value.id in params):
                    raise TieBroken(f"{what}.__init__: super() argument {k.arg} is not a parameter")
                sup[k.arg] = k.value.id
        elif isinstance(st, ast.If):
            # validation: `if <test>: raise …` only
            if st.orelse or len(st.body) != 1 or not isinstance(st.body[0], ast.Raise):
                raise TieBroken(f"{what}.__init__: an if that is not a validation raise")
        else:
            raise TieBroken(f"{what}.__init__: unexpected statement {ast.unparse(st)[:60]}")
    return params, ann, fields, sup


def object_schema(src, tree, cls_name, base_tree, hashes, path):
    what = cls_name
    cls = find_class(tree, cls_name)
    consts = consts_of(cls)
    props = props_of(cls)
    params, ann, fields, sup = ctor_info(cls, what)
    # attribute -> constructor parameter
    attr_param = {}
    if base_tree is not None:
        base = find_class(base_tree, 'BoboEvent')
        bconsts = consts_of(base)
        for k, v in bconsts.items():
            consts.setdefault(k, v)
        bparams, bann, bfields, bsup = ctor_info(base, 'BoboEvent')
        bprops = props_of(base)
        if sup is None or set(sup) != set(bparams):
            raise TieBroken(f"{what}.__init__: super().__init__ does not pass exactly the base parameters")
        for p, f in bprops.items():
            if f not in bfields:
                raise TieBroken(f"BoboEvent.{p}: backing field not assigned in __init__")
            attr_param[p] = sup[bfields[f]]
    elif sup:
        raise TieBroken(f"{what}.__init__: unexpected super() arguments")
    for p, f in props.items():
        if f not in fields:
            raise TieBroken(f"{what}.{p}: backing field not assigned in __init__")
        attr_param[p] = fields[f]
    for p, q in attr_param.items():
        if p != q:
            raise TieBroken(f"{what}: property {p} returns constructor parameter {q}")

    # to_json_dict
    fn = find_func(cls, 'to_json_dict')
    hashes[f'{path}::{cls_name}.to_json_dict'] = sha(ast.get_source_segment(src, fn))
    lit = single_return(fn, what + '.to_json_dict')
    if not isinstance(lit, ast.Dict):
        raise TieBroken(f"{what}.to_json_dict: not a dict literal")
    enc = []
    for k, v in zip(lit.keys, lit.values):
        def self_attr(e):
            if isinstance(e, ast.Attribute) and isinstance(e.value, ast.Name) and e.value.id == 'self':
                return e.attr
            raise TieBroken(f"{what}.to_json_dict: entry is not self.<name>: {ast.unparse(e) if e is not None else '**'}")
        kn, vn = self_attr(k), self_attr(v)
        if kn not in consts:
            raise TieBroken(f"{what}.to_json_dict: key {kn} is not a string constant of the class")
        if vn in consts:
            srcv = f'.const {lstr(consts[vn])}'
        elif vn in attr_param:
            srcv = f'.attr {lstr(vn)}'
        else:
            raise TieBroken(f"{what}.to_json_dict: value self.{vn} is neither a constant nor a known property")
        enc.append(f'⟨{lstr(consts[kn])}, {srcv}⟩')

    # to_json_str / from_json_str
    fn = find_func(cls, 'to_json_str')
    hashes[f'{path}::{cls_name}.to_json_str'] = sha(ast.get_source_segment(src, fn))
    if unparse_body(fn.body) != TO_JSON_STR:
        raise TieBroken(f"{what}.to_json_str: not `{TO_JSON_STR}`")
    fn = find_func(cls, 'from_json_str')
    hashes[f'{path}::{cls_name}.from_json_str'] = sha(ast.get_source_segment(src, fn))
    if unparse_body(fn.body) != f'return {cls_name}.from_json_dict(loads(j))':
        raise TieBroken(f"{what}.from_json_str: not `return {cls_name}.from_json_dict(loads(j))`")

    # from_json_dict
    fn = find_func(cls, 'from_json_dict')
    hashes[f'{path}::{cls_name}.from_json_dict'] = sha(ast.get_source_segment(src, fn))
    if [x.arg for x in fn.args.args] != ['d']:
        raise TieBroken(f"{what}.from_json_dict: parameters")
    call = single_return(fn, what + '.from_json_dict')
    if not (isinstance(call, ast.Call) and isinstance(call.func, ast.Name) and call.func.id == cls_name and not call.args):
        raise TieBroken(f"{what}.from_json_dict: not a keyword call of {cls_name}")

    def key_of(e):
        # d[Cls.KEY]
        if not (isinstance(e, ast.Subscript) and isinstance(e.value, ast.Name) and e.value.id == 'd'):
            raise TieBroken(f"{what}.from_json_dict: argument is not d[…]: {ast.unparse(e)}")
        s = e.slice
        if not (isinstance(s, ast.Attribute) and isinstance(s.value, ast.Name) and s.value.id in (cls_name, 'BoboEvent')
                and s.attr in consts):
            raise TieBroken(f"{what}.from_json_dict: key is not a class constant: {ast.unparse(s)}")
        return consts[s.attr]
    dec = []
    kws = []
    for k in call.keywords:
        if k.arg is None:
            raise TieBroken(f"{what}.from_json_dict: **kwargs")
        kws.append(k.arg)
        v = k.value
        if isinstance(v, ast.Call):
            if not (isinstance(v.func, ast.Attribute) and v.func.attr == 'from_json_str' and isinstance(v.func.value, ast.Name)
                    and v.func.value.id in JSONABLE and len(v.args) == 1 and not v.keywords):
                raise TieBroken(f"{what}.from_json_dict: unsupported wrapper {ast.unparse(v)}")
            if ann.get(k.arg) != v.func.value.id:
                raise TieBroken(f"{what}.from_json_dict: {k.arg} decoded as {v.func.value.id} but annotated {ann.get(k.arg)}")
            dec.append(f'⟨{lstr(k.arg)}, {lstr(key_of(v.args[0]))}, .fromStr⟩')
        else:
            dec.append(f'⟨{lstr(k.arg)}, {lstr(key_of(v))}, .plain⟩')
    if sorted(kws) != sorted(params):
        raise TieBroken(f"{what}.from_json_dict: kwargs {kws} are not the constructor parameters {params}")
    nested = [p for p in params if ann.get(p) in JSONABLE]
    return ('{ cls := ' + lstr(cls_name) + ',\n    enc := ' + llist(enc) + ',\n    dec := ' + llist(dec)
            + ',\n    nested := ' + llist([lstr(n) for n in nested]) + ' }'), consts


HIST_TO = """d: Dict[str, List[BoboEvent]] = {}
for key in self._events:
    d[key] = [e for e in self._events[key]]
return d"""
HIST_FROM = """from bobocep.cep.event.factory import BoboEventFactory
events: Dict[str, List[BoboEvent]] = {}
for key in d:
    events[key] = [@ELEM@ for e in d[key]]
return BoboHistory(events=events)"""
HIST_INIT = """super().__init__()
self._events: Dict[str, List[BoboEvent]] = {}
self._first: Optional[BoboEvent] = None
self._last: Optional[BoboEvent] = None
if events is not None:
    for name, event_list in events.items():
        for event in event_list:
            if name not in self._events:
                self._events[name] = []
            self._events[name].append(event)
            if self._first is None or event.timestamp < self._first.timestamp:
                self._first = event
            if self._last is None or event.timestamp > self._last.timestamp:
                self._last = event"""


def history_schema(repo, hashes):
    src = (repo / F_HISTORY).read_text()
    cls = find_class(norm_parse(src, str(F_HISTORY)), 'BoboHistory')
    for name in ('to_json_dict', 'to_json_str', 'from_json_str', 'from_json_dict', '__init__'):
        hashes[f'{F_HISTORY}::BoboHistory.{name}'] = sha(ast.get_source_segment(src, find_func(cls, name)))
    if unparse_body(find_func(cls, 'to_json_dict').body) != HIST_TO:
        raise TieBroken("BoboHistory.to_json_dict: shape changed")
    if unparse_body(find_func(cls, 'to_json_str').body) != TO_JSON_STR:
        raise TieBroken("BoboHistory.to_json_str: shape changed")
    if unparse_body(find_func(cls, 'from_json_str').body) != 'return BoboHistory.from_json_dict(loads(j))':
        raise TieBroken("BoboHistory.from_json_str: shape changed")
    if unparse_body(find_func(cls, '__init__').body) != HIST_INIT:
        raise TieBroken("BoboHistory.__init__: shape changed")
    fn = find_func(cls, 'from_json_dict')
    body = strip_doc(fn.body)
    elem = None
    for st in body:
        if isinstance(st, ast.For):
            for a in st.body:
                if isinstance(a, ast.Assign) and isinstance(a.value, ast.ListComp):
                    elem = a.value.elt
    if elem is None:
        raise TieBroken("BoboHistory.from_json_dict: list comprehension not found")
    if unparse_body(fn.body) != HIST_FROM.replace('@ELEM@', ast.unparse(elem)):
        raise TieBroken("BoboHistory.from_json_dict: shape changed")
    if not (isinstance(elem, ast.Call) and isinstance(elem.func, ast.Attribute) and isinstance(elem.func.value, ast.Name)
            and len(elem.args) == 1 and isinstance(elem.args[0], ast.Name) and elem.args[0].id == 'e' and not elem.keywords):
        raise TieBroken("BoboHistory.from_json_dict: element decoder is not X.method(e)")
    if elem.func.attr == 'from_json_str':
        wrap = '.fromStr'
    elif elem.func.attr == 'from_json_dict':
        wrap = '.plain'
    else:
        raise TieBroken("BoboHistory.from_json_dict: element decoder method " + elem.func.attr)
    return f'⟨true, {wrap}, {lstr(elem.func.value.id)}⟩'


def factory_schema(repo, hashes, tags):
    src = (repo / F_FACTORY).read_text()
    cls = find_class(norm_parse(src, str(F_FACTORY)), 'BoboEventFactory')
    fn = find_func(cls, 'from_json_str')
    hashes[f'{F_FACTORY}::BoboEventFactory.from_json_str'] = sha(ast.get_source_segment(src, fn))
    body = [s for s in strip_doc(fn.body) if not isinstance(s, ast.ImportFrom)]
    if len(body) < 3 or ast.unparse(body[0]) != 'd: dict = loads(j)':
        raise TieBroken("factory: first statement is not `d: dict = loads(j)`")
    m = body[1]
    if not (isinstance(m, ast.If) and ast.unparse(m.test) == 'BoboEvent.EVENT_TYPE not in d' and not m.orelse
            and len(m.body) == 1 and isinstance(m.body[0], ast.Raise)):
        raise TieBroken("factory: missing-key test changed")
    if not isinstance(body[-1], ast.Raise):
        raise TieBroken("factory: does not end with a raise")
    cases = []
    for st in body[2:-1]:
        if not (isinstance(st, ast.If) and not st.orelse and len(st.body) == 1 and isinstance(st.body[0], ast.Return)):
            raise TieBroken("factory: dispatch statement shape")
        t = st.test
        if not (isinstance(t, ast.Compare) and len(t.ops) == 1 and isinstance(t.ops[0], ast.Eq)
                and ast.unparse(t.left) == 'd[BoboEvent.EVENT_TYPE]'):
            raise TieBroken("factory: dispatch test shape: " + ast.unparse(t))
        r = t.comparators[0]
        if not (isinstance(r, ast.Attribute) and isinstance(r.value, ast.Name) and r.value.id in CLS_LEAN):
            raise TieBroken("factory: tag is not <EventClass>.<CONST>")
        tagcls, tagname = r.value.id, r.attr
        if tagname not in tags[tagcls]:
            raise TieBroken(f"factory: {tagcls}.{tagname} is not a string constant")
        ret = st.body[0].value
        if not (isinstance(ret, ast.Call) and isinstance(ret.func, ast.Attribute) and ret.func.attr == 'from_json_dict'
                and isinstance(ret.func.value, ast.Name) and ret.func.value.id in CLS_LEAN
                and len(ret.args) == 1 and ast.unparse(ret.args[0]) == 'd' and not ret.keywords):
            raise TieBroken("factory: dispatch target shape: " + ast.unparse(ret))
        cases.append(f'({lstr(tags[tagcls][tagname])}, {CLS_LEAN[ret.func.value.id]})')
    return f'⟨{lstr(tags["BoboEvent"]["EVENT_TYPE"])}, {llist(cases)}⟩'


SPLIT = """ix_delim = []
for i, c in enumerate(plaintext):
    if c == ' ':
        ix_delim.append(i)
    if len(ix_delim) == 4:
        break
if len(ix_delim) != 4:
    raise BoboDistributedError('Invalid plaintext message: {}'.format(plaintext))
return (plaintext[:ix_delim[0]], plaintext[ix_delim[0] + 1:ix_delim[1]], int(plaintext[ix_delim[1] + 1:ix_delim[2]]), int(plaintext[ix_delim[2] + 1:ix_delim[3]]), plaintext[ix_delim[3] + 1:])"""


def wire_schema(repo, hashes):
    src, tree = parse_file(repo, F_TCP)
    mconst = {}
    for st in tree.body:
        if isinstance(st, ast.Assign) and len(st.targets) == 1 and isinstance(st.targets[0], ast.Name) \
                and isinstance(st.value, ast.Constant) and isinstance(st.value.value, str):
            mconst[st.targets[0].id] = st.value.value
    # encoder
    enc = find_class(tree, '_OutgoingJSONEncoder')
    fn = find_func(enc, 'default')
    hashes[f'{F_TCP}::_OutgoingJSONEncoder.default'] = sha(ast.get_source_segment(src, fn))
    body = strip_doc(fn.body)
    if not (len(body) == 1 and isinstance(body[0], ast.Try) and len(body[0].body) == 1 and isinstance(body[0].body[0], ast.Return)):
        raise TieBroken("_OutgoingJSONEncoder.default: shape changed")
    if [x.arg for x in fn.args.args] != ['self', 'obj']:
        raise TieBroken("_OutgoingJSONEncoder.default: parameters")
    enc_default = ast.unparse(body[0].body[0].value)
    # decoder
    dec = find_class(tree, '_IncomingJSONDecoder')
    init = find_func(dec, '__init__')
    hashes[f'{F_TCP}::_IncomingJSONDecoder.__init__'] = sha(ast.get_source_segment(src, init))
    ib = unparse_body(init.body)
    if ib == 'json.JSONDecoder.__init__(self, object_hook=self.object_hook)':
        all_dicts = 'true'
    else:
        raise TieBroken("_IncomingJSONDecoder.__init__: hook installation changed: " + ib)
    hook = find_func(dec, 'object_hook')
    hashes[f'{F_TCP}::_IncomingJSONDecoder.object_hook'] = sha(ast.get_source_segment(src, hook))
    hb = strip_doc(hook.body)
    if not (len(hb) == 1 and isinstance(hb[0], ast.Try)):
        raise TieBroken("object_hook: not a single try")
    stmts = hb[0].body
    if not stmts or ast.unparse(stmts[-1]) != 'return d':
        raise TieBroken("object_hook: does not end with `return d`")
    keys, decs, wraps = [], set(), set()
    for st in stmts[:-1]:
        if not (isinstance(st, ast.If) and not st.orelse and len(st.body) == 1 and isinstance(st.body[0], ast.Assign)
                and isinstance(st.test, ast.Compare) and len(st.test.ops) == 1 and isinstance(st.test.ops[0], ast.In)
                and isinstance(st.test.left, ast.Name) and ast.unparse(st.test.comparators[0]) == 'd'):
            raise TieBroken("object_hook: statement shape: " + ast.unparse(st)[:60])
        kname = st.test.left.id
        if kname not in mconst:
            raise TieBroken(f"object_hook: {kname} is not a module string constant")
        a = st.body[0]
        if ast.unparse(a.targets[0]) != f'd[{kname}]' or not isinstance(a.value, ast.ListComp):
            raise TieBroken("object_hook: assignment shape")
        lc = a.value
        if not (len(lc.generators) == 1 and ast.unparse(lc.generators[0].iter) == f'd[{kname}]'
                and not lc.generators[0].ifs and isinstance(lc.generators[0].target, ast.Name)):
            raise TieBroken("object_hook: comprehension shape")
        var = lc.generators[0].target.id
        e = lc.elt
        if not (isinstance(e, ast.Call) and isinstance(e.func, ast.Attribute) and isinstance(e.func.value, ast.Name)
                and len(e.args) == 1 and ast.unparse(e.args[0]) == var and not e.keywords):
            raise TieBroken("object_hook: element decoder shape")
        if e.func.attr == 'from_json_str':
            wraps.add('.fromStr')
        elif e.func.attr == 'from_json_dict':
            wraps.add('.plain')
        else:
            raise TieBroken("object_hook: element decoder method " + e.func.attr)
        decs.add(e.func.value.id)
        keys.append(mconst[kname])
    if len(decs) != 1 or len(wraps) != 1:
        raise TieBroken("object_hook: the keys are not decoded uniformly")
    # the two json calls
    tcp = find_class(tree, 'BoboDistributedTCP')
    for name, expect in (('_incoming_from_json', 'return json.loads(msg_str, cls=_IncomingJSONDecoder)'),
                         ('_outgoing_to_json', 'return json.dumps(msg, cls=_OutgoingJSONEncoder)')):
        fn = find_func(tcp, name)
        hashes[f'{F_TCP}::BoboDistributedTCP.{name}'] = sha(ast.get_source_segment(src, fn))
        b = strip_doc(fn.body)
        if not (len(b) == 1 and isinstance(b[0], ast.Try) and len(b[0].body) == 1 and ast.unparse(b[0].body[0]) == expect):
            raise TieBroken(f"{name}: shape changed")
    # header line of _tcp_send
    send = find_func(tcp, '_tcp_send')
    fmt = None
    for n in ast.walk(send):
        if isinstance(n, ast.Assign) and ast.unparse(n.targets[0]) == 'msg_str' and isinstance(n.value, ast.Call) \
                and isinstance(n.value.func, ast.Attribute) and n.value.func.attr == 'format' \
                and isinstance(n.value.func.value, ast.Constant):
            if fmt is not None:
                raise TieBroken("_tcp_send: more than one header format line")
            fmt = n
    if fmt is None:
        raise TieBroken("_tcp_send: header format line not found")
    hashes[f'{F_TCP}::BoboDistributedTCP._tcp_send.header'] = sha(ast.get_source_segment(src, fmt))
    hfmt = fmt.value.func.value.value
    hargs = [ast.unparse(a) for a in fmt.value.args]
    if fmt.value.keywords:
        raise TieBroken("_tcp_send: header format keywords")
    sp = find_func(tcp, '_split_plaintext')
    hashes[f'{F_TCP}::BoboDistributedTCP._split_plaintext'] = sha(ast.get_source_segment(src, sp))
    if unparse_body(sp.body) != SPLIT:
        raise TieBroken("_split_plaintext: shape changed")
    # BoboDevice.__init__ rejects a urn / id_key containing a space (hypothesis of header_roundtrip)
    dsrc = (repo / F_DEVICE).read_text()
    dinit = find_func(find_class(norm_parse(dsrc, str(F_DEVICE)), 'BoboDevice'), '__init__')
    hashes[f'{F_DEVICE}::BoboDevice.__init__'] = sha(ast.get_source_segment(dsrc, dinit))
    dbody = strip_doc(dinit.body)
    nospace = {}
    for param in ('urn', 'id_key'):
        gi = [i for i, st in enumerate(dbody)
              if isinstance(st, ast.If) and not st.orelse and len(st.body) == 1 and isinstance(st.body[0], ast.Raise)
              and ast.unparse(st.test) == f"' ' in {param}"]
        # the guard counts only if the parameter is not rebound after it
        rebound = [i for i, st in enumerate(dbody) if isinstance(st, (ast.Assign, ast.AnnAssign, ast.AugAssign))
                   and any(isinstance(t, ast.Name) and t.id == param
                           for t in (st.targets if isinstance(st, ast.Assign) else [st.target]))]
        nospace[param] = 'true' if gi and all(r < gi[0] for r in rebound) else 'false'
        assigned = [st for st in dbody if isinstance(st, (ast.Assign, ast.AnnAssign))
                    and ast.unparse(st.value) == param]
        if len(assigned) != 1:
            raise TieBroken(f"BoboDevice.__init__: {param} is not stored exactly once, unchanged")
    return ('{ keys := ' + llist([lstr(k) for k in keys]) + ',\n    elemWrap := ' + wraps.pop()
            + ',\n    elemDecoder := ' + lstr(decs.pop()) + ',\n    encDefault := ' + lstr(enc_default)
            + ',\n    hookOnAllDicts := ' + all_dicts + ',\n    headerFormat := ' + lstr(hfmt)
            + ',\n    headerArgs := ' + llist([lstr(a) for a in hargs])
            + ',\n    urnNoSpace := ' + nospace['urn'] + ',\n    keyNoSpace := ' + nospace['id_key'] + ' }')


def translate(repo):
    hashes = {}
    base_src, base_tree = parse_file(repo, F_EVENT)
    hashes[f'{F_EVENT}::BoboEvent'] = sha(ast.get_source_segment(base_src, find_class(base_tree, 'BoboEvent')))
    schemas = {}
    tags = {'BoboEvent': consts_of(find_class(base_tree, 'BoboEvent'))}
    for name, path, cls, base in (('runSerial', F_RUN, 'BoboRunSerial', None),
                                  ('simple', F_SIMPLE, 'BoboEventSimple', base_tree),
                                  ('complex', F_COMPLEX, 'BoboEventComplex', base_tree),
                                  ('action', F_ACTION, 'BoboEventAction', base_tree)):
        src, tree = parse_file(repo, path)
        hashes[f'{path}::{cls}.__init__'] = sha(ast.get_source_segment(src, find_func(find_class(tree, cls), '__init__')))
        schemas[name], consts = object_schema(src, tree, cls, base, hashes, path)
        tags[cls] = consts
    hist = history_schema(repo, hashes)
    fact = factory_schema(repo, hashes, tags)
    wire = wire_schema(repo, hashes)
    lean = f"""-- GENERATED by translate/serial.py from runserial.py, event/{{event,simple,complex,action,history,factory}}.py, dist/tcp.py — do not edit.
import BoboVerif.Model.Json
namespace Bobo.Gen.Serial
open Bobo.Json
def runSerial : Schema :=
  {schemas['runSerial']}
def simple : Schema :=
  {schemas['simple']}
def complex : Schema :=
  {schemas['complex']}
def action : Schema :=
  {schemas['action']}
def history : HistSchema := {hist}
def factory : Factory := {fact}
def wire : WireSchema :=
  {wire}
end Bobo.Gen.Serial
"""
    return {OUT: lean}, hashes
