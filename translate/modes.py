"""
G-tie for C15 (also used by C06/C07): translate into Lean (Gen/Modes.lean)

  * the module constants `_TYPE_SYNC/_TYPE_PING/_TYPE_RESYNC`, `_FLAG_RESET`;
  * the constructor defaults of the five periods of BoboDistributedTCP (and that
    the constructor stores each parameter in the attribute the loop reads);
  * the decision phase of `_tcp_outgoing`: one clock reading, the per-device
    locals, and the if/elif/else mode-selection tree  -> `selectMode`;
  * the send phase of `_tcp_outgoing`: flag computation -> `flagsOf`, the device
    mutations before the send -> `prep`, the payload expression -> `payload`,
    the `cache_sync` resolution (pinned shape), the post-send assignments of
    every branch -> `book`; the reset counter is read (`resets = d.resets`)
    BEFORE `last_comms` in the decision loop, travels in the outlist entry and
    is the second argument of `d.contacted(now, resets)` (order checked);
  * BoboDeviceManager: constructor, the three setters (with their clamps),
    `clear_last` (incl. the reset counter), `contacted`, `clear_stash`,
    `append_stash`, `size_stash`, and that the
    getters / `stash()` return the plain fields;
  * the reset test at the end of `_tcp_incoming_handle_client` -> `onIncomingFlags`.

Anything outside the accepted shapes raises TieBroken; nothing is guessed.
"""
import ast

from .pyexpr import ExprT, TieBroken, find_class, find_func, strip_doc, strip_logging, sha
from .normalize import parse_file, parse as norm_parse

SRC_TCP = 'bobocep/dist/tcp.py'
SRC_DEV = 'bobocep/dist/devman.py'
OUT = 'Modes.lean'

TYPE_NAMES = {'_TYPE_SYNC': '.sync', '_TYPE_PING': '.ping', '_TYPE_RESYNC': '.resync'}
PERIOD_PARAMS = ['period_ping', 'period_resync', 'attempt_stash', 'attempt_ping', 'attempt_resync']
PERIOD_FIELDS = {'period_ping': 'periodPing', 'period_resync': 'periodResync', 'attempt_stash': 'attemptStash',
                 'attempt_ping': 'attemptPing', 'attempt_resync': 'attemptResync'}
DEV_FIELDS = {'_last_comms': 'lastComms', '_last_attempt': 'lastAttempt', '_resets': 'resets', '_flag_reset': 'flagReset',
              '_stash_completed': 'stashC', '_stash_halted': 'stashH', '_stash_updated': 'stashU'}
KEYS = {'_KEY_COMPLETED': 'c', '_KEY_HALTED': 'h', '_KEY_UPDATED': 'u'}


def U(n):
    return ast.unparse(n)


def need(cond, msg):
    if not cond:
        raise TieBroken(msg)


def _call_max(t, e):
    need(len(e.args) == 2 and not e.keywords, "max arity")
    return f"(max {t.tr(e.args[0])} {t.tr(e.args[1])})"


# ---------------------------------------------------------------------------
# module constants, constructor
# ---------------------------------------------------------------------------

def module_int_consts(tree, names):
    out = {}
    for n in tree.body:
        if isinstance(n, ast.Assign) and len(n.targets) == 1 and isinstance(n.targets[0], ast.Name) \
                and n.targets[0].id in names:
            v = n.value
            need(isinstance(v, ast.Constant) and isinstance(v.value, int) and not isinstance(v.value, bool)
                 and v.value >= 0, f"constant {n.targets[0].id} is not a natural literal")
            need(n.targets[0].id not in out, f"constant {n.targets[0].id} assigned twice")
            out[n.targets[0].id] = v.value
    for k in names:
        need(k in out, f"module constant {k} not found")
    # no later rebinding anywhere in the module (augmented / global)
    for n in ast.walk(tree):
        if isinstance(n, (ast.AugAssign, ast.Global)):
            tgt = U(n.target) if isinstance(n, ast.AugAssign) else ','.join(n.names)
            need(not any(k == tgt or k in tgt.split(',') for k in names), "module constant rebound: " + tgt)
    return out


def module_str_consts(tree, names):
    out = {}
    for n in tree.body:
        if isinstance(n, ast.Assign) and len(n.targets) == 1 and isinstance(n.targets[0], ast.Name) \
                and n.targets[0].id in names:
            need(isinstance(n.value, ast.Constant) and isinstance(n.value.value, str), "key constant not a string")
            out[n.targets[0].id] = n.value.value
    need(set(out) == set(names) and len(set(out.values())) == len(names), "message key constants changed")
    return out


def ctor_periods(init):
    args = init.args
    names = [a.arg for a in args.args]
    defaults = dict(zip(names[len(names) - len(args.defaults):], args.defaults))
    vals = {}
    for p in PERIOD_PARAMS:
        need(p in defaults, f"constructor parameter {p} has no default")
        d = defaults[p]
        need(isinstance(d, ast.Constant) and isinstance(d.value, int) and not isinstance(d.value, bool),
             f"default of {p} is not an int literal")
        vals[p] = d.value
    # self._<p> = <p>, exactly once each, and nowhere else assigned in the class (checked by caller)
    seen = {}
    for st in ast.walk(init):
        if isinstance(st, (ast.Assign, ast.AnnAssign)):
            tgt = st.targets[0] if isinstance(st, ast.Assign) else st.target
            t = U(tgt)
            for p in PERIOD_PARAMS:
                if t == 'self._' + p:
                    need(p not in seen, f"self._{p} assigned twice in the constructor")
                    need(U(st.value) == p, f"self._{p} is not the constructor parameter: {U(st.value)}")
                    seen[p] = True
    for p in PERIOD_PARAMS:
        need(p in seen, f"constructor does not store {p}")
    return vals


def no_other_writes(cls, attrs, allowed_func):
    """the attributes are written only inside `allowed_func`."""
    for fn in cls.body:
        if not isinstance(fn, ast.FunctionDef) or fn.name == allowed_func:
            continue
        for st in ast.walk(fn):
            tgts = []
            if isinstance(st, ast.Assign):
                tgts = st.targets
            elif isinstance(st, (ast.AnnAssign, ast.AugAssign)):
                tgts = [st.target]
            for t in tgts:
                for sub in ast.walk(t):
                    if isinstance(sub, ast.Attribute) and U(sub) in attrs:
                        raise TieBroken(f"{U(sub)} written in {fn.name}")


# ---------------------------------------------------------------------------
# decision phase
# ---------------------------------------------------------------------------

def decision_phase(fn):
    body = strip_doc(fn.body)
    need(len(body) == 1 and isinstance(body[0], ast.While) and U(body[0].test) == 'True' and not body[0].orelse,
         "_tcp_outgoing: body is not a single `while True:`")
    wb = body[0].body
    need(len(wb) == 3, f"_tcp_outgoing: loop body has {len(wb)} statements, expected with / cache_sync / for")
    w, cache_decl, send_for = wb
    need(isinstance(w, ast.With) and len(w.items) == 1 and U(w.items[0].context_expr) == 'self._lock_in_out',
         "_tcp_outgoing: decision phase not under self._lock_in_out")
    ws = w.body
    need(len(ws) == 4, f"_tcp_outgoing: decision block has {len(ws)} statements, expected 4")
    s_closed, s_out, s_now, s_for = ws
    need(U(s_closed) == 'if self._thread_closed:\n    return', "_tcp_outgoing: close check changed")
    need(isinstance(s_out, (ast.Assign, ast.AnnAssign)) and U(s_out.target if isinstance(s_out, ast.AnnAssign) else s_out.targets[0]) == 'outlist'
         and U(s_out.value) == '[]', "_tcp_outgoing: outlist initialisation changed")
    need(isinstance(s_now, (ast.Assign, ast.AnnAssign)) and U(s_now.target if isinstance(s_now, ast.AnnAssign) else s_now.targets[0]) == 'now'
         and U(s_now.value) == 'self._now()', "_tcp_outgoing: the decision phase does not read the clock once into `now`")
    need(isinstance(s_for, ast.For) and U(s_for.target) == 'd' and U(s_for.iter) == 'self._devices.values()'
         and not s_for.orelse, "_tcp_outgoing: device loop header changed")
    fb = s_for.body
    need(len(fb) == 6, f"_tcp_outgoing: device loop has {len(fb)} statements, expected 6")
    need(U(fb[0]) == 'if d.urn == self._urn:\n    continue', "_tcp_outgoing: skip-self test changed")

    def local(st, name, value):
        tgt = st.target if isinstance(st, ast.AnnAssign) else (st.targets[0] if isinstance(st, ast.Assign) else None)
        need(tgt is not None and U(tgt) == name and U(st.value) == value,
             f"_tcp_outgoing: local `{name}` is not `{value}`: {U(st)}")
    # the reset counter must be read BEFORE the times: a reset handled after this read makes
    # `contacted` refuse to record the send; read after `last_comms`, a reset in between would be missed
    local(fb[1], 'resets', 'd.resets')
    local(fb[2], 'comms_range', 'now - d.last_comms')
    local(fb[3], 'attempt_range', 'now - d.last_attempt')
    local(fb[4], 'queue_empty', 'self._queue_outgoing.empty()')
    for st in fb[2:]:
        for sub in ast.walk(st):
            need(not (isinstance(sub, ast.Attribute) and sub.attr == 'resets'), "_tcp_outgoing: d.resets read again after the times")
            if isinstance(sub, (ast.Assign, ast.AnnAssign, ast.AugAssign)):
                tg = sub.targets[0] if isinstance(sub, ast.Assign) else sub.target
                need(U(tg) != 'resets', "_tcp_outgoing: local `resets` rebound after the times were read")

    names = {'comms_range': 'c', 'attempt_range': 'a', 'queue_empty': 'qEmpty'}
    for p in PERIOD_PARAMS:
        names['self._' + p] = 'cfg.' + PERIOD_FIELDS[p]

    def call_size(t, e):
        need(not e.args and not e.keywords, "size_stash arity")
        return 'stash'
    tr = ExprT(names, {'d.size_stash': call_size})

    def leaf(stmts):
        """`if cond: outlist.append((d, _TYPE_X))` (no else), or a nested if/elif/else tree."""
        need(len(stmts) == 1 and isinstance(stmts[0], ast.If), "decision tree: branch is not a single if: " + U(stmts[0])[:60])
        return tree(stmts[0])

    def append_type(stmts):
        need(len(stmts) == 1 and isinstance(stmts[0], ast.Expr) and isinstance(stmts[0].value, ast.Call),
             "decision tree: leaf is not a single outlist.append")
        c = stmts[0].value
        need(U(c.func) == 'outlist.append' and len(c.args) == 1 and isinstance(c.args[0], ast.Tuple)
             and len(c.args[0].elts) == 3 and U(c.args[0].elts[0]) == 'd'
             and U(c.args[0].elts[1]) in TYPE_NAMES and U(c.args[0].elts[2]) == 'resets',
             "decision tree: leaf does not append (d, _TYPE_*, resets): " + U(c))
        return TYPE_NAMES[U(c.args[0].elts[1])]

    def tree(node):
        cond = tr.tr(node.test)
        # then-part: either the append leaf or a nested tree
        if len(node.body) == 1 and isinstance(node.body[0], ast.If):
            th = tree(node.body[0])
        else:
            th = 'some ' + append_type(node.body)
        if not node.orelse:
            el = 'none'
        elif len(node.orelse) == 1 and isinstance(node.orelse[0], ast.If):
            el = tree(node.orelse[0])
        else:
            el = 'some ' + append_type(node.orelse)
        return f"(if {cond} then {th} else {el})"

    need(isinstance(fb[5], ast.If), "_tcp_outgoing: decision tree missing")
    return tree(fb[5]), cache_decl, send_for


# ---------------------------------------------------------------------------
# send phase
# ---------------------------------------------------------------------------

PIN_FETCH = ("if cache_sync is None:\n"
             "    if not self._queue_outgoing.empty():\n"
             "        cache_sync = self._queue_outgoing.get_nowait()\n"
             "    else:\n"
             "        cache_sync = {_KEY_COMPLETED: [], _KEY_HALTED: [], _KEY_UPDATED: []}")
PIN_STASH = "stash_c, stash_h, stash_u = d.stash()"
PIN_SEND_SYNC = ("send_sync: Dict[str, List[BoboRunSerial]] = {_KEY_COMPLETED: cache_sync[_KEY_COMPLETED] + stash_c, "
                 "_KEY_HALTED: cache_sync[_KEY_HALTED] + stash_h, _KEY_UPDATED: cache_sync[_KEY_UPDATED] + stash_u}")
PIN_JSON_SYNC = "msg_json_sync: str = self._outgoing_to_json(send_sync)"
PIN_SNAPSHOT = "snapshot = self._decider.snapshot()"
PIN_JSON_RESYNC = ("msg_json_resync = self._outgoing_to_json({_KEY_COMPLETED: snapshot[0], _KEY_HALTED: snapshot[1], "
                   "_KEY_UPDATED: snapshot[2]})")


def dev_mutation(st, env_expr):
    """a statement that mutates the device `d`; returns a Lean function body `p ↦ p'` as a string using `p`."""
    if isinstance(st, ast.Assign) and len(st.targets) == 1 and isinstance(st.targets[0], ast.Attribute) \
            and U(st.targets[0].value) == 'd':
        attr = st.targets[0].attr
        setters = {'last_comms': 'setLastComms', 'last_attempt': 'setLastAttempt', 'flag_reset': 'setFlagReset'}
        need(attr in setters, "assignment to unknown device attribute d." + attr)
        return f"{setters[attr]} p {env_expr.tr(st.value)}"
    if isinstance(st, ast.Expr) and isinstance(st.value, ast.Call) and isinstance(st.value.func, ast.Attribute) \
            and U(st.value.func.value) == 'd':
        c = st.value
        m = c.func.attr
        if m == 'clear_stash':
            need(not c.args and not c.keywords, "clear_stash arity")
            return "clearStash p"
        if m == 'clear_last':
            need(not c.args and not c.keywords, "clear_last arity")
            return "clearLast p"
        if m == 'contacted':
            need(len(c.args) == 2 and not c.keywords, "contacted arity")
            return f"contacted p {env_expr.tr(c.args[0])} {env_expr.tr(c.args[1])}"
        if m == 'append_stash':
            need(not c.args and sorted(k.arg for k in c.keywords) == ['completed', 'halted', 'updated'],
                 "append_stash is not called with the three keywords")
            kw = {k.arg: k.value for k in c.keywords}

            def item(v):
                need(isinstance(v, ast.Subscript) and U(v.value) == 'cache_sync' and U(v.slice) in KEYS,
                     "append_stash argument is not cache_sync[_KEY_*]: " + U(v))
                return 'cache.' + KEYS[U(v.slice)]
            return f"appendStash p {item(kw['completed'])} {item(kw['halted'])} {item(kw['updated'])}"
        raise TieBroken("unknown device method d." + m)
    return None


def block_prog(stmts, env_expr):
    """sequential device-mutation program (with nested if/else) -> Lean term of type Peer, reading/writing `p`."""
    parts = []
    for st in strip_logging(stmts):
        if isinstance(st, ast.If):
            cond = env_expr.tr(st.test)
            th = block_prog(st.body, env_expr)
            el = block_prog(st.orelse, env_expr) if st.orelse else 'p'
            parts.append(f"(if {cond} then {th} else {el})")
            continue
        m = dev_mutation(st, env_expr)
        need(m is not None, "statement in bookkeeping is not a device mutation: " + U(st)[:80])
        parts.append(m)
    if not parts:
        return 'p'
    return '(' + ' '.join(f"let p := {x};" for x in parts) + ' p)'


def send_phase(cache_decl, send_for):
    need(U(cache_decl) == 'cache_sync: Optional[Dict[str, List[BoboRunSerial]]] = None',
         "_tcp_outgoing: cache_sync is not initialised to None once per pass: " + U(cache_decl))
    need(isinstance(send_for, ast.For) and U(send_for.target) == '(d, msg_type, resets)' and U(send_for.iter) == 'outlist'
         and not send_for.orelse, "_tcp_outgoing: send loop header changed")
    sb = send_for.body
    need(len(sb) == 3, f"_tcp_outgoing: send loop has {len(sb)} statements, expected flags / if flag / branch tree")
    # flags
    need(U(sb[0]) in ('msg_flags: int = 0', 'msg_flags = 0'), "send loop: msg_flags initialisation changed")
    f1 = sb[1]
    need(isinstance(f1, ast.If) and not f1.orelse and len(f1.body) == 1 and isinstance(f1.body[0], ast.AugAssign)
         and U(f1.body[0].target) == 'msg_flags' and isinstance(f1.body[0].op, ast.Add), "send loop: flag computation changed")
    fl_cond = ExprT({'d.flag_reset': 'p.flagReset'}).tr(f1.test)
    fl_add = ExprT({'_FLAG_RESET': 'FLAG_RESET'}).tr(f1.body[0].value)
    flags_of = f"(let f : Nat := 0; let f := (if {fl_cond} then (f + {fl_add}) else f); f)"

    # branch tree on msg_type
    branches = {}
    node = sb[2]
    while True:
        need(isinstance(node, ast.If), "send loop: branch tree is not an if/elif chain on msg_type")
        t = node.test
        need(isinstance(t, ast.Compare) and len(t.ops) == 1 and isinstance(t.ops[0], ast.Eq) and U(t.left) == 'msg_type'
             and U(t.comparators[0]) in TYPE_NAMES, "send loop: branch test changed: " + U(t))
        k = TYPE_NAMES[U(t.comparators[0])]
        need(k not in branches, "send loop: duplicate branch " + k)
        branches[k] = node.body
        if not node.orelse:
            break
        need(len(node.orelse) == 1, "send loop: else branch is not an elif")
        node = node.orelse[0]
    need(set(branches) == set(TYPE_NAMES.values()), "send loop: not exactly the three branches")

    env = ExprT({'now': 'now', 'err': 'err', 'msg_flags': 'flags', '_FLAG_RESET': 'FLAG_RESET', 'resets': 'seen'})
    for sub in ast.walk(send_for):
        if isinstance(sub, (ast.Assign, ast.AnnAssign, ast.AugAssign)):
            tg = sub.targets[0] if isinstance(sub, ast.Assign) else sub.target
            need(U(tg) != 'resets', "send loop: `resets` rebound")
    prep, pay, book = {}, {}, {}
    for k, stmts in branches.items():
        stmts = strip_logging(stmts)
        # locate the send
        idx = [i for i, st in enumerate(stmts)
               if isinstance(st, (ast.Assign, ast.AnnAssign)) and isinstance(st.value, ast.Call)
               and U(st.value.func) == 'self._tcp_send']
        need(len(idx) == 1, f"branch {k}: expected exactly one _tcp_send")
        i = idx[0]
        send = stmts[i]
        need(U(send.target if isinstance(send, ast.AnnAssign) else send.targets[0]) == 'err', f"branch {k}: result of _tcp_send not bound to err")
        a = send.value.args
        need(len(a) == 4 and not send.value.keywords and [U(x) for x in a[:3]] == ['d', 'msg_type', 'msg_flags'],
             f"branch {k}: _tcp_send arguments changed")
        pre, post = stmts[:i], stmts[i + 1:]
        # pre: device mutations are translated, everything else is pinned
        muts, others = [], []
        for st in pre:
            m = dev_mutation(st, env)
            if m is not None:
                need(not others, f"branch {k}: device mutation after payload computation")
                muts.append(m)
            else:
                others.append(U(st))
        prep[k] = ('(' + ' '.join(f"let p := {x};" for x in muts) + ' p)') if muts else 'p'
        if k == '.resync':
            need(others == [PIN_SNAPSHOT, PIN_JSON_RESYNC] and U(a[3]) == 'msg_json_resync', "branch resync: payload computation changed")
            pay[k] = '⟨snapshot.c, snapshot.h, snapshot.u⟩'
        elif k == '.ping':
            need(others == [] and isinstance(a[3], ast.Constant) and a[3].value == '{}', "branch ping: payload changed")
            pay[k] = 'Msg.empty'
        else:
            need(others == [PIN_FETCH, PIN_STASH, PIN_SEND_SYNC, PIN_JSON_SYNC] and U(a[3]) == 'msg_json_sync',
                 "branch sync: cache/stash/payload computation changed")
            pay[k] = '⟨cache.c ++ p.stashC, cache.h ++ p.stashH, cache.u ++ p.stashU⟩'
        # post: now = self._now(); then device mutations
        need(post and U(post[0]) == 'now = self._now()', f"branch {k}: clock is not re-read right after the send")
        book[k] = block_prog(post[1:], env)
    return flags_of, prep, pay, book


# ---------------------------------------------------------------------------
# device manager
# ---------------------------------------------------------------------------

def locked_body(fn):
    body = strip_doc(fn.body)
    need(len(body) == 1 and isinstance(body[0], ast.With) and U(body[0].items[0].context_expr) == 'self._lock',
         f"devman.{fn.name}: body is not a single `with self._lock:`")
    return body[0].body


def find_prop(cls, name, setter):
    for n in cls.body:
        if isinstance(n, ast.FunctionDef) and n.name == name:
            decs = [U(d) for d in n.decorator_list]
            if setter and decs == [name + '.setter']:
                return n
            if not setter and decs == ['property']:
                return n
    raise TieBroken(f"devman: {'setter' if setter else 'getter'} {name} not found")


def devman(cls):
    out = {}

    def fields_prog(stmts, params):
        names = dict(params)
        rnames = dict(names)
        for k, v in DEV_FIELDS.items():
            rnames['self.' + k] = 'p.' + v
        tr = ExprT(rnames, {'max': _call_max})
        parts = []
        for st in stmts:
            if isinstance(st, ast.If):
                need(not st.orelse, "devman: if with else")
                parts.append(f"(if {tr.tr(st.test)} then {fields_prog(st.body, params)} else p)")
            elif isinstance(st, ast.AugAssign):
                tgt = st.target
                need(isinstance(tgt, ast.Attribute) and U(tgt.value) == 'self' and tgt.attr in DEV_FIELDS
                     and isinstance(st.op, ast.Add), "devman: augmented assignment " + U(st))
                f = DEV_FIELDS[tgt.attr]
                parts.append(f"{{ p with {f} := (p.{f} + {tr.tr(st.value)}) }}")
            elif isinstance(st, (ast.Assign, ast.AnnAssign)):
                tgt = st.target if isinstance(st, ast.AnnAssign) else st.targets[0]
                need(isinstance(tgt, ast.Attribute) and U(tgt.value) == 'self' and tgt.attr in DEV_FIELDS,
                     "devman: assignment to " + U(tgt))
                f = DEV_FIELDS[tgt.attr]
                if isinstance(st.value, ast.List) and not st.value.elts:
                    v = '[]'
                else:
                    v = tr.tr(st.value)
                parts.append(f"{{ p with {f} := {v} }}")
            elif isinstance(st, ast.Expr) and isinstance(st.value, ast.Call) and isinstance(st.value.func, ast.Attribute) \
                    and st.value.func.attr == 'extend':
                tgt = st.value.func.value
                need(isinstance(tgt, ast.Attribute) and U(tgt.value) == 'self' and tgt.attr in DEV_FIELDS
                     and len(st.value.args) == 1 and U(st.value.args[0]) in names, "devman: extend shape: " + U(st))
                f = DEV_FIELDS[tgt.attr]
                parts.append(f"{{ p with {f} := p.{f} ++ {names[U(st.value.args[0])]} }}")
            else:
                raise TieBroken("devman: statement " + U(st)[:80])
        return '(' + ' '.join(f"let p := {x};" for x in parts) + ' p)'

    for prop, lean, ty in (('last_comms', 'setLastComms', 'Int'), ('last_attempt', 'setLastAttempt', 'Int'),
                           ('flag_reset', 'setFlagReset', 'Bool')):
        g = find_prop(cls, prop, False)
        gb = locked_body(g)
        need(len(gb) == 1 and U(gb[0]) == 'return self._' + prop, f"devman: getter {prop} does not return the plain field")
        s = find_prop(cls, prop, True)
        need([a.arg for a in s.args.args] == ['self', prop], f"devman: setter {prop} signature")
        out[lean] = f"def {lean} (p : Peer Rec) (v : {ty}) : Peer Rec := {fields_prog(locked_body(s), {prop: 'v'})}"
    g = find_prop(cls, 'resets', False)
    gb = locked_body(g)
    need(len(gb) == 1 and U(gb[0]) == 'return self._resets', "devman: getter resets does not return the plain counter")
    need(not any(isinstance(n, ast.FunctionDef) and n.name == 'resets' and [U(x) for x in n.decorator_list] == ['resets.setter']
                 for n in cls.body), "devman: resets has a setter")
    fn = find_func(cls, 'contacted')
    need([a.arg for a in fn.args.args] == ['self', 'now', 'resets'], "devman: contacted signature")
    out['contacted'] = ("def contacted (p : Peer Rec) (now : Int) (seen : Nat) : Peer Rec := "
                        + fields_prog(locked_body(fn), {'now': 'now', 'resets': 'seen'}))
    # nothing but __init__ and clear_last writes the counter
    for n in cls.body:
        if isinstance(n, ast.FunctionDef) and n.name not in ('__init__', 'clear_last'):
            for sub in ast.walk(n):
                if isinstance(sub, (ast.Assign, ast.AnnAssign, ast.AugAssign)):
                    tg = sub.targets[0] if isinstance(sub, ast.Assign) else sub.target
                    need(U(tg) != 'self._resets', f"devman: {n.name} writes the reset counter")
    for meth, lean in (('clear_last', 'clearLast'), ('clear_stash', 'clearStash')):
        fn = find_func(cls, meth)
        need([a.arg for a in fn.args.args] == ['self'], f"devman: {meth} signature")
        out[lean] = f"def {lean} (p : Peer Rec) : Peer Rec := {fields_prog(locked_body(fn), {})}"
    fn = find_func(cls, 'append_stash')
    need([a.arg for a in fn.args.args] == ['self', 'completed', 'halted', 'updated'], "devman: append_stash signature")
    out['appendStash'] = ("def appendStash (p : Peer Rec) (completed halted updated : List Rec) : Peer Rec := "
                          + fields_prog(locked_body(fn), {'completed': 'completed', 'halted': 'halted', 'updated': 'updated'}))
    fn = find_func(cls, 'size_stash')
    sb = locked_body(fn)
    need(len(sb) == 1 and isinstance(sb[0], ast.Return), "devman: size_stash shape")

    def call_len(t, e):
        need(len(e.args) == 1 and isinstance(e.args[0], ast.Attribute) and U(e.args[0].value) == 'self'
             and e.args[0].attr in DEV_FIELDS, "devman: len of " + U(e))
        return f"p.{DEV_FIELDS[e.args[0].attr]}.length"
    out['sizeStash'] = "def sizeStash (p : Peer Rec) : Nat := " + ExprT({}, {'len': call_len}).tr(sb[0].value)
    fn = find_func(cls, 'stash')
    sb = locked_body(fn)
    need(len(sb) == 1 and U(sb[0]) == 'return (self._stash_completed, self._stash_halted, self._stash_updated)',
         "devman: stash() does not return (completed, halted, updated)")
    # constructor
    init = find_func(cls, '__init__')
    need([a.arg for a in init.args.args] == ['self', 'device', 'flag_reset'] and not init.args.defaults, "devman: constructor signature")
    vals = {}
    for st in strip_doc(init.body):
        if isinstance(st, (ast.Assign, ast.AnnAssign)):
            tgt = st.target if isinstance(st, ast.AnnAssign) else st.targets[0]
            if isinstance(tgt, ast.Attribute) and U(tgt.value) == 'self' and tgt.attr in DEV_FIELDS:
                need(tgt.attr not in vals, "devman: field initialised twice")
                v = st.value
                if isinstance(v, ast.List) and not v.elts:
                    vals[tgt.attr] = '[]'
                elif U(v) == 'flag_reset':
                    vals[tgt.attr] = 'flag'
                elif isinstance(v, ast.Constant) and isinstance(v.value, int) and not isinstance(v.value, bool):
                    vals[tgt.attr] = str(v.value)
                else:
                    raise TieBroken("devman: constructor value " + U(v))
                continue
            need(isinstance(tgt, ast.Attribute) and U(tgt) in ('self._lock', 'self._device'), "devman: constructor assigns " + U(tgt))
        else:
            need(U(st) == 'super().__init__()', "devman: constructor statement " + U(st)[:60])
    need(set(vals) == set(DEV_FIELDS), "devman: constructor does not initialise all modelled fields")
    order = ['_last_comms', '_last_attempt', '_resets', '_flag_reset', '_stash_completed', '_stash_halted', '_stash_updated']
    out['initPeer'] = "def initPeer (flag : Bool) : Peer Rec := ⟨" + ', '.join(vals[f] for f in order) + "⟩"
    return out


# ---------------------------------------------------------------------------
# incoming reset
# ---------------------------------------------------------------------------

def incoming_reset(fn):
    hits = []
    for n in ast.walk(fn):
        if isinstance(n, ast.If):
            b = strip_logging(n.body)
            if len(b) == 1 and U(b[0]) == 'device.clear_last()':
                hits.append(n)
    need(len(hits) == 1 and not hits[0].orelse, "_tcp_incoming_handle_client: expected exactly one `if …: device.clear_last()`")
    calls = [n for n in ast.walk(fn) if isinstance(n, ast.Call) and isinstance(n.func, ast.Attribute) and n.func.attr == 'clear_last']
    need(len(calls) == 1, "_tcp_incoming_handle_client: clear_last called elsewhere")
    dev = [n for n in ast.walk(fn) if isinstance(n, (ast.Assign, ast.AnnAssign))
           and U(n.target if isinstance(n, ast.AnnAssign) else n.targets[0]) == 'device']
    need(len(dev) == 1 and U(dev[0].value) == 'self._devices[pt_urn]', "_tcp_incoming_handle_client: `device` is not self._devices[pt_urn]")
    return ExprT({'pt_flags': 'flags', '_FLAG_RESET': 'FLAG_RESET'}).tr(hits[0].test)


# ---------------------------------------------------------------------------

def translate(repo):
    src, tree = parse_file(repo, SRC_TCP)
    consts = module_int_consts(tree, list(TYPE_NAMES) + ['_FLAG_RESET'])
    module_str_consts(tree, list(KEYS))
    cls = find_class(tree, 'BoboDistributedTCP')
    init = find_func(cls, '__init__')
    defaults = ctor_periods(init)
    no_other_writes(cls, {'self._' + p for p in PERIOD_PARAMS}, '__init__')
    out_fn = find_func(cls, '_tcp_outgoing')
    sel, cache_decl, send_for = decision_phase(out_fn)
    flags_of, prep, pay, book = send_phase(cache_decl, send_for)
    in_fn = find_func(cls, '_tcp_incoming_handle_client')
    reset_test = incoming_reset(in_fn)
    now_fn = find_func(cls, '_now')

    dsrc, dtree = parse_file(repo, SRC_DEV)
    dcls = find_class(dtree, 'BoboDeviceManager')
    dm = devman(dcls)

    def intlit(v):
        return f"({v})" if v < 0 else str(v)

    def match3(d, indent='  '):
        return '\n'.join(f"{indent}| {k} => {d[k]}" for k in ('.resync', '.ping', '.sync'))

    frag_out = ast.get_source_segment(src, out_fn)
    frag_init = ast.get_source_segment(src, init)
    frag_in = ast.get_source_segment(src, in_fn)
    frag_dev = ast.get_source_segment(dsrc, dcls)
    lean = f"""-- GENERATED by translate/modes.py from {SRC_TCP} and {SRC_DEV} — do not edit.
-- _tcp_outgoing sha256: {sha(frag_out)}
-- BoboDeviceManager sha256: {sha(frag_dev)}
import BoboVerif.Model.Tcp
namespace Bobo.Gen.Modes
open Bobo.Tcp
variable {{Rec : Type}}

def TYPE_SYNC : Nat := {consts['_TYPE_SYNC']}
def TYPE_PING : Nat := {consts['_TYPE_PING']}
def TYPE_RESYNC : Nat := {consts['_TYPE_RESYNC']}
def FLAG_RESET : Nat := {consts['_FLAG_RESET']}

def defaultPeriods : Periods :=
  ⟨{', '.join(intlit(defaults[p]) for p in PERIOD_PARAMS)}⟩

-- BoboDeviceManager
{dm['initPeer']}
{dm['setLastComms']}
{dm['setLastAttempt']}
{dm['setFlagReset']}
{dm['clearLast']}
{dm['contacted']}
{dm['clearStash']}
{dm['appendStash']}
{dm['sizeStash']}

-- _tcp_outgoing, decision phase
def selectMode (cfg : Periods) (c a : Int) (qEmpty : Bool) (stash : Nat) : Option MsgType :=
  {sel}

-- _tcp_outgoing, send phase
def flagsOf (p : Peer Rec) : Nat :=
  {flags_of}

def prep (t : MsgType) (p : Peer Rec) : Peer Rec :=
  match t with
{match3(prep)}

def payload (t : MsgType) (snapshot cache : Msg Rec) (p : Peer Rec) : Msg Rec :=
  match t with
{match3(pay)}

def book (t : MsgType) (flags err : Nat) (now : Int) (seen : Nat) (cache : Msg Rec) (p : Peer Rec) : Peer Rec :=
  match t with
{match3(book)}

-- _tcp_incoming_handle_client, reset handling
def onIncomingFlags (flags : Nat) (p : Peer Rec) : Peer Rec :=
  if {reset_test} then clearLast p else p

end Bobo.Gen.Modes
"""
    need(U(now_fn.body[-1]) == 'return int(time.time())', "_now changed")
    hashes = {
        SRC_TCP + '::module constants': sha(repr(sorted(consts.items()))),
        SRC_TCP + '::BoboDistributedTCP.__init__': sha(frag_init),
        SRC_TCP + '::BoboDistributedTCP._tcp_outgoing': sha(frag_out),
        SRC_TCP + '::BoboDistributedTCP._tcp_incoming_handle_client': sha(frag_in),
        SRC_DEV + '::BoboDeviceManager': sha(frag_dev),
    }
    return {OUT: lean}, hashes
