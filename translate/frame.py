"""
G-tie for C10 / C11: translate the decision logic of the inbound side of
bobocep/dist/tcp.py into Lean (Gen/Frame.lean).

From `BoboDistributedTCP._tcp_incoming_handle_client`:
  * the shape of the receive loop is checked statement by statement
    (clock read, elapse, elapsed test + raise, recv, extend, end-of-message
    test, `finally: client_s.close()`); anything else is refused;
  * `elapsedTest`  — the `if elapse >= self._timeout_receive` expression;
  * `endTest`      — the end-of-message expression, with the variable it
                     reads (`all_bytes` or `bytes_msg`) kept as it is;
  * `sockTimeout`  — whether the accepted socket gets `settimeout(self._timeout_receive)`
                     before the loop and `socket.timeout` from `recv` is turned into
                     BoboDistributedTimeoutError;
  * `steps`        — the statements executed once a frame was recognised, in
                     source order, each matched against a fixed template.
From `BoboDistributedTCP._tcp_incoming`:
  * `handlers`     — the classes named by the `except` clauses around one client.

The translator never guesses: a statement that matches no template raises
TieBroken.
"""
import ast

from .pyexpr import ExprT, TieBroken, find_class, find_func, strip_doc, sha
from .normalize import parse_file, parse as norm_parse

SRC = 'bobocep/dist/tcp.py'
OUT = 'Frame.lean'


def _strip_logging_deep(stmts):
    """drop logging.xxx(...) expression statements at every nesting level (no semantic effect)."""
    out = []
    for st in stmts:
        if isinstance(st, ast.Expr) and isinstance(st.value, ast.Call):
            f = st.value.func
            if isinstance(f, ast.Attribute) and isinstance(f.value, ast.Name) and f.value.id == 'logging':
                continue
        for fld in ('body', 'orelse', 'finalbody'):
            if hasattr(st, fld) and isinstance(getattr(st, fld), list):
                setattr(st, fld, _strip_logging_deep(getattr(st, fld)))
        if isinstance(st, ast.Try):
            for h in st.handlers:
                h.body = _strip_logging_deep(h.body)
        out.append(st)
    return out


def _is_raise_of(st, cls):
    return (isinstance(st, ast.Raise) and isinstance(st.exc, ast.Call)
            and isinstance(st.exc.func, ast.Name) and st.exc.func.id == cls)


def _u(node):
    return ast.unparse(node)


def _module_int(tree, name):
    for n in tree.body:
        if isinstance(n, ast.Assign) and len(n.targets) == 1 and isinstance(n.targets[0], ast.Name) \
                and n.targets[0].id == name and isinstance(n.value, ast.Constant) and isinstance(n.value.value, int):
            return n.value.value
    raise TieBroken(f"module constant {name} not found")


def _end_test(test):
    """len(X) >= self._crypto.min_length() and X[-len(self._crypto.end_bytes()):] == self._crypto.end_bytes()"""
    if not (isinstance(test, ast.BoolOp) and isinstance(test.op, ast.And) and len(test.values) == 2):
        raise TieBroken("end-of-message test is not a two-way `and`: " + _u(test))
    a, b = test.values
    var = {'all_bytes': 'allBytes', 'bytes_msg': 'bytesMsg'}
    if not (isinstance(a, ast.Compare) and len(a.ops) == 1 and isinstance(a.left, ast.Call)
            and _u(a.left.func) == 'len' and len(a.left.args) == 1 and isinstance(a.left.args[0], ast.Name)
            and a.left.args[0].id in var and _u(a.comparators[0]) == 'self._crypto.min_length()'):
        raise TieBroken("end-of-message test, length part: " + _u(a))
    ops = {ast.GtE: '≥', ast.Gt: '>', ast.LtE: '≤', ast.Lt: '<', ast.Eq: '=', ast.NotEq: '≠'}
    op = ops.get(type(a.ops[0]))
    if op is None:
        raise TieBroken("end-of-message test, comparison: " + _u(a))
    x1 = var[a.left.args[0].id]
    if not (isinstance(b, ast.Compare) and len(b.ops) == 1 and isinstance(b.ops[0], ast.Eq)
            and isinstance(b.left, ast.Subscript) and isinstance(b.left.value, ast.Name) and b.left.value.id in var
            and _u(b.left.slice) == '-len(self._crypto.end_bytes()):'
            and _u(b.comparators[0]) == 'self._crypto.end_bytes()'):
        raise TieBroken("end-of-message test, marker part: " + _u(b))
    x2 = var[b.left.value.id]
    return f"decide ({x1}.length {op} cfg.minLen) && (lastN cfg.marker.length {x2} == cfg.marker)"


# statement templates of the block executed once a frame was recognised -> step tags
_T_OPEN = """
try:
    plaintext = self._crypto.decrypt(all_bytes)
except ValueError as e:
    raise BoboDistributedSystemError('Failed to unwrap incoming message (bytes: {})'.format(e))
"""
_T_SPLIT = "(pt_urn, pt_id, pt_type, pt_flags, pt_json) = self._split_plaintext(plaintext)"
_T_URN = """
if pt_urn not in self._devices:
    raise BoboDistributedSystemError("Unknown device URN '{}'.".format(pt_urn))
"""
_T_DEV = "device: BoboDeviceManager = self._devices[pt_urn]"
_T_KEY = """
if pt_id != device.id_key:
    raise BoboDistributedSystemError("Invalid ID key for URN '{}'".format(device.urn))
"""
_T_ADDR = """
if client_addr != device.addr:
    device.addr = client_addr
"""
_T_SYNC = """
if pt_type == _TYPE_SYNC or pt_type == _TYPE_RESYNC:
    incoming = self._incoming_from_json(pt_json)
    if not self._queue_incoming.full():
        self._queue_incoming.put_nowait(incoming)
    else:
        errmsg = 'Incoming queue is full.'
        raise BoboDistributedSystemError(errmsg)
"""
_T_PING = """
if pt_type == _TYPE_PING:
    pass
"""
_T_RESET = """
if pt_flags & _FLAG_RESET == _FLAG_RESET:
    device.clear_last()
"""


def _canon(src):
    return ast.unparse(ast.parse(src.strip()))


def _frame_steps(body):
    """map the statements after the end-of-message test to step tags (source order)."""
    table = [
        (_canon(_T_OPEN), ['.openMsg']),
        (_canon(_T_SPLIT), ['.split']),
        (_canon(_T_KEY), ['.checkKey']),
        (_canon(_T_ADDR), ['.writeAddr']),
        (_canon(_T_SYNC), ['.parsePayload', '.checkQueue', '.writeQueue']),
        (_canon(_T_RESET), ['.writeReset']),
    ]
    t_urn, t_dev = _canon(_T_URN), _canon(_T_DEV)
    t_ping_if = 'if pt_type == _TYPE_PING:'
    steps = []
    if not body or not isinstance(body[-1], ast.Break):
        raise TieBroken("frame block does not end with `break`")
    stmts = body[:-1]
    i = 0
    while i < len(stmts):
        st = stmts[i]
        text = ast.unparse(st)
        if text == t_urn:
            if i + 1 >= len(stmts) or ast.unparse(stmts[i + 1]) != t_dev:
                raise TieBroken("`device = self._devices[pt_urn]` does not directly follow the URN check")
            steps.append('.checkUrn')
            i += 2
            continue
        if isinstance(st, ast.If) and ast.unparse(st.test) == 'pt_type == _TYPE_PING' and all(isinstance(x, ast.Pass) for x in st.body) and not st.orelse:
            i += 1          # only logging inside: no effect
            continue
        for tpl, tags in table:
            if text == tpl:
                steps += tags
                break
        else:
            raise TieBroken("statement of the frame block matches no template: " + text.splitlines()[0][:100])
        i += 1
    for tag in ('.openMsg', '.split', '.checkUrn', '.checkKey', '.writeAddr', '.parsePayload', '.writeReset'):
        if steps.count(tag) > 1:
            raise TieBroken(f"step {tag} occurs more than once")
    return steps


_EXC = {
    'BoboDistributedSystemError': '.systemErr',
    'BoboDistributedTimeoutError': '.timeoutErr',
    'BoboDistributedError': '.distErr',
    'ValueError': '.valueErr',
    'socket.timeout': '.sockTimeout',
    'Exception': '.exception',
    'BaseException': '.baseExc',
}


def _handlers(fn):
    body = strip_doc(fn.body)
    outer = [s for s in body if isinstance(s, ast.Try)]
    if len(outer) != 1:
        raise TieBroken("_tcp_incoming: expected one outer try/finally")
    loop = [s for s in outer[0].body if isinstance(s, ast.While)]
    if len(loop) != 1 or _u(loop[0].test) != 'True' or len(outer[0].body) != 1:
        raise TieBroken("_tcp_incoming: outer try does not contain exactly the `while True` loop")
    inner = [s for s in loop[0].body if isinstance(s, ast.Try)]
    if len(inner) != 1 or loop[0].body[-1] is not inner[0]:
        raise TieBroken("_tcp_incoming: the loop does not end with the per-client try")
    t = inner[0]
    if t.finalbody or t.orelse:
        raise TieBroken("_tcp_incoming: per-client try has else/finally")
    calls = [s for s in t.body if isinstance(s, ast.Expr) and isinstance(s.value, ast.Call)
             and _u(s.value.func) == 'self._tcp_incoming_handle_client']
    if len(calls) != 1 or _u(calls[0].value) != 'self._tcp_incoming_handle_client(client_s, client_addr, client_accepted)':
        raise TieBroken("_tcp_incoming: handler call not found inside the per-client try")
    out = []
    for h in t.handlers:
        for n in ast.walk(ast.Module(body=h.body, type_ignores=[])):
            if isinstance(n, (ast.Raise, ast.Return, ast.Break)):
                raise TieBroken("_tcp_incoming: an except clause leaves the loop")
        if h.type is None:
            raise TieBroken("_tcp_incoming: bare except")
        types = h.type.elts if isinstance(h.type, ast.Tuple) else [h.type]
        for ty in types:
            name = _u(ty)
            if name not in _EXC:
                raise TieBroken("_tcp_incoming: unknown exception class in except clause: " + name)
            out.append(_EXC[name])
    return out


def translate(repo):
    src, tree = parse_file(repo, SRC)
    consts = {n: _module_int(tree, n) for n in ('_TYPE_SYNC', '_TYPE_PING', '_TYPE_RESYNC', '_FLAG_RESET')}
    if consts != {'_TYPE_SYNC': 0, '_TYPE_PING': 1, '_TYPE_RESYNC': 2, '_FLAG_RESET': 1}:
        raise TieBroken(f"message type / flag constants changed: {consts}")
    cls = find_class(tree, 'BoboDistributedTCP')
    fn = find_func(cls, '_tcp_incoming_handle_client')
    frag_handle = ast.get_source_segment(src, fn)
    fn_acc = find_func(cls, '_tcp_incoming')
    frag_acc = ast.get_source_segment(src, fn_acc)
    if [a.arg for a in fn.args.args] != ['self', 'client_s', 'client_addr', 'client_accepted']:
        raise TieBroken("handler signature changed")

    body = _strip_logging_deep(strip_doc(fn.body))
    if len(body) != 1 or not isinstance(body[0], ast.Try) or body[0].handlers or body[0].orelse:
        raise TieBroken("handler body is not a single try/finally")
    tr = body[0]
    if [_u(s) for s in tr.finalbody] != ['client_s.close()']:
        raise TieBroken("handler `finally` is not `client_s.close()`")
    pre = tr.body[:-1]
    loop = tr.body[-1]
    if not (isinstance(loop, ast.While) and _u(loop.test) == 'True' and not loop.orelse):
        raise TieBroken("handler try body does not end with `while True`")
    pre_txt = [_u(s) for s in pre]
    if pre_txt == ['all_bytes = bytearray()']:
        has_settimeout = False
    elif pre_txt == ['all_bytes = bytearray()', 'client_s.settimeout(self._timeout_receive)']:
        has_settimeout = True
    else:
        raise TieBroken("statements before the receive loop: " + ' ; '.join(pre_txt))

    lb = loop.body
    if len(lb) != 6:
        raise TieBroken(f"receive loop has {len(lb)} statements, expected 6")
    s_now, s_el, s_if, s_recv, s_ext, s_end = lb
    if _u(s_now) != 'now = int(time.time())':
        raise TieBroken("loop: first statement is not the clock read: " + _u(s_now))
    if _u(s_el) != 'elapse = now - client_accepted':
        raise TieBroken("loop: elapse: " + _u(s_el))
    if not (isinstance(s_if, ast.If) and not s_if.orelse and len(s_if.body) == 1
            and _is_raise_of(s_if.body[0], 'BoboDistributedTimeoutError')):
        raise TieBroken("loop: third statement is not `if …: raise BoboDistributedTimeoutError`")
    elapsed = ExprT({'elapse': '(now - accepted)', 'self._timeout_receive': 'cfg.timeout'}).tr(s_if.test)
    recv_plain = 'bytes_msg = client_s.recv(self._recv_bytes)'
    if _u(s_recv) == recv_plain:
        recv_catches = False
    elif (isinstance(s_recv, ast.Try) and [_u(s) for s in s_recv.body] == [recv_plain]
          and not s_recv.orelse and not s_recv.finalbody and len(s_recv.handlers) == 1
          and s_recv.handlers[0].type is not None and _u(s_recv.handlers[0].type) == 'socket.timeout'
          and len(s_recv.handlers[0].body) == 1
          and _is_raise_of(s_recv.handlers[0].body[0], 'BoboDistributedTimeoutError')):
        recv_catches = True
    else:
        raise TieBroken("loop: recv statement: " + _u(s_recv).splitlines()[0])
    if has_settimeout != recv_catches:
        raise TieBroken("settimeout on the accepted socket and the socket.timeout handler around recv do not come together")
    if _u(s_ext) != 'all_bytes.extend(bytes_msg)':
        raise TieBroken("loop: extend: " + _u(s_ext))
    if not (isinstance(s_end, ast.If) and not s_end.orelse):
        raise TieBroken("loop: last statement is not the end-of-message `if`")
    end_test = _end_test(s_end.test)
    steps = _frame_steps(s_end.body)
    handlers = _handlers(fn_acc)

    lean = f"""-- GENERATED by translate/frame.py from {SRC} — do not edit.
-- _tcp_incoming_handle_client sha256: {sha(frag_handle)}
-- _tcp_incoming sha256: {sha(frag_acc)}
import BoboVerif.Model.Frame
namespace Bobo.Gen.Frame
open Bobo.Frame
def elapsedTest (cfg : Cfg) (now accepted : Int) : Bool :=
  {elapsed}
def endTest (cfg : Cfg) (allBytes bytesMsg : Bytes) : Bool :=
  {end_test}
def sockTimeout : Bool := {'true' if has_settimeout else 'false'}
def steps : List Step :=
  [{', '.join(steps)}]
def handlers : List Exc :=
  [{', '.join(handlers)}]
end Bobo.Gen.Frame
"""
    return {OUT: lean}, {
        SRC + '::BoboDistributedTCP._tcp_incoming_handle_client': sha(frag_handle),
        SRC + '::BoboDistributedTCP._tcp_incoming': sha(frag_acc),
    }
