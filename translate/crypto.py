"""
G-tie for C17: translate the framing of BoboDistributedCryptoAES
(bobocep/dist/crypto/aes.py) into Lean (Gen/Crypto.lean).

Emitted (each proved equal to its counterpart in Model/Crypto.lean by a
`gen_*_eq` lemma in Props/C17.lean):
  padModulo, endBytes, lenEndBytes, padChar      module constants
  keyRejected n                                  the constructor's key-length test
  minLength ν τ                                  the `_msg_min_length` formula
  drawLen ν τ                                    argument of get_random_bytes
  encMacKw / decMacKw ν τ : Option Nat           the `mac_len=` keyword of AES.new in both directions
                                                 (`none` when the keyword is not passed)
  padCount n                                     condition and count of the padding statement
  layout ct nonce tag                            order of bytearray(...) + the `extend` calls
  sliceCt / sliceNonce / sliceTag ν τ b          the three Python slices of `decrypt`, routed by which
                                                 variable reaches decrypt_and_verify / nonce=

Everything else of `encrypt` / `decrypt` / `__init__` / `min_length` /
`end_bytes` is compared statement by statement with the exact text this
translator understands; any other shape raises TieBroken (never guessed).
"""
import ast

from .pyexpr import ExprT, TieBroken, find_class, find_func, strip_doc, sha
from .normalize import parse_file, parse as norm_parse

SRC = 'bobocep/dist/crypto/aes.py'
OUT = 'Crypto.lean'


def _u(n):
    return ast.unparse(n)


def _expect(node, text, what):
    if _u(node) != text:
        raise TieBroken(f"{what}: expected `{text}`, found `{_u(node)}`")


def _module_consts(tree):
    vals = {}
    for n in tree.body:
        if isinstance(n, ast.AnnAssign) and isinstance(n.target, ast.Name) and n.value is not None:
            vals[n.target.id] = n.value
        elif isinstance(n, ast.Assign) and len(n.targets) == 1 and isinstance(n.targets[0], ast.Name):
            vals[n.targets[0].id] = n.value
    return vals


def _int_const(vals, name, lo=None):
    v = vals.get(name)
    if not (isinstance(v, ast.Constant) and isinstance(v.value, int) and not isinstance(v.value, bool)):
        raise TieBroken(f"{name} is not an int literal")
    if lo is not None and v.value < lo:
        raise TieBroken(f"{name} = {v.value} is below {lo}")
    return v.value


def _new_call(call, what):
    """AES.new(self._aes_key, AES.MODE_GCM, nonce=<name>[, mac_len=<expr>]) -> (nonce var, mac_len expr|None)"""
    if not (isinstance(call, ast.Call) and _u(call.func) == 'AES.new'):
        raise TieBroken(f"{what}: cipher is not created by AES.new")
    if [_u(a) for a in call.args] != ['self._aes_key', 'AES.MODE_GCM']:
        raise TieBroken(f"{what}: positional arguments of AES.new changed: {[_u(a) for a in call.args]}")
    kws = {}
    for k in call.keywords:
        if k.arg is None or k.arg in kws:
            raise TieBroken(f"{what}: **kwargs / repeated keyword in AES.new")
        kws[k.arg] = k.value
    if set(kws) - {'nonce', 'mac_len'} or 'nonce' not in kws:
        raise TieBroken(f"{what}: keywords of AES.new changed: {sorted(kws)}")
    if not isinstance(kws['nonce'], ast.Name):
        raise TieBroken(f"{what}: nonce= is not a local variable")
    return kws['nonce'].id, kws.get('mac_len')


def translate(repo):
    src, tree = parse_file(repo, SRC)
    vals = _module_consts(tree)

    # ---- constants
    if not (isinstance(vals.get('_UTF_8'), ast.Constant) and str(vals['_UTF_8'].value).lower().replace('-', '') == 'utf8'):
        raise TieBroken("_UTF_8 is not the UTF-8 codec")
    pad_modulo = _int_const(vals, '_PAD_MODULO', lo=1)
    eb = vals.get('_END_BYTES')
    if not (isinstance(eb, ast.Call) and isinstance(eb.func, ast.Attribute) and eb.func.attr == 'encode'
            and isinstance(eb.func.value, ast.Constant) and isinstance(eb.func.value.value, str)
            and [_u(a) for a in eb.args] == ['_UTF_8'] and not eb.keywords):
        raise TieBroken("_END_BYTES is not '<literal>'.encode(_UTF_8)")
    end_bytes = list(eb.func.value.value.encode('utf-8'))
    _expect(vals.get('_LEN_END_BYTES'), 'len(_END_BYTES)', '_LEN_END_BYTES')
    pc = vals.get('_PAD_CHAR')
    if not (isinstance(pc, ast.Constant) and isinstance(pc.value, str) and len(pc.value) == 1):
        raise TieBroken("_PAD_CHAR is not a one-character literal")
    pad_char = ord(pc.value)
    if 0xD800 <= pad_char <= 0xDFFF:
        raise TieBroken("_PAD_CHAR is a surrogate")
    key_consts = {n: _int_const(vals, n) for n in ('_BYTES_AES_128', '_BYTES_AES_192', '_BYTES_AES_256')}

    cls = find_class(tree, 'BoboDistributedCryptoAES')
    hashes = {SRC + '::constants': sha('\n'.join(f"{k}={_u(v)}" for k, v in sorted(vals.items())))}

    # ---- __init__: key check, attribute binding, min-length formula
    init = find_func(cls, '__init__')
    hashes[SRC + '::BoboDistributedCryptoAES.__init__'] = sha(ast.get_source_segment(src, init))
    if [a.arg for a in init.args.args] != ['self', 'aes_key', 'nonce_length', 'mac_length']:
        raise TieBroken("__init__: parameters changed")
    b = strip_doc(init.body)
    if len(b) != 8:
        raise TieBroken(f"__init__: expected 8 statements, found {len(b)}")
    _expect(b[0], 'super().__init__()', '__init__[0]')
    _expect(b[1], 'self._lock: RLock = RLock()', '__init__[1]')
    _expect(b[2], 'num_bytes_aes_key = len(aes_key)', '__init__[2]')
    if not (isinstance(b[3], ast.If) and not b[3].orelse and len(b[3].body) == 1 and isinstance(b[3].body[0], ast.Raise)
            and _u(b[3].body[0].exc.func) == 'BoboDistributedCryptoError'):
        raise TieBroken("__init__: key check is not `if …: raise BoboDistributedCryptoError(…)`")
    key_env = {'num_bytes_aes_key': 'n'}
    key_env.update({k: str(v) for k, v in key_consts.items()})
    key_rejected = ExprT(key_env).tr(b[3].test)
    _expect(b[4], 'self._aes_key: bytes = aes_key.encode(_UTF_8)', '__init__[4]')
    _expect(b[5], 'self._nonce_length: int = nonce_length', '__init__[5]')
    _expect(b[6], 'self._mac_length: int = mac_length', '__init__[6]')
    if not (isinstance(b[7], ast.AnnAssign) and _u(b[7].target) == 'self._msg_min_length'):
        raise TieBroken("__init__: last statement does not set self._msg_min_length")
    nat_env = {'_PAD_MODULO': 'padModulo', '_LEN_END_BYTES': 'lenEndBytes',
               'nonce_length': 'ν', 'mac_length': 'τ', 'self._nonce_length': 'ν', 'self._mac_length': 'τ'}
    for n in ast.walk(b[7].value):
        if isinstance(n, ast.BinOp) and not isinstance(n.op, ast.Add):
            raise TieBroken("min-length formula is not a sum")
    min_length = ExprT(nat_env).tr(b[7].value)

    mn = find_func(cls, 'min_length')
    mb = strip_doc(mn.body)
    if len(mb) != 1:
        raise TieBroken("min_length: body changed")
    _expect(mb[0], 'return self._msg_min_length', 'min_length')
    en = find_func(cls, 'end_bytes')
    ebody = strip_doc(en.body)
    if len(ebody) != 1:
        raise TieBroken("end_bytes: body changed")
    _expect(ebody[0], 'return _END_BYTES', 'end_bytes')
    hashes[SRC + '::BoboDistributedCryptoAES.min_length+end_bytes'] = sha(
        ast.get_source_segment(src, mn) + ast.get_source_segment(src, en))

    # ---- encrypt
    enc = find_func(cls, 'encrypt')
    hashes[SRC + '::BoboDistributedCryptoAES.encrypt'] = sha(ast.get_source_segment(src, enc))
    if [a.arg for a in enc.args.args] != ['self', 'msg_str']:
        raise TieBroken("encrypt: parameters changed")
    e = strip_doc(enc.body)
    if len(e) != 10:
        raise TieBroken(f"encrypt: expected 10 statements, found {len(e)}")
    # nonce = get_random_bytes(<expr>)
    if not (isinstance(e[0], ast.Assign) and len(e[0].targets) == 1 and isinstance(e[0].targets[0], ast.Name)
            and isinstance(e[0].value, ast.Call) and _u(e[0].value.func) == 'get_random_bytes'
            and len(e[0].value.args) == 1 and not e[0].value.keywords):
        raise TieBroken("encrypt[0]: nonce is not drawn by get_random_bytes(<length>): " + _u(e[0]))
    nonce_var = e[0].targets[0].id
    draw_len = ExprT(nat_env).tr(e[0].value.args[0])
    # cipher = AES.new(...)
    if not (isinstance(e[1], ast.Assign) and _u(e[1].targets[0]) == 'cipher'):
        raise TieBroken("encrypt[1]: not `cipher = AES.new(…)`")
    nv, enc_mac = _new_call(e[1].value, 'encrypt')
    if nv != nonce_var:
        raise TieBroken(f"encrypt: AES.new gets nonce={nv}, not the drawn `{nonce_var}`")
    enc_mac_kw = 'none' if enc_mac is None else f"some {ExprT(nat_env).tr(enc_mac)}"
    _expect(e[2], 'len_msg = len(msg_str)', 'encrypt[2]')
    # if <cond>: msg_str = msg_str + (_PAD_CHAR * (<count>))
    st = e[3]
    if not (isinstance(st, ast.If) and not st.orelse and len(st.body) == 1 and isinstance(st.body[0], ast.Assign)
            and _u(st.body[0].targets[0]) == 'msg_str'):
        raise TieBroken("encrypt[3]: padding statement changed shape")
    v = st.body[0].value
    if not (isinstance(v, ast.BinOp) and isinstance(v.op, ast.Add) and _u(v.left) == 'msg_str'
            and isinstance(v.right, ast.BinOp) and isinstance(v.right.op, ast.Mult) and _u(v.right.left) == '_PAD_CHAR'):
        raise TieBroken("encrypt[3]: padding is not `msg_str + _PAD_CHAR * (count)`: " + _u(v))
    int_env = {'len_msg': '(n : Int)', '_PAD_MODULO': '(padModulo : Int)'}
    pad_cond = ExprT(int_env).tr(st.test)
    pad_cnt = ExprT(int_env).tr(v.right.right)
    # ciphertext, mac = cipher.encrypt_and_digest(msg_str.encode(_UTF_8))
    st = e[4]
    if not (isinstance(st, ast.Assign) and isinstance(st.targets[0], ast.Tuple) and len(st.targets[0].elts) == 2
            and all(isinstance(x, ast.Name) for x in st.targets[0].elts)):
        raise TieBroken("encrypt[4]: not `ct, mac = …`")
    ct_var, mac_var = (x.id for x in st.targets[0].elts)
    _expect(st.value, 'cipher.encrypt_and_digest(msg_str.encode(_UTF_8))', 'encrypt[4]')
    if len({ct_var, mac_var, nonce_var}) != 3:
        raise TieBroken("encrypt: ciphertext / mac / nonce variables are not distinct")
    # buf = bytearray(X); buf.extend(Y) ×3; return buf
    st = e[5]
    if not (isinstance(st, ast.Assign) and isinstance(st.targets[0], ast.Name) and isinstance(st.value, ast.Call)
            and _u(st.value.func) == 'bytearray' and len(st.value.args) == 1 and not st.value.keywords):
        raise TieBroken("encrypt[5]: not `buf = bytearray(x)`")
    buf = st.targets[0].id
    if buf in (ct_var, mac_var, nonce_var):
        raise TieBroken("encrypt[5]: the buffer shadows a part")
    roles = {ct_var: 'ct', nonce_var: 'nonce', mac_var: 'tag', '_END_BYTES': 'endBytes'}
    parts = [st.value.args[0]]
    for st in e[6:9]:
        if not (isinstance(st, ast.Expr) and isinstance(st.value, ast.Call) and _u(st.value.func) == buf + '.extend'
                and len(st.value.args) == 1 and not st.value.keywords):
            raise TieBroken("encrypt[6..8]: not `buf.extend(x)`: " + _u(st))
        parts.append(st.value.args[0])
    order = []
    for p in parts:
        if not (isinstance(p, ast.Name) and p.id in roles):
            raise TieBroken("encrypt: unknown layout part " + _u(p))
        order.append(roles[p.id])
    _expect(e[9], 'return ' + buf, 'encrypt[9]')
    layout = ' ++ '.join(order)

    # ---- decrypt
    dec = find_func(cls, 'decrypt')
    hashes[SRC + '::BoboDistributedCryptoAES.decrypt'] = sha(ast.get_source_segment(src, dec))
    if [a.arg for a in dec.args.args] != ['self', 'msg_bytes']:
        raise TieBroken("decrypt: parameters changed")
    d = strip_doc(dec.body)
    if len(d) != 6:
        raise TieBroken(f"decrypt: expected 6 statements, found {len(d)}")
    sl_env = {'self._nonce_length': '(ν : Int)', 'self._mac_length': '(τ : Int)', '_LEN_END_BYTES': '(lenEndBytes : Int)'}
    sl = {}
    for st in d[0:3]:
        if not (isinstance(st, ast.Assign) and len(st.targets) == 1 and isinstance(st.targets[0], ast.Name)
                and isinstance(st.value, ast.Subscript) and _u(st.value.value) == 'msg_bytes'
                and isinstance(st.value.slice, ast.Slice) and st.value.slice.step is None):
            raise TieBroken("decrypt[0..2]: not `x = msg_bytes[a:b]`: " + _u(st))
        s = st.value.slice

        def bound(x):
            return 'none' if x is None else f"(some {ExprT(sl_env).tr(x)})"
        if st.targets[0].id in sl:
            raise TieBroken("decrypt: slice variable assigned twice")
        sl[st.targets[0].id] = f"pyslice b {bound(s.lower)} {bound(s.upper)}"
    if not (isinstance(d[3], ast.Assign) and _u(d[3].targets[0]) == 'cipher'):
        raise TieBroken("decrypt[3]: not `cipher = AES.new(…)`")
    dn, dec_mac = _new_call(d[3].value, 'decrypt')
    dec_mac_kw = 'none' if dec_mac is None else f"some {ExprT(nat_env).tr(dec_mac)}"
    st = d[4]
    if not (isinstance(st, ast.Assign) and _u(st.targets[0]) == 'plaintext'):
        raise TieBroken("decrypt[4]: not `plaintext = …`")
    c = st.value
    # cipher.decrypt_and_verify(X, Y).decode(_UTF_8).rstrip(_PAD_CHAR)
    try:
        assert _u(c.func.value.func.value.func) == 'cipher.decrypt_and_verify'
        assert c.func.attr == 'rstrip' and [_u(a) for a in c.args] == ['_PAD_CHAR'] and not c.keywords
        assert c.func.value.func.attr == 'decode' and [_u(a) for a in c.func.value.args] == ['_UTF_8'] and not c.func.value.keywords
        dv = c.func.value.func.value
        assert len(dv.args) == 2 and not dv.keywords and all(isinstance(a, ast.Name) for a in dv.args)
    except (AssertionError, AttributeError):
        raise TieBroken("decrypt[4]: not `cipher.decrypt_and_verify(ct, mac).decode(_UTF_8).rstrip(_PAD_CHAR)`: " + _u(c))
    _expect(d[5], 'return plaintext', 'decrypt[5]')
    used = [dv.args[0].id, dn, dv.args[1].id]
    if sorted(used) != sorted(sl) or len(set(used)) != 3:
        raise TieBroken(f"decrypt: slices {sorted(sl)} do not feed (ciphertext, nonce, mac) = {used} one each")

    lean = f"""-- GENERATED by translate/crypto.py from {SRC} — do not edit.
-- source sha256: {sha(src)}
import BoboVerif.Model.Crypto
namespace Bobo.Gen.Crypto
open Bobo.Crypto (Bytes pyslice)
def padModulo : Nat := {pad_modulo}
def endBytes : Bytes := {end_bytes}
def lenEndBytes : Nat := endBytes.length
def padChar : Char := Char.ofNat {pad_char}
def keyRejected (n : Nat) : Bool := {key_rejected}
def minLength (ν τ : Nat) : Nat := {min_length}
def drawLen (ν τ : Nat) : Nat := {draw_len}
def encMacKw (ν τ : Nat) : Option Nat := {enc_mac_kw}
def decMacKw (ν τ : Nat) : Option Nat := {dec_mac_kw}
def padCount (n : Nat) : Nat := (if {pad_cond} then {pad_cnt} else 0).toNat
def layout (ct nonce tag : Bytes) : Bytes := {layout}
def sliceCt (ν τ : Nat) (b : Bytes) : Bytes := {sl[used[0]]}
def sliceNonce (ν τ : Nat) (b : Bytes) : Bytes := {sl[used[1]]}
def sliceTag (ν τ : Nat) (b : Bytes) : Bytes := {sl[used[2]]}
end Bobo.Gen.Crypto
"""
    return {OUT: lean}, hashes
