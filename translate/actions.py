"""
G-tie for C20: translate into Lean (Gen/Actions.lean)

  * the loop of `BoboActionMultiSequential.execute` (bobocep/cep/action/common/multi.py)
    as a recursive function over the remaining sub-actions, statement by statement
    (`break` = return the current (success, data); falling off the body = next iteration);
  * the `BoboHandlerResponse(...)` record built next to `action.execute(event)` in
    `BoboActionHandlerBlocking._execute_action` and in `_pool_execute_action`
    (bobocep/cep/action/handler.py), and what follows it (put on the queue, or raise);
  * the `BoboEventAction(...)` built by `BoboForwarder._update_responses`
    (bobocep/cep/engine/forwarder/forwarder.py).

Anything outside the listed statement / expression forms is refused (TieBroken).
"""
import ast

from .pyexpr import TieBroken, find_class, find_func, strip_doc, sha
from .normalize import parse_file, parse as norm_parse

SRC_MULTI = 'bobocep/cep/action/common/multi.py'
SRC_HANDLER = 'bobocep/cep/action/handler.py'
SRC_FWD = 'bobocep/cep/engine/forwarder/forwarder.py'
OUT = 'Actions.lean'

CONT = 'multiLoop stop e rest success data'
BREAK = '(success, data)'


def _test(e):
    s = ast.unparse(e)
    table = {'not output[0]': '!output.1', 'output[0]': 'output.1',
             'self._stop_on_fail': 'stop', 'not self._stop_on_fail': '!stop'}
    if s not in table:
        raise TieBroken("multi.execute: loop condition " + repr(s))
    return table[s]


def _loop(stmts, ind):
    """Lean term for the rest of one loop iteration."""
    pad = ' ' * ind
    if not stmts:
        return pad + CONT
    st, rest = stmts[0], stmts[1:]
    if isinstance(st, ast.Break):
        return pad + BREAK
    if isinstance(st, ast.Continue):
        return pad + CONT
    if isinstance(st, ast.If):
        return (f"{pad}if {_test(st.test)} then\n{_loop(list(st.body) + rest, ind + 2)}\n"
                f"{pad}else\n{_loop(list(st.orelse) + rest, ind + 2)}")
    s = ast.unparse(st)
    if isinstance(st, ast.AnnAssign) and s == 'output: Tuple[bool, Any] = action.execute(event)' \
            or isinstance(st, ast.Assign) and s == 'output = action.execute(event)':
        return f"{pad}let output := action e\n{_loop(rest, ind)}"
    if s == 'data.append(output)':
        return f"{pad}let data := data ++ [output]\n{_loop(rest, ind)}"
    if s in ('success = False', 'success = True'):
        return f"{pad}let success := {'false' if s.endswith('False') else 'true'}\n{_loop(rest, ind)}"
    raise TieBroken("multi.execute: loop statement " + repr(s))


def _multi(repo):
    src, tree = parse_file(repo, SRC_MULTI)
    cls = find_class(tree, 'BoboActionMultiSequential')
    init = [ast.unparse(s) for s in strip_doc(find_func(cls, '__init__').body)]
    if 'self._actions: List[BoboAction] = actions' not in init or 'self._stop_on_fail: bool = stop_on_fail' not in init:
        raise TieBroken("BoboActionMultiSequential.__init__: _actions / _stop_on_fail are not the constructor arguments")
    fn = find_func(cls, 'execute')
    body = strip_doc(fn.body)
    if len(body) != 4:
        raise TieBroken(f"multi.execute: expected 4 statements (success, data, for, return), found {len(body)}")
    s0, s1, loop, ret = body
    if ast.unparse(s0) not in ('success = True', 'success = False'):
        raise TieBroken("multi.execute: first statement is not the initialisation of `success`")
    init_success = 'true' if ast.unparse(s0).endswith('True') else 'false'
    if ast.unparse(s1) not in ('data: List[Tuple[bool, Any]] = []', 'data = []'):
        raise TieBroken("multi.execute: second statement is not `data = []`")
    if not isinstance(loop, ast.For) or ast.unparse(loop.target) != 'action' or ast.unparse(loop.iter) != 'self._actions' \
            or loop.orelse:
        raise TieBroken("multi.execute: third statement is not `for action in self._actions:`")
    if ast.unparse(ret) != 'return (success, data)':
        raise TieBroken("multi.execute: return is not `return success, data`: " + ast.unparse(ret))
    lean = f"""def multiLoop {{δ : Type}} (stop : Bool) (e : CEv) :
    List (CEv → Bool × δ) → Bool → List (Bool × δ) → Bool × List (Bool × δ)
  | [], success, data => (success, data)
  | action :: rest, success, data =>
{_loop(list(loop.body), 4)}

def multiExecute {{δ : Type}} (acts : List (CEv → Bool × δ)) (stop : Bool) (e : CEv) : Bool × List (Bool × δ) :=
  multiLoop stop e acts {init_success} []
"""
    return lean, {SRC_MULTI + '::BoboActionMultiSequential.execute': sha(ast.get_source_segment(src, fn))}


RESP_FIELDS = ['action_name', 'complex_event', 'success', 'data']
RESP_LEAN = {'action_name': 'actionName', 'complex_event': 'complexEvent', 'success': 'success', 'data': 'data'}
RESP_EXPR = {'action.name': 'action.name', 'event': 'event', 'action_ret[0]': 'action_ret.1', 'action_ret[1]': 'action_ret.2'}


def _record(call, ctor, fields, lean_names, exprs, where):
    if not (isinstance(call, ast.Call) and ast.unparse(call.func) == ctor and not call.args):
        raise TieBroken(f"{where}: not a keyword-only {ctor}(...) call")
    kws = {k.arg: ast.unparse(k.value) for k in call.keywords}
    if sorted(kws) != sorted(fields) or len(call.keywords) != len(fields):
        raise TieBroken(f"{where}: {ctor} keywords are {sorted(kws)}")
    parts = []
    for f in fields:
        if kws[f] not in exprs:
            raise TieBroken(f"{where}: {ctor}({f}={kws[f]}) is outside the translatable expressions")
        parts.append(f"{lean_names[f]} := {exprs[kws[f]]}")
    return '{ ' + ', '.join(parts) + ' }'


PUT_BLOCKING = "if not self._queue.full():\n    self._queue.put(hres)\nelse:\n    raise BoboActionHandlerError(_EXC_QUEUE_FULL.format(self._max_size))"
PUT_POOL = "if not queue.full():\n    queue.put(hres)\nelse:\n    raise BoboActionHandlerError(_EXC_QUEUE_FULL.format(max_size))"
EXEC_PLAIN = "action_ret: Tuple[bool, Any] = action.execute(event)"
EXEC_TRY = "try:\n    action_ret: Tuple[bool, Any] = action.execute(event)\nexcept (Exception,) as e:\n    raise e"
SUBMIT = "return self._pool.starmap_async(_pool_execute_action, [(self._queue, action, event, self._max_size)])"
SIZE_TEST = "if self._max_size > 0 and self._queue.qsize() >= self._max_size:\n    raise BoboActionHandlerError(_EXC_QUEUE_FULL.format(self._max_size))"


def _handler(repo):
    src, tree = parse_file(repo, SRC_HANDLER)
    frags = {}
    # the response tuple
    nt = find_class(tree, 'BoboHandlerResponse')
    fields = [ast.unparse(s.target) for s in strip_doc(nt.body) if isinstance(s, ast.AnnAssign)]
    if fields != RESP_FIELDS or [ast.unparse(b) for b in nt.bases] != ['NamedTuple']:
        raise TieBroken("BoboHandlerResponse: fields are " + repr(fields))
    # handle() calls _execute_action with the same two arguments, under the lock
    h = find_func(find_class(tree, 'BoboActionHandler'), 'handle')
    if [ast.unparse(s) for s in strip_doc(h.body)] != ["with self._lock:\n    return self._execute_action(action, event)"]:
        raise TieBroken("BoboActionHandler.handle: body changed")
    # blocking
    fb = find_func(find_class(tree, 'BoboActionHandlerBlocking'), '_execute_action')
    b = strip_doc(fb.body)
    if [a.arg for a in fb.args.args] != ['self', 'action', 'event']:
        raise TieBroken("Blocking._execute_action: signature changed")
    if len(b) != 3 or ast.unparse(b[0]) != EXEC_PLAIN or not isinstance(b[1], ast.Assign) \
            or ast.unparse(b[1].targets[0]) != 'hres' or ast.unparse(b[2]) != PUT_BLOCKING:
        raise TieBroken("Blocking._execute_action: expected execute; hres = BoboHandlerResponse(...); put-or-raise")
    rec_b = _record(b[1].value, 'BoboHandlerResponse', RESP_FIELDS, RESP_LEAN, RESP_EXPR, 'Blocking._execute_action')
    frags[SRC_HANDLER + '::BoboActionHandlerBlocking._execute_action'] = sha(ast.get_source_segment(src, fb))
    # pool worker function
    fp = None
    for n in tree.body:
        if isinstance(n, ast.FunctionDef) and n.name == '_pool_execute_action':
            fp = n
    if fp is None:
        raise TieBroken("_pool_execute_action not found")
    if [a.arg for a in fp.args.args] != ['queue', 'action', 'event', 'max_size']:
        raise TieBroken("_pool_execute_action: signature changed")
    p = strip_doc(fp.body)
    if len(p) != 3 or ast.unparse(p[0]) != EXEC_TRY or not isinstance(p[1], ast.Assign) \
            or ast.unparse(p[1].targets[0]) != 'hres' or ast.unparse(p[2]) != PUT_POOL:
        raise TieBroken("_pool_execute_action: expected try-execute; hres = BoboHandlerResponse(...); put-or-raise")
    rec_p = _record(p[1].value, 'BoboHandlerResponse', RESP_FIELDS, RESP_LEAN, RESP_EXPR, '_pool_execute_action')
    frags[SRC_HANDLER + '::_pool_execute_action'] = sha(ast.get_source_segment(src, fp))
    # the two pool handlers submit (queue, action, event, max_size) of *this* call
    for cname in ('BoboActionHandlerMultithreading', 'BoboActionHandlerMultiprocessing'):
        fe = find_func(find_class(tree, cname), '_execute_action')
        got = [ast.unparse(s) for s in strip_doc(fe.body)]
        if got != [SIZE_TEST, SUBMIT]:
            raise TieBroken(f"{cname}._execute_action: body changed: " + repr(got))
        frags[SRC_HANDLER + f'::{cname}._execute_action'] = sha(ast.get_source_segment(src, fe))
    # get_handler_response: FIFO get
    g = find_func(find_class(tree, 'BoboActionHandler'), 'get_handler_response')
    want = ["with self._lock:\n    queue = self._get_queue()\n    if not queue.empty():\n        return queue.get_nowait()\n    return"]
    if [ast.unparse(s) for s in strip_doc(g.body)] != want:
        raise TieBroken("BoboActionHandler.get_handler_response: body changed")
    lean = f"""def respondBlocking {{δ : Type}} (action : Action δ) (event : CEv) : Resp δ :=
  let action_ret := action.exec event
  {rec_b}

def respondPool {{δ : Type}} (action : Action δ) (event : CEv) : Resp δ :=
  let action_ret := action.exec event
  {rec_p}
"""
    return lean, frags


AE_FIELDS = ['event_id', 'timestamp', 'data', 'phenomenon_name', 'pattern_name', 'action_name', 'success']
AE_LEAN = {'event_id': 'eventId', 'timestamp': 'timestamp', 'data': 'data', 'phenomenon_name': 'phenomenon',
           'pattern_name': 'pattern', 'action_name': 'actionName', 'success': 'success'}
AE_EXPR = {'self._gen_event_id.generate()': 'id', 'self._gen_timestamp.generate()': 'ts', 'hres.data': 'hres.data',
           'hres.complex_event.phenomenon_name': 'hres.complexEvent.phenomenon',
           'hres.complex_event.pattern_name': 'hres.complexEvent.pattern',
           'hres.action_name': 'hres.actionName', 'hres.success': 'hres.success'}


def _forwarder(repo):
    src, tree = parse_file(repo, SRC_FWD)
    fn = find_func(find_class(tree, 'BoboForwarder'), '_update_responses')
    b = strip_doc(fn.body)
    if len(b) != 3 or ast.unparse(b[0]) != "hres: Optional[BoboHandlerResponse] = self._handler.get_handler_response()" \
            or not isinstance(b[1], ast.If) or ast.unparse(b[1].test) != 'hres is not None' or b[1].orelse \
            or ast.unparse(b[2]) != 'return False':
        raise TieBroken("_update_responses: expected get_handler_response; if hres is not None: ...; return False")
    inner = b[1].body
    if len(inner) != 3 or not isinstance(inner[0], ast.Assign) or ast.unparse(inner[0].targets[0]) != 'event' \
            or ast.unparse(inner[1]) != "for subscriber in self._subscribers:\n    subscriber.on_forwarder_update(event)" \
            or ast.unparse(inner[2]) != 'return True':
        raise TieBroken("_update_responses: expected event = BoboEventAction(...); notify subscribers; return True")
    rec = _record(inner[0].value, 'BoboEventAction', AE_FIELDS, AE_LEAN, AE_EXPR, '_update_responses')
    lean = f"""def actionEvent {{δ : Type}} (id : String) (ts : Int) (hres : Resp δ) : ActionEvent δ :=
  {rec}
"""
    return lean, {SRC_FWD + '::BoboForwarder._update_responses': sha(ast.get_source_segment(src, fn))}


def translate(repo):
    l1, h1 = _multi(repo)
    l2, h2 = _handler(repo)
    l3, h3 = _forwarder(repo)
    frags = {**h1, **h2, **h3}
    lean = f"""-- GENERATED by translate/actions.py from {SRC_MULTI}, {SRC_HANDLER}, {SRC_FWD} — do not edit.
-- source sha256: {sha(''.join(frags[k] for k in sorted(frags)))}
import BoboVerif.Model.Actions
namespace Bobo.Gen.Actions
open Bobo.Actions
{l1}
{l2}
{l3}end Bobo.Gen.Actions
"""
    return {OUT: lean}, frags
