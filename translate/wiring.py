"""
G-tie for C02: the subscribe graph built by `BoboEngine.__init__`, the
constructor defaults, the task order and loop shape of `BoboEngine.update`, and
the shape of `BoboSetupSimple.generate` (bobocep/setup/simple.py), rendered as
Lean tables (Gen/Wiring.lean).  Props/C02.lean proves them equal to the tables
the model interprets (`wiring_eq`, `schedule_eq`, `loopOf_eq`, `breakNow_eq`,
`defaults_eq`, `setup_simple_eq`).

Accepted shapes (anything else raises TieBroken):

  __init__ : statements drawn from
      super().__init__() | self._lock = RLock() | self._closed = False |
      if times_<x> < 0: raise … | self._<name> = <param> |
      self._<task>.subscribe(<task param>)            (order is kept)
  update   : with self._lock:
                 if self._closed: return False
                 for task, times in [(self._<task>, self._times_<task>), …]:
                     if <test over times>: <loop> else: <loop>
                 return not self._closed
             <loop> = while task.update(): pass
                    | for i in range(times): if <cond over task.update(), self._early_stop>: break
  BoboSetupSimple.generate : assignments of constructor calls, one BoboEngine(...)
      call with exactly receiver/decider/producer/forwarder keywords, no
      subscribe call, the same gen_event_id / gen_timestamp variables given to
      receiver, producer and forwarder, the same phenomena expression given to
      decider, producer and forwarder.
"""
import ast
from .pyexpr import ExprT, TieBroken, find_class, find_func, strip_doc, sha
from .normalize import parse_file, parse as norm_parse

SRC_ENGINE = 'bobocep/cep/engine/engine.py'
SRC_SETUP = 'bobocep/setup/simple.py'
OUT = 'Wiring.lean'

TASKS = ('receiver', 'decider', 'producer', 'forwarder')
TIMES_FIELD = {'receiver': 'tR', 'decider': 'tD', 'producer': 'tP', 'forwarder': 'tF'}


def _u(n):
    return ast.unparse(n)


def _init(fn):
    """returns (wiring pairs, defaults dict)"""
    args = fn.args
    names = [a.arg for a in args.args]
    want = ['self'] + list(TASKS) + ['times_' + t for t in TASKS] + ['early_stop']
    if names != want or args.vararg or args.kwarg or args.kwonlyargs:
        raise TieBroken(f"BoboEngine.__init__: parameters changed: {names}")
    defaults = {}
    for a, d in zip(args.args[-len(args.defaults):], args.defaults):
        if not isinstance(d, ast.Constant) or not isinstance(d.value, (int, bool)):
            raise TieBroken("BoboEngine.__init__: non-constant default for " + a.arg)
        defaults[a.arg] = d.value
    if sorted(defaults) != sorted(['times_' + t for t in TASKS] + ['early_stop']):
        raise TieBroken(f"BoboEngine.__init__: defaults changed: {sorted(defaults)}")
    for t in TASKS:
        v = defaults['times_' + t]
        if isinstance(v, bool) or v < 0:
            raise TieBroken("BoboEngine.__init__: default of times_" + t)
    if not isinstance(defaults['early_stop'], bool):
        raise TieBroken("BoboEngine.__init__: default of early_stop")
    attr_of = {}      # self._x -> parameter it was assigned from
    pairs = []
    for st in strip_doc(fn.body):
        src = _u(st)
        if src in ('super().__init__()',):
            continue
        if isinstance(st, (ast.Assign, ast.AnnAssign)):
            tgt = st.target if isinstance(st, ast.AnnAssign) else (st.targets[0] if len(st.targets) == 1 else None)
            if tgt is None or not (isinstance(tgt, ast.Attribute) and isinstance(tgt.value, ast.Name) and tgt.value.id == 'self'):
                raise TieBroken("BoboEngine.__init__: assignment " + src)
            val = st.value
            if isinstance(val, ast.Name) and val.id in names:
                if pairs:
                    raise TieBroken("BoboEngine.__init__: attribute assigned after a subscribe call: " + src)
                attr_of[tgt.attr] = val.id
                continue
            if tgt.attr == '_lock' and _u(val) == 'RLock()':
                continue
            if tgt.attr == '_closed' and _u(val) == 'False':
                continue
            raise TieBroken("BoboEngine.__init__: assignment " + src)
        if isinstance(st, ast.If):
            # if times_x < 0: raise BoboEngineError(...)
            ok = (isinstance(st.test, ast.Compare) and len(st.test.ops) == 1 and isinstance(st.test.ops[0], ast.Lt)
                  and isinstance(st.test.left, ast.Name) and st.test.left.id.startswith('times_')
                  and _u(st.test.comparators[0]) == '0' and len(st.body) == 1 and isinstance(st.body[0], ast.Raise)
                  and not st.orelse)
            if not ok:
                raise TieBroken("BoboEngine.__init__: conditional " + src.splitlines()[0])
            continue
        if isinstance(st, ast.Expr) and isinstance(st.value, ast.Call):
            c = st.value
            f = c.func
            if (isinstance(f, ast.Attribute) and f.attr == 'subscribe' and isinstance(f.value, ast.Attribute)
                    and isinstance(f.value.value, ast.Name) and f.value.value.id == 'self'
                    and len(c.args) == 1 and not c.keywords):
                pub_attr = f.value.attr
                if pub_attr not in attr_of or attr_of[pub_attr] not in TASKS or pub_attr != '_' + attr_of[pub_attr]:
                    raise TieBroken("BoboEngine.__init__: publisher of " + src)
                a = c.args[0]
                if isinstance(a, ast.Name) and a.id in TASKS:
                    sub = a.id
                elif (isinstance(a, ast.Attribute) and isinstance(a.value, ast.Name) and a.value.id == 'self'
                      and attr_of.get(a.attr) in TASKS):
                    sub = attr_of[a.attr]
                else:
                    raise TieBroken("BoboEngine.__init__: subscriber of " + src)
                pairs.append((attr_of[pub_attr], sub))
                continue
        raise TieBroken("BoboEngine.__init__: statement " + src.splitlines()[0])
    for t in TASKS:
        if attr_of.get('_' + t) != t or attr_of.get('_times_' + t) != 'times_' + t:
            raise TieBroken("BoboEngine.__init__: self._%s / self._times_%s not assigned from the parameter" % (t, t))
    if attr_of.get('_early_stop') != 'early_stop':
        raise TieBroken("BoboEngine.__init__: self._early_stop")
    if len(set(pairs)) != len(pairs):
        raise TieBroken("BoboEngine.__init__: duplicate subscribe (a no-op in the code; refuse rather than guess)")
    return pairs, defaults


def _loop(st_list):
    """one branch of `if times == 0` -> Lean Loop term, plus the break condition if it is the for form"""
    if len(st_list) != 1:
        raise TieBroken("BoboEngine.update: loop branch has %d statements" % len(st_list))
    st = st_list[0]
    if isinstance(st, ast.While):
        if _u(st.test) != 'task.update()' or st.orelse or len(st.body) != 1 or not isinstance(st.body[0], ast.Pass):
            raise TieBroken("BoboEngine.update: while loop is not `while task.update(): pass`")
        return 'Loop.whileUpdate', None
    if isinstance(st, ast.For):
        if not (isinstance(st.iter, ast.Call) and _u(st.iter.func) == 'range' and len(st.iter.args) == 1 and not st.orelse):
            raise TieBroken("BoboEngine.update: for loop is not over range(<n>)")
        n = ExprT({'times': 'times'}).tr(st.iter.args[0])
        if len(st.body) != 1 or not isinstance(st.body[0], ast.If):
            raise TieBroken("BoboEngine.update: for body is not a single if")
        iff = st.body[0]
        if iff.orelse or len(iff.body) != 1 or not isinstance(iff.body[0], ast.Break):
            raise TieBroken("BoboEngine.update: for body is not `if …: break`")
        calls = {'task.update': lambda self, e: _only_plain_call(e, 'ret')}
        cond = ExprT({'self._early_stop': 'early'}, calls).tr(iff.test)
        if _u(iff.test).count('task.update()') != 1:
            raise TieBroken("BoboEngine.update: task.update() must be called exactly once per iteration")
        return f'Loop.forRange {n}', cond
    raise TieBroken("BoboEngine.update: loop branch is neither while nor for")


def _only_plain_call(e, term):
    if e.args or e.keywords:
        raise TieBroken("task.update() called with arguments")
    return term


def _update(fn):
    body = strip_doc(fn.body)
    if len(body) != 1 or not isinstance(body[0], ast.With) or _u(body[0].items[0].context_expr) != 'self._lock':
        raise TieBroken("BoboEngine.update: body is not a single `with self._lock:` block")
    st = body[0].body
    if len(st) != 3:
        raise TieBroken("BoboEngine.update: expected 3 statements under the lock, found %d" % len(st))
    if _u(st[0]) != 'if self._closed:\n    return False':
        raise TieBroken("BoboEngine.update: first statement is not the closed check")
    if _u(st[2]) != 'return not self._closed':
        raise TieBroken("BoboEngine.update: last statement is not `return not self._closed`")
    loop = st[1]
    if not (isinstance(loop, ast.For) and _u(loop.target) == '(task, times)' and isinstance(loop.iter, ast.List) and not loop.orelse):
        raise TieBroken("BoboEngine.update: task loop is not `for task, times in [...]`")
    sched = []
    for el in loop.iter.elts:
        if not (isinstance(el, ast.Tuple) and len(el.elts) == 2):
            raise TieBroken("BoboEngine.update: schedule element " + _u(el))
        a, b = _u(el.elts[0]), _u(el.elts[1])
        if not (a.startswith('self._') and a[6:] in TASKS and b.startswith('self._times_') and b[12:] in TASKS):
            raise TieBroken("BoboEngine.update: schedule element " + _u(el))
        sched.append((a[6:], b[12:]))
    if len(loop.body) != 1 or not isinstance(loop.body[0], ast.If):
        raise TieBroken("BoboEngine.update: task loop body is not a single if/else")
    iff = loop.body[0]
    test = ExprT({'times': 'times'}).tr(iff.test)
    l1, c1 = _loop(iff.body)
    l2, c2 = _loop(iff.orelse)
    conds = [c for c in (c1, c2) if c is not None]
    if len(conds) != 1:
        raise TieBroken("BoboEngine.update: expected exactly one `for … break` branch")
    return sched, test, l1, l2, conds[0]


def _setup(fn):
    """shape of BoboSetupSimple.generate -> (noExtraSubs, sharedGens, samePhenomena, engine keywords)"""
    made = {}
    engine_kw = None
    for st in strip_doc(fn.body):
        src = _u(st)
        if '.subscribe(' in src:
            raise TieBroken("BoboSetupSimple.generate: subscribe call: " + src.splitlines()[0])
        if isinstance(st, ast.Assign) and len(st.targets) == 1 and isinstance(st.targets[0], ast.Name) \
                and isinstance(st.value, ast.Call) and isinstance(st.value.func, ast.Name):
            c = st.value
            if c.args and c.func.id not in ('BoboGenEventIDUnique',):
                raise TieBroken("BoboSetupSimple.generate: positional arguments in " + src.splitlines()[0])
            made[st.targets[0].id] = (c.func.id, {k.arg: _u(k.value) for k in c.keywords})
            if c.func.id == 'BoboEngine':
                engine_kw = {k.arg: _u(k.value) for k in c.keywords}
            continue
        if isinstance(st, ast.Return) and isinstance(st.value, ast.Name) and made.get(st.value.id, ('',))[0] == 'BoboEngine':
            continue
        raise TieBroken("BoboSetupSimple.generate: statement " + src.splitlines()[0])
    if engine_kw is None:
        raise TieBroken("BoboSetupSimple.generate: no BoboEngine(...) call")
    if sorted(engine_kw) != sorted(TASKS):
        raise TieBroken(f"BoboSetupSimple.generate: BoboEngine keywords {sorted(engine_kw)} (times_* / early_stop overridden?)")
    cls = {'receiver': 'BoboReceiver', 'decider': 'BoboDecider', 'producer': 'BoboProducer', 'forwarder': 'BoboForwarder'}
    kw = {}
    for t in TASKS:
        var = engine_kw[t]
        if var not in made or made[var][0] != cls[t]:
            raise TieBroken(f"BoboSetupSimple.generate: {t}= is not a {cls[t]} built in generate()")
        kw[t] = made[var][1]
        if 'max_size' in kw[t]:
            raise TieBroken("BoboSetupSimple.generate: max_size given (the model assumes unbounded queues)")
    ids = {kw[t].get('gen_event_id') for t in ('receiver', 'producer', 'forwarder')}
    tss = {kw[t].get('gen_timestamp') for t in ('receiver', 'producer', 'forwarder')}
    shared = (len(ids) == 1 and None not in ids and len(tss) == 1 and None not in tss
              and made.get(next(iter(ids)), ('',))[0].startswith('BoboGenEventID')
              and made.get(next(iter(tss)), ('',))[0].startswith('BoboGenTimestamp'))
    phs = {kw[t].get('phenomena') for t in ('decider', 'producer', 'forwarder')}
    same = len(phs) == 1 and None not in phs
    if 'local_only' in kw['forwarder']:
        raise TieBroken("BoboSetupSimple.generate: local_only given")
    return shared, same


def translate(repo):
    src_e, tree = parse_file(repo, SRC_ENGINE)
    cls = find_class(tree, 'BoboEngine')
    f_init = find_func(cls, '__init__')
    f_upd = find_func(cls, 'update')
    pairs, defaults = _init(f_init)
    sched, test, l1, l2, cond = _update(f_upd)

    src_s, tree_s = parse_file(repo, SRC_SETUP)
    f_gen = find_func(find_class(tree_s, 'BoboSetupSimple'), 'generate')
    shared, same = _setup(f_gen)

    frag_init = ast.get_source_segment(src_e, f_init)
    frag_upd = ast.get_source_segment(src_e, f_upd)
    frag_gen = ast.get_source_segment(src_s, f_gen)

    w = ', '.join(f'(.{a}, .{b})' for a, b in pairs)
    s = ', '.join(f'(.{a}, c.{TIMES_FIELD[b]})' for a, b in sched)
    b = lambda v: 'true' if v else 'false'
    lean = f"""-- GENERATED by translate/wiring.py from {SRC_ENGINE} and {SRC_SETUP} — do not edit.
-- source sha256: __init__ {sha(frag_init)}
--                update   {sha(frag_upd)}
--                BoboSetupSimple.generate {sha(frag_gen)}
import BoboVerif.Model.Engine
namespace Bobo.Gen.Wiring
open Bobo.Engine
/-- `subscribe` calls of BoboEngine.__init__, in order: (publisher, subscriber). -/
def wiring : Wiring := [{w}]
/-- constructor defaults. -/
def defaults : Cfg := {{ tR := {defaults['times_receiver']}, tD := {defaults['times_decider']}, tP := {defaults['times_producer']}, tF := {defaults['times_forwarder']}, earlyStop := {b(defaults['early_stop'])} }}
/-- the list BoboEngine.update iterates over. -/
def schedule (c : Cfg) : List (Task × Nat) := [{s}]
/-- the if/else that selects the loop form. -/
def loopOf (times : Nat) : Loop := if {test} then {l1} else {l2}
/-- the `break` condition of the for form (`ret` = what task.update() returned). -/
def breakNow (ret early : Bool) : Bool := {cond}
/-- BoboSetupSimple.generate: engine built with the defaults, no extra subscribe, shared generators, one phenomena list. -/
def setupSimple : SetupShape := {{ cfg := defaults, extraSubs := [], sharedGens := {b(shared)}, samePhenomena := {b(same)} }}
end Bobo.Gen.Wiring
"""
    return {OUT: lean}, {
        SRC_ENGINE + '::BoboEngine.__init__': sha(frag_init),
        SRC_ENGINE + '::BoboEngine.update': sha(frag_upd),
        SRC_SETUP + '::BoboSetupSimple.generate': sha(frag_gen),
    }
