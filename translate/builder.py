"""
G-tie for C19: BoboPatternBuilder (bobocep/cep/phenom/pattern/builder.py),
the decision part of BoboPredicateCallType.evaluate (predicate.py) and the
`cast` methods of the three event kinds, rendered into Gen/Builder.lean.

Accepted shapes (anything else raises TieBroken — the translator never guesses):

  block-adding method  m(self, predicate|predicates, group='', times=1[, loop=False][, optional=False]):
      <wrapping preamble>
      for _ in range(<int expr over times>):
          self._blocks.append(BoboPatternBlock(predicates=[predicate]|predicates, group=group,
                                               strict=<b>, loop=<b>, negated=<b>, optional=<b>))
      return self
  where <b> is a Bool expression over the method's own `loop`/`optional` parameters and constants, and
  the preamble is
      if isinstance(predicate, Callable): predicate = BoboPredicateCall(call=predicate)
  or  for i in range(len(predicates)):
          if isinstance(predicates[i], Callable): predicates[i] = BoboPredicateCall(call=predicates[i])

  precondition / haltcondition (self, predicate): preamble; self._<list>.append(predicate); return self
  generate: return BoboPattern(name=self._name, ...five keyword arguments...)
  __init__: if len(name) == 0: raise BoboPatternBuilderError(..); five plain field initialisations

  evaluate: a straight-line/if/try program over ok_type, event; symbolic execution gives a decision tree
  cast:     return <SameClass>(k=self._k for every constructor parameter, data=dtype(self._data))
"""
import ast
from .pyexpr import ExprT, TieBroken, find_class, find_func, strip_doc, sha
from .normalize import parse_file, parse as norm_parse

SRC = 'bobocep/cep/phenom/pattern/builder.py'
SRC_PRED = 'bobocep/cep/phenom/pattern/predicate.py'
SRC_EV = {'BoboEventSimple': 'bobocep/cep/event/simple.py',
          'BoboEventComplex': 'bobocep/cep/event/complex.py',
          'BoboEventAction': 'bobocep/cep/event/action.py'}
OUT = 'Builder.lean'

BLOCK_METHODS = [('next', 'next', 'predicate'), ('not_next', 'notNext', 'predicate'),
                 ('followed_by', 'followedBy', 'predicate'), ('not_followed_by', 'notFollowedBy', 'predicate'),
                 ('followed_by_any', 'followedByAny', 'predicates'),
                 ('not_followed_by_any', 'notFollowedByAny', 'predicates')]
COND_METHODS = [('precondition', 'precondition', 'self._preconditions', 'pre'),
                ('haltcondition', 'haltcondition', 'self._haltconditions', 'halt')]
DEFAULTS = {'group': "''", 'times': '1', 'loop': 'False', 'optional': 'False'}

WRAP_ONE = "if isinstance(predicate, Callable):\n    predicate = BoboPredicateCall(call=predicate)"
WRAP_LIST = ("for i in range(len(predicates)):\n    if isinstance(predicates[i], Callable):\n"
             "        predicates[i] = BoboPredicateCall(call=predicates[i])")


def _params(fn, first):
    a = fn.args
    if a.vararg or a.kwarg or a.kwonlyargs or a.posonlyargs:
        raise TieBroken(fn.name + ': parameter kinds changed')
    names = [x.arg for x in a.args]
    if names[:2] != ['self', first]:
        raise TieBroken(f'{fn.name}: first parameters are {names[:2]}')
    opts = names[2:]
    defs = [ast.unparse(d) for d in a.defaults]
    if len(defs) != len(opts):
        raise TieBroken(fn.name + ': an option without default (or a default on the predicate)')
    for n, d in zip(opts, defs):
        if n not in DEFAULTS:
            raise TieBroken(f'{fn.name}: unknown option {n}')
        if d != DEFAULTS[n]:
            raise TieBroken(f'{fn.name}: default of {n} is {d}, documented {DEFAULTS[n]}')
    if opts[:2] != ['group', 'times']:
        raise TieBroken(f'{fn.name}: options are {opts}')
    return opts


def _max_call(tr, e):
    if len(e.args) != 2 or e.keywords:
        raise TieBroken('max arity')
    return f"(max {tr.tr(e.args[0])} {tr.tr(e.args[1])})"


def _block_method(fn, first):
    opts = _params(fn, first)
    body = strip_doc(fn.body)
    if len(body) != 3:
        raise TieBroken(f'{fn.name}: expected preamble, loop, return; found {len(body)} statements')
    pre, loop, ret = body
    want = WRAP_ONE if first == 'predicate' else WRAP_LIST
    if ast.unparse(pre) != want:
        raise TieBroken(f'{fn.name}: callable-wrapping preamble changed: {ast.unparse(pre)[:80]!r}')
    if ast.unparse(ret) != 'return self':
        raise TieBroken(f'{fn.name}: does not end with `return self`')
    if not (isinstance(loop, ast.For) and not loop.orelse and isinstance(loop.target, ast.Name)
            and isinstance(loop.iter, ast.Call) and ast.unparse(loop.iter.func) == 'range'
            and len(loop.iter.args) == 1 and not loop.iter.keywords and len(loop.body) == 1):
        raise TieBroken(f'{fn.name}: repetition loop shape changed')
    ntr = ExprT({'times': 'times'}, calls={'max': _max_call})
    count = ntr.tr(loop.iter.args[0])
    st = loop.body[0]
    if not (isinstance(st, ast.Expr) and isinstance(st.value, ast.Call)
            and ast.unparse(st.value.func) == 'self._blocks.append' and len(st.value.args) == 1
            and not st.value.keywords):
        raise TieBroken(f'{fn.name}: loop body is not self._blocks.append(...)')
    ctor = st.value.args[0]
    if not (isinstance(ctor, ast.Call) and ast.unparse(ctor.func) == 'BoboPatternBlock' and not ctor.args):
        raise TieBroken(f'{fn.name}: appended value is not BoboPatternBlock(<keywords>)')
    kws = {k.arg: k.value for k in ctor.keywords}
    if sorted(kws) != ['group', 'loop', 'negated', 'optional', 'predicates', 'strict'] or len(ctor.keywords) != 6:
        raise TieBroken(f'{fn.name}: BoboPatternBlock keywords are {sorted(kws)}')
    if ast.unparse(kws['group']) != 'group':
        raise TieBroken(f'{fn.name}: group is not passed through')
    p = ast.unparse(kws['predicates'])
    if first == 'predicate' and p == '[predicate]':
        uses_list = False
    elif first == 'predicates' and p == 'predicates':
        uses_list = True
    else:
        raise TieBroken(f'{fn.name}: predicates={p}')
    names = {o: o for o in opts if o in ('loop', 'optional')}
    ftr = ExprT(names)
    flags = [ftr.tr(kws[k]) for k in ('strict', 'loop', 'negated', 'optional')]
    return flags, count, uses_list


def _cond_method(fn, target):
    a = fn.args
    if [x.arg for x in a.args] != ['self', 'predicate'] or a.defaults or a.vararg or a.kwarg or a.kwonlyargs:
        raise TieBroken(fn.name + ': parameters changed')
    body = strip_doc(fn.body)
    if len(body) != 3 or ast.unparse(body[0]) != WRAP_ONE or ast.unparse(body[2]) != 'return self':
        raise TieBroken(fn.name + ': shape changed')
    if ast.unparse(body[1]) != f'{target}.append(predicate)':
        raise TieBroken(f'{fn.name}: does not append to {target}: {ast.unparse(body[1])}')


def _generate(fn):
    body = strip_doc(fn.body)
    if len(body) != 1 or not isinstance(body[0], ast.Return) or not isinstance(body[0].value, ast.Call):
        raise TieBroken('generate: not a single return of a call')
    c = body[0].value
    if ast.unparse(c.func) != 'BoboPattern' or c.args:
        raise TieBroken('generate: does not call BoboPattern(<keywords>)')
    out = []
    for k in c.keywords:
        v = ast.unparse(k.value)
        if k.arg is None or not v.startswith('self.'):
            raise TieBroken('generate: argument ' + ast.unparse(k))
        out.append((k.arg, v[len('self.'):]))
    return out


def _init(fn):
    if [x.arg for x in fn.args.args] != ['self', 'name', 'singleton'] or [ast.unparse(d) for d in fn.args.defaults] != ['False']:
        raise TieBroken('BoboPatternBuilder.__init__: parameters changed')
    body = strip_doc(fn.body)
    if not body or ast.unparse(body[0]) != 'if len(name) == 0:\n    raise BoboPatternBuilderError(_EXC_NAME_LEN)':
        raise TieBroken('BoboPatternBuilder.__init__: name check changed')
    got = {}
    for st in body[1:]:
        if not isinstance(st, (ast.Assign, ast.AnnAssign)):
            raise TieBroken('BoboPatternBuilder.__init__: statement ' + ast.unparse(st)[:60])
        tgt = st.target if isinstance(st, ast.AnnAssign) else st.targets[0]
        got[ast.unparse(tgt)] = ast.unparse(st.value)
    exp = {'self._name': 'name', 'self._singleton': 'singleton', 'self._blocks': '[]',
           'self._preconditions': '[]', 'self._haltconditions': '[]'}
    if got != exp:
        raise TieBroken('BoboPatternBuilder.__init__: field initialisation changed: ' + repr(got))


# ---- BoboPredicateCallType.evaluate: symbolic execution to a decision tree -----------------

def _cond(e, env):
    if isinstance(e, ast.UnaryOp) and isinstance(e.op, ast.Not):
        return '(!' + _cond(e.operand, env) + ')'
    if isinstance(e, ast.BoolOp):
        op = ' && ' if isinstance(e.op, ast.And) else ' || '
        return '(' + op.join(_cond(v, env) for v in e.values) + ')'
    if isinstance(e, ast.Constant) and isinstance(e.value, bool):
        return 'true' if e.value else 'false'
    s = ast.unparse(e)
    if s == 'ok_type':
        if 'ok_type' not in env:
            raise TieBroken('evaluate: ok_type read before assignment')
        return env['ok_type']
    if s == 'self._subtype':
        return 'subtype'
    if s == 'self._cast':
        return 'doCast'
    if s in ('isinstance(event.data, self._dtype)', 'type(event.data) == self._dtype', 'type(event.data) is self._dtype'):
        if env['event'] != 'orig':
            raise TieBroken('evaluate: type test after the cast')
        return 'inst' if s.startswith('isinstance') else 'exact'
    raise TieBroken('evaluate: condition ' + s)


def _exec(stmts, env, depth=0):
    if depth > 40:
        raise TieBroken('evaluate: too deep')
    if not stmts:
        raise TieBroken('evaluate: a path ends without return')
    st, rest = stmts[0], stmts[1:]
    if isinstance(st, (ast.Assign, ast.AnnAssign)):
        tgt = st.target if isinstance(st, ast.AnnAssign) else st.targets[0]
        if ast.unparse(tgt) != 'ok_type':
            raise TieBroken('evaluate: assignment to ' + ast.unparse(tgt))
        env2 = dict(env)
        env2['ok_type'] = _cond(st.value, env)
        return _exec(rest, env2, depth + 1)
    if isinstance(st, ast.If):
        c = _cond(st.test, env)
        a = _exec(list(st.body) + rest, env, depth + 1)
        b = _exec(list(st.orelse) + rest, env, depth + 1)
        return f"(if {c} then {a} else {b})"
    if isinstance(st, ast.Try):
        if st.orelse or st.finalbody or len(st.handlers) != 1 or len(st.body) != 1:
            raise TieBroken('evaluate: try shape')
        if ast.unparse(st.body[0]) != 'event = event.cast(self._dtype)' or env['event'] != 'orig':
            raise TieBroken('evaluate: try body is not `event = event.cast(self._dtype)`: ' + ast.unparse(st.body[0]))
        h = st.handlers[0]
        if h.type is None or ast.unparse(h.type) not in ('(TypeError, ValueError)', '(ValueError, TypeError)') or h.name:
            raise TieBroken('evaluate: except clause changed')
        fail = _exec(list(h.body), env, depth + 1)
        env2 = dict(env)
        env2['event'] = 'cast'
        ok = _exec(rest, env2, depth + 1)
        return f"(if castOk then {ok} else {fail})"
    if isinstance(st, ast.Return):
        s = ast.unparse(st.value) if st.value is not None else 'None'
        if s == 'False':
            return '.retFalse'
        if s == 'self._call(event, history)':
            return '.callOrig' if env['event'] == 'orig' else '.callCast'
        raise TieBroken('evaluate: return ' + s)
    raise TieBroken('evaluate: statement ' + ast.unparse(st)[:60])


def _cast_method(cls, name):
    init = find_func(cls, '__init__')
    params = [a.arg for a in init.args.args[1:]]
    fn = find_func(cls, 'cast')
    if [a.arg for a in fn.args.args] != ['self', 'dtype']:
        raise TieBroken(f'{name}.cast: parameters changed')
    body = strip_doc(fn.body)
    if len(body) != 1 or not isinstance(body[0], ast.Return) or not isinstance(body[0].value, ast.Call):
        raise TieBroken(f'{name}.cast: body is not a single `return {name}(...)` (a cast must build a NEW event)')
    c = body[0].value
    if ast.unparse(c.func) != name or c.args:
        raise TieBroken(f'{name}.cast: does not construct {name}(<keywords>)')
    kws = {k.arg: ast.unparse(k.value) for k in c.keywords}
    if sorted(kws) != sorted(params) or len(c.keywords) != len(params):
        raise TieBroken(f'{name}.cast: keywords {sorted(kws)} are not the constructor parameters {sorted(params)}')
    for k, v in kws.items():
        want = 'dtype(self._data)' if k == 'data' else f'self._{k}'
        if v != want:
            raise TieBroken(f'{name}.cast: {k}={v} (expected {want})')
    # the constructor must store each parameter in the same-named private field (so `self._k` is the original value)
    stored = {}
    for st in ast.walk(init):
        if isinstance(st, (ast.Assign, ast.AnnAssign)):
            tgt = st.target if isinstance(st, ast.AnnAssign) else st.targets[0]
            stored[ast.unparse(tgt)] = ast.unparse(st.value)
    sup = [ast.unparse(s) for s in ast.walk(init) if isinstance(s, ast.Call) and ast.unparse(s.func) == 'super().__init__']
    for k in params:
        if stored.get(f'self._{k}') != k and not any(f'{k}={k}' in s for s in sup):
            raise TieBroken(f'{name}.__init__: parameter {k} is not stored as self._{k}')
    return params


def translate(repo):
    src, tree = parse_file(repo, SRC)
    cls = find_class(tree, 'BoboPatternBuilder')
    hashes = {}

    def frag(fname):
        fn = find_func(cls, fname)
        hashes[f'{SRC}::BoboPatternBuilder.{fname}'] = sha(ast.get_source_segment(src, fn))
        return fn

    _init(frag('__init__'))
    gen_args = _generate(frag('generate'))
    flag_rows, count_rows, list_rows = [], [], []
    for py, lean, first in BLOCK_METHODS:
        flags, count, uses_list = _block_method(frag(py), first)
        flag_rows.append(f"  | .{lean} => ⟨{', '.join(flags)}⟩")
        count_rows.append(f"  | .{lean} => ({count}).toNat")
        list_rows.append(f"  | .{lean} => {'true' if uses_list else 'false'}")
    kind_rows = [f"  | .{lean} => .block" for _, lean, _ in BLOCK_METHODS]
    for py, lean, target, kind in COND_METHODS:
        _cond_method(frag(py), target)
        kind_rows.append(f"  | .{lean} => .{kind}")
        flag_rows.append(f"  | .{lean} => ⟨false, false, false, false⟩")
        count_rows.append(f"  | .{lean} => 0")
        list_rows.append(f"  | .{lean} => false")
    # the error classes: BoboPatternBuilderError <: BoboPatternError (so `except BoboPatternError` users keep working)
    berr = find_class(tree, 'BoboPatternBuilderError')
    if [ast.unparse(b) for b in berr.bases] != ['BoboPatternError']:
        raise TieBroken('BoboPatternBuilderError bases changed')

    # typed predicate
    psrc, ptree = parse_file(repo, SRC_PRED)
    pcls = find_class(ptree, 'BoboPredicateCallType')
    ev = find_func(pcls, 'evaluate')
    hashes[f'{SRC_PRED}::BoboPredicateCallType.evaluate'] = sha(ast.get_source_segment(psrc, ev))
    if [a.arg for a in ev.args.args] != ['self', 'event', 'history']:
        raise TieBroken('evaluate: parameters changed')
    decision = _exec(strip_doc(ev.body), {'event': 'orig'})
    pinit = find_func(pcls, '__init__')
    hashes[f'{SRC_PRED}::BoboPredicateCallType.__init__'] = sha(ast.get_source_segment(psrc, pinit))
    pdefaults = dict(zip([a.arg for a in pinit.args.args][-len(pinit.args.defaults):], [ast.unparse(d) for d in pinit.args.defaults]))
    if pdefaults != {'subtype': 'True', 'cast': 'True'}:
        raise TieBroken('BoboPredicateCallType.__init__: defaults changed: ' + repr(pdefaults))
    stored = {ast.unparse(s.target): ast.unparse(s.value) for s in pinit.body if isinstance(s, ast.AnnAssign)}
    if stored != {'self._dtype': 'dtype', 'self._subtype': 'subtype', 'self._cast': 'cast'}:
        raise TieBroken('BoboPredicateCallType.__init__: stored fields changed: ' + repr(stored))
    base_eval = find_func(find_class(ptree, 'BoboPredicateCall'), 'evaluate')
    if ast.unparse(strip_doc(base_eval.body)[0]) != 'return self._call(event, history)':
        raise TieBroken('BoboPredicateCall.evaluate is not `return self._call(event, history)`')
    hashes[f'{SRC_PRED}::BoboPredicateCall.evaluate'] = sha(ast.get_source_segment(psrc, base_eval))

    cast_rows = []
    for name, path in SRC_EV.items():
        esrc = (repo / path).read_text()
        ecls = find_class(norm_parse(esrc, str(path)), name)
        params = _cast_method(ecls, name)
        hashes[f'{path}::{name}.cast'] = sha(ast.get_source_segment(esrc, find_func(ecls, 'cast')))
        cast_rows.append(f'("{name}", {len(params)})')

    nl = '\n'
    lean = f"""-- GENERATED by translate/builder.py from {SRC}, {SRC_PRED}, bobocep/cep/event/*.py — do not edit.
import BoboVerif.Model.Builder
namespace Bobo.Gen.Builder
open Bobo.Builder

/-- the four flags each method passes to `BoboPatternBlock` (strict, loop, negated, optional). -/
def flagsOf (m : Method) (loop optional : Bool) : Flags :=
  match m with
{nl.join(flag_rows)}

/-- the `range(...)` argument of each method's repetition loop. -/
def copiesOf (m : Method) (times : Int) : Nat :=
  match m with
{nl.join(count_rows)}

/-- `predicates=predicates` (true) or `predicates=[predicate]` (false). -/
def usesList (m : Method) : Bool :=
  match m with
{nl.join(list_rows)}

/-- which list the method appends to. -/
def kind (m : Method) : Kind :=
  match m with
{nl.join(kind_rows)}

/-- keyword arguments of `BoboPattern(...)` in `generate` (parameter, builder attribute). -/
def generateArgs : List (String × String) :=
  [{', '.join(f'("{k}", "{v}")' for k, v in gen_args)}]

/-- decision tree of `BoboPredicateCallType.evaluate` (symbolic execution of its body). -/
def typedDecision (subtype doCast inst exact castOk : Bool) : Decision :=
  {decision}

/-- event classes whose `cast` is `return Cls(<every ctor parameter from its own field>, data=dtype(self._data))`,
with the number of constructor parameters. -/
def castBuildsNewEvent : List (String × Nat) :=
  [{', '.join(cast_rows)}]

end Bobo.Gen.Builder
"""
    return {OUT: lean}, hashes
