"""
G-tie for the run model (C01, C14): the block walk of bobocep/cep/engine/decider/run.py —
`_process_loop`, `_process_not_loop` — as decision tables (what is done for each combination of
"the predicates match" and the block's flags), and the order / shape of the gate in `process`.

Leaves of the if-trees are classified by their exact statements:
  record   : `self._add_event(event, block)` ; `return True`
  halt     : `self._halted = True` ; `return True`
  nochange : `return False`
  forward  : `self._move_forward(event, block, temp_index)` ; `return True`
  next     : `temp_index += 1` ; `block = self.pattern.blocks[temp_index]` ;
             `if block.loop: return self._process_loop(event, block, temp_index)`
             `else: return self._process_not_loop(event, block, temp_index)`
Anything else is refused (TieBroken).
"""
import ast

from .pyexpr import TieBroken, find_class, find_func, strip_doc, sha
from .normalize import parse_file, parse as norm_parse

SRC = 'bobocep/cep/engine/decider/run.py'
OUT = 'RunWalk.lean'

NEXT = ['temp_index += 1', 'block = self.pattern.blocks[temp_index]',
        'if block.loop:\n    return self._process_loop(event, block, temp_index)\nelse:\n    return self._process_not_loop(event, block, temp_index)']
LEAVES = {
    ('self._add_event(event, block)', 'return True'): '.record',
    ('self._halted = True', 'return True'): '.halt',
    ('return False',): '.nochange',
    ('self._move_forward(event, block, temp_index)', 'return True'): '.forward',
    tuple(NEXT): '.next',
}
TESTS = {'match': 'm', 'block.negated': 'negated', 'block.optional': 'optional', 'block.strict': 'strict'}


def _tree(stmts, allowed):
    """an if/elif/else tree over the allowed tests with classified leaves -> Lean expression.
    A trailing fall-through after an `if` without `else` is the else branch."""
    stmts = list(stmts)
    if stmts and isinstance(stmts[0], ast.If):
        st = stmts[0]
        t = ast.unparse(st.test)
        if t not in allowed:
            raise TieBroken('block walk: test `' + t + '` is not one of ' + ', '.join(sorted(allowed)))
        rest = stmts[1:]
        if st.orelse and rest:
            raise TieBroken('block walk: statements after an if/else')
        other = st.orelse if st.orelse else rest
        if not other:
            raise TieBroken('block walk: an `if` without else branch or fall-through')
        return f"(if {TESTS[t]} then {_tree(st.body, allowed)} else {_tree(other, allowed)})"
    key = tuple(ast.unparse(s) for s in stmts)
    if key in LEAVES:
        return LEAVES[key]
    raise TieBroken('block walk: unexpected statements: ' + ' ; '.join(key)[:120])


def _walk_fn(fn, allowed):
    body = strip_doc(fn.body)
    if not body or ast.unparse(body[0]) != 'match = self._is_match(event, block.predicates)':
        raise TieBroken(fn.name + ': first statement is not `match = self._is_match(event, block.predicates)`')
    return _tree(body[1:], allowed)


def _process_shape(fn):
    body = strip_doc(fn.body)
    if len(body) != 1 or not isinstance(body[0], ast.With) or ast.unparse(body[0].items[0].context_expr) != 'self._lock':
        raise TieBroken('process: body is not a single `with self._lock:`')
    steps = []
    for st in body[0].body:
        src = ast.unparse(st)
        if src == 'if self._halted:\n    return False':
            steps.append('finished?')
        elif isinstance(st, ast.If) and ast.unparse(st.test) == 'len(self.pattern.preconditions) > 0':
            inner = [ast.unparse(x) for x in st.body]
            if inner != ['if not all([precon.evaluate(event, self._history) for precon in self.pattern.preconditions]):\n'
                         '    self._halted = True\n    return True']:
                raise TieBroken('process: precondition gate changed: ' + ' ; '.join(inner)[:120])
            steps.append('preconditions:all-evaluated:fail->halt')
        elif isinstance(st, ast.If) and ast.unparse(st.test) == 'len(self.pattern.haltconditions) > 0':
            inner = [ast.unparse(x) for x in st.body]
            if inner != ['if any([haltcon.evaluate(event, self._history) for haltcon in self.pattern.haltconditions]):\n'
                         '    self._halted = True\n    return True']:
                raise TieBroken('process: haltcondition gate changed: ' + ' ; '.join(inner)[:120])
            steps.append('haltconditions:all-evaluated:any->halt')
        elif src == 'temp_index = self._block_index':
            steps.append('index:=stored')
        elif isinstance(st, ast.AnnAssign) and ast.unparse(st.target) == 'block' and ast.unparse(st.value) == 'self.pattern.blocks[temp_index]':
            steps.append('block:=blocks[index]')
        elif src == NEXT[2]:
            steps.append('dispatch-on-loop')
        else:
            raise TieBroken('process: unexpected statement: ' + src[:80])
    return steps


def translate(repo):
    src, tree = parse_file(repo, SRC)
    cls = find_class(tree, 'BoboRun')
    hashes = {}
    fns = {n: find_func(cls, n) for n in ('process', '_process_loop', '_process_not_loop', '_move_forward', '_is_match')}
    for n, f in fns.items():
        hashes[f"{SRC}::BoboRun.{n}"] = sha(ast.get_source_segment(src, f))
    # `_is_match`: the predicates of the block, in order, through a generator expression inside `any` (first True ends
    # the evaluation; whatever a predicate raises leaves the method as an exception — a generator expression turns even
    # StopIteration into one).  The model's `isMatch` is this reading; any other form is refused.
    im = [ast.unparse(x) for x in strip_doc(fns.pop('_is_match').body)]
    if im != ['return any((predicate.evaluate(event, self._history) for predicate in predicates))']:
        raise TieBroken('_is_match: body is not `return any(predicate.evaluate(event, self._history) for predicate in predicates)`: '
                        + ' ; '.join(im)[:160])
    loop = _walk_fn(fns['_process_loop'], {'match', 'block.strict'})
    notloop = _walk_fn(fns['_process_not_loop'], {'match', 'block.negated', 'block.optional', 'block.strict'})
    steps = _process_shape(fns['process'])
    mf = [ast.unparse(s) for s in strip_doc(fns['_move_forward'].body)]
    lean = f"""-- GENERATED by translate/runwalk.py from {SRC} — do not edit.
namespace Bobo.Gen.RunWalk

/-- what the walk does at one block. -/
inductive Act where
  | record | halt | nochange | forward | next
deriving DecidableEq, Repr

/-- `_process_loop`: by (predicates match, block.strict). -/
def loopAct (m strict : Bool) : Act :=
  {loop}

/-- `_process_not_loop`: by (predicates match, block.negated, block.optional, block.strict). -/
def notLoopAct (m negated optional strict : Bool) : Act :=
  {notloop}

/-- the steps of `process`, in source order. -/
def processSteps : List String := [{', '.join(f'"{x}"' for x in steps)}]

/-- the statements of `_move_forward`. -/
def moveForwardStmts : List String := [{', '.join('"' + x.replace('"', "'") + '"' for x in mf)}]

end Bobo.Gen.RunWalk
"""
    return {OUT: lean}, hashes
