"""
Pure renamings of NON-PUBLIC names (private methods, private attributes, private module-level names).

Tie G looks functions and attributes up by name, and the harness drives the real classes through non-public entry points
(doubles for `_tcp_send`, `_now`, one pass of `_tcp_outgoing`, …).  Renaming such a name cannot change behaviour, yet it
would make both lose their grip.  This module recognises the renaming and lets both keep using the recorded name:

* `members(tree)` lists, per module and per class, the private names in definition order (methods; attributes in order
  of first assignment through `self._x`; module-level functions, classes and assigned names);
* `translate/pinned_members.json` holds that listing for the pinned tree (`tools/pin_locals.py` writes it);
* `rename_map(repo)` aligns the current listing with the recorded one (difflib on the name sequences): where a block of
  names was REPLACED by a block of the same length, the names are paired off positionally; a pair old -> new is kept only
  if `old` is defined nowhere in the current source and `new` nowhere in the recorded one (so it really is a renaming,
  not an addition next to a removal of something still present);
* `undo(tree, mapping)` rewrites an AST back to the recorded names (used by `normalize.parse`);
* `install_aliases(repo)` gives the LIVE classes / modules the recorded names back as forwarding aliases, so that a
  double installed as `obj._tcp_send = fake` is what the renamed `self._tcp_transmit(...)` call reaches.

A wrong pairing cannot hide a defect: translators and harness would then address the wrong function, which shows as a
refusal or as a disagreement between model and code.
"""
import ast
import difflib
import importlib
import json
from pathlib import Path

_PIN = Path(__file__).with_name('pinned_members.json')


def _priv(n: str) -> bool:
    return n.startswith('_') and not (n.startswith('__') and n.endswith('__')) and len(n) > 1


def _self_attrs(cls: ast.ClassDef):
    """private attributes assigned through `self._x` anywhere in the class, in source order of first assignment."""
    found = []
    for n in ast.walk(cls):
        if isinstance(n, (ast.Assign, ast.AnnAssign, ast.AugAssign)):
            tgts = n.targets if isinstance(n, ast.Assign) else [n.target]
            for t in tgts:
                for m in ast.walk(t):
                    if isinstance(m, ast.Attribute) and isinstance(m.value, ast.Name) and m.value.id == 'self' and _priv(m.attr):
                        found.append((m.lineno, m.col_offset, m.attr))
    found.sort()
    out = []
    for _, _, a in found:
        if a not in out:
            out.append(a)
    return out


def members(tree: ast.Module):
    out = {'<module>': []}
    for n in tree.body:
        if isinstance(n, (ast.FunctionDef, ast.AsyncFunctionDef)) and _priv(n.name):
            out['<module>'].append(n.name)
        elif isinstance(n, ast.ClassDef):
            if _priv(n.name):
                out['<module>'].append(n.name)
            meths = [m.name for m in n.body if isinstance(m, (ast.FunctionDef, ast.AsyncFunctionDef)) and _priv(m.name)]
            cattrs = []
            for m in n.body:
                if isinstance(m, (ast.Assign, ast.AnnAssign)):
                    for t in (m.targets if isinstance(m, ast.Assign) else [m.target]):
                        if isinstance(t, ast.Name) and _priv(t.id):
                            cattrs.append(t.id)
            out[n.name] = {'methods': meths, 'attrs': _self_attrs(n), 'class_attrs': cattrs}
        elif isinstance(n, (ast.Assign, ast.AnnAssign)):
            for t in (n.targets if isinstance(n, ast.Assign) else [n.target]):
                if isinstance(t, ast.Name) and _priv(t.id):
                    out['<module>'].append(t.id)
    return out


def pin(repo: Path):
    out = {}
    for p in sorted((repo / 'bobocep').rglob('*.py')):
        out[str(p.relative_to(repo))] = members(ast.parse(p.read_text()))
    return out


def _pairs(old, new):
    res = []
    sm = difflib.SequenceMatcher(a=old, b=new, autojunk=False)
    for tag, i1, i2, j1, j2 in sm.get_opcodes():
        if tag == 'replace' and i2 - i1 == j2 - j1:
            res += list(zip(old[i1:i2], new[j1:j2]))
    return res


def _all_names(listing):
    s = set()
    for f, m in listing.items():
        for k, v in m.items():
            if k == '<module>':
                s.update(v)
            else:
                s.update(v['methods'])
                s.update(v['attrs'])
                s.update(v.get('class_attrs', []))
    return s


_cache = {}


def rename_map(repo: Path):
    """({old: new}, [(file, class or '<module>', kind, old, new)]) for the current tree against the recorded one."""
    repo = Path(repo)
    key = str(repo)
    if key in _cache:
        return _cache[key]
    if not _PIN.exists():
        _cache[key] = ({}, [])
        return _cache[key]
    pinned = json.loads(_PIN.read_text())
    try:
        cur = pin(repo)
    except SyntaxError:
        _cache[key] = ({}, [])
        return _cache[key]
    old_names, new_names = _all_names(pinned), _all_names(cur)
    detail = []
    for f, pm in pinned.items():
        cm = cur.get(f)
        if cm is None:
            continue
        for a, b in _pairs(pm['<module>'], cm['<module>']):
            detail.append((f, '<module>', 'module', a, b))
        for cls, pv in pm.items():
            if cls == '<module>' or cls not in cm:
                continue
            for kind in ('methods', 'attrs', 'class_attrs'):
                for a, b in _pairs(pv.get(kind, []), cm[cls].get(kind, [])):
                    detail.append((f, cls, kind, a, b))
    mapping = {}
    bad = set()
    for f, cls, kind, a, b in detail:
        if a in new_names or b in old_names:
            bad.add(a)
            continue
        if a in mapping and mapping[a] != b:
            bad.add(a)
        mapping[a] = b
    for a in bad:
        mapping.pop(a, None)
    if len(set(mapping.values())) != len(mapping):
        seen, dup = set(), set()
        for a, b in mapping.items():
            if b in seen:
                dup.add(b)
            seen.add(b)
        mapping = {a: b for a, b in mapping.items() if b not in dup}
    detail = [d for d in detail if d[3] in mapping and mapping[d[3]] == d[4]]
    _cache[key] = (mapping, detail)
    return _cache[key]


class _Undo(ast.NodeTransformer):
    def __init__(self, inv):
        self.inv = inv

    def visit_FunctionDef(self, n):
        if n.name in self.inv:
            n.name = self.inv[n.name]
        self.generic_visit(n)
        return n

    visit_AsyncFunctionDef = visit_FunctionDef

    def visit_ClassDef(self, n):
        if n.name in self.inv:
            n.name = self.inv[n.name]
        self.generic_visit(n)
        return n

    def visit_Attribute(self, n):
        if n.attr in self.inv:
            n.attr = self.inv[n.attr]
        self.generic_visit(n)
        return n

    def visit_Name(self, n):
        if n.id in self.inv:
            n.id = self.inv[n.id]
        return n

    def visit_alias(self, n):
        if n.name in self.inv and n.asname is None:
            n.name = self.inv[n.name]
        return n


def undo(tree, mapping):
    """rewrite `tree` (in place) from the current private names back to the recorded ones."""
    if not mapping:
        return tree
    inv = {new: old for old, new in mapping.items()}
    return _Undo(inv).visit(tree)


class Alias:
    """class-level forwarding alias: reading / writing / deleting `obj.<old>` reads / writes / deletes `obj.<new>`."""

    def __init__(self, new):
        self.new = new

    def __get__(self, obj, typ=None):
        return getattr(obj if obj is not None else typ, self.new)

    def __set__(self, obj, value):
        setattr(obj, self.new, value)

    def __delete__(self, obj):
        delattr(obj, self.new)


def install_aliases(repo: Path):
    """make the recorded private names usable on the live classes and modules of the current tree; returns the pairs."""
    mapping, detail = rename_map(repo)
    done = []
    for f, cls, kind, old, new in detail:
        modname = f[:-3].replace('/', '.')
        if modname.endswith('.__init__'):
            modname = modname[:-9]
        try:
            mod = importlib.import_module(modname)
        except Exception:
            continue
        if cls == '<module>':
            if hasattr(mod, new) and not hasattr(mod, old):
                setattr(mod, old, getattr(mod, new))
                done.append((modname, old, new))
        else:
            c = getattr(mod, cls, None)
            if c is not None and old not in c.__dict__:
                setattr(c, old, Alias(new))
                done.append((modname + '.' + cls, old, new))
    return done
