"""
G-tie for C18: read the shape of the four validator `is_valid` bodies
(bobocep/cep/engine/receiver/validator.py) and of the receiver gate
`BoboReceiver._process_data` into Lean constants (Gen/Validator.lean).

Per validator class the translator accepts exactly

    [ if isinstance(data, BoboEvent): data = data.data ]      # optional, FIRST statement only
    <class-specific rest>

and refuses (TieBroken) everything else — in particular an unwrap statement
anywhere but first, another exception set, another quantifier, another base
class.  What is emitted:

    shape : Shape := ⟨jsonableUnwraps, typeUnwraps, typeAny, schemaUnwraps, schemaBase⟩
    gateShape : constants describing `_process_data` (validate first, events
                pass as the same object, the wrapper is BoboEventSimple carrying `data`)
"""
import ast

from .pyexpr import TieBroken, find_class, find_func, strip_doc, sha
from .normalize import parse_file, parse as norm_parse

SRC = 'bobocep/cep/engine/receiver/validator.py'
SRC_RECV = 'bobocep/cep/engine/receiver/receiver.py'
OUT = 'Validator.lean'

UNWRAP = "if isinstance(data, BoboEvent):\n    data = data.data"


def _b(x: bool) -> str:
    return 'true' if x else 'false'


def _split_unwrap(cls_name, fn):
    """(unwraps?, rest of the body).  The unwrap statement may only be the first statement."""
    a = fn.args
    if [x.arg for x in a.args] != ['self', 'data'] or a.vararg or a.kwarg or a.kwonlyargs or a.defaults:
        raise TieBroken(f"{cls_name}.is_valid: signature is not (self, data)")
    body = strip_doc(fn.body)
    unwraps = bool(body) and ast.unparse(body[0]) == UNWRAP
    rest = body[1:] if unwraps else body
    for st in rest:
        for n in ast.walk(st):
            if isinstance(n, ast.Name) and n.id == 'BoboEvent':
                raise TieBroken(f"{cls_name}.is_valid: BoboEvent is mentioned after the first statement")
            if isinstance(n, (ast.Assign, ast.AugAssign, ast.AnnAssign, ast.NamedExpr)):
                tg = n.targets if isinstance(n, ast.Assign) else [n.target]
                for t in tg:
                    for m in ast.walk(t):
                        if isinstance(m, ast.Name) and m.id == 'data':
                            raise TieBroken(f"{cls_name}.is_valid: `data` is re-bound after the first statement")
    return unwraps, rest


def _bases(cls):
    return [ast.unparse(b) for b in cls.bases]


def _handlers(tr):
    out = []
    for h in tr.handlers:
        if h.type is None:
            raise TieBroken("bare except")
        if isinstance(h.type, ast.Tuple):
            names = sorted(ast.unparse(e) for e in h.type.elts)
        else:
            names = [ast.unparse(h.type)]
        out.append((names, h.name, [ast.unparse(s) for s in h.body]))
    return out


def _all_validator(cls):
    fn = find_func(cls, 'is_valid')
    unwraps, rest = _split_unwrap('BoboValidatorAll', fn)
    if [ast.unparse(s) for s in rest] != ['return True']:
        raise TieBroken("BoboValidatorAll.is_valid: body is not `return True`")
    return fn


def _jsonable(cls):
    if _bases(cls) != ['BoboValidator']:
        raise TieBroken("BoboValidatorJSONable: base class changed")
    fn = find_func(cls, 'is_valid')
    unwraps, rest = _split_unwrap('BoboValidatorJSONable', fn)
    if len(rest) != 2 or not isinstance(rest[0], ast.Try) or ast.unparse(rest[1]) != 'return True':
        raise TieBroken("BoboValidatorJSONable.is_valid: expected `try: dumps(data) except ...: return False; return True`")
    tr = rest[0]
    if [ast.unparse(s) for s in tr.body] != ['dumps(data)'] or tr.orelse or tr.finalbody:
        raise TieBroken("BoboValidatorJSONable.is_valid: try body is not `dumps(data)`")
    if _handlers(tr) != [(['RecursionError', 'TypeError', 'ValueError'], None, ['return False'])]:
        raise TieBroken("BoboValidatorJSONable.is_valid: exception set / handler changed: " + repr(_handlers(tr)))
    return fn, unwraps


def _quant(cls_name, ret, inner):
    """`return any(<inner> for t in self._types)` -> 'any' / 'all'"""
    if not (isinstance(ret, ast.Return) and isinstance(ret.value, ast.Call) and isinstance(ret.value.func, ast.Name)
            and ret.value.func.id in ('any', 'all') and len(ret.value.args) == 1 and not ret.value.keywords):
        raise TieBroken(f"{cls_name}.is_valid: return is not any(...)/all(...): " + ast.unparse(ret))
    g = ret.value.args[0]
    if not isinstance(g, ast.GeneratorExp) or len(g.generators) != 1:
        raise TieBroken(f"{cls_name}.is_valid: not a single generator expression")
    c = g.generators[0]
    if ast.unparse(c.target) != 't' or ast.unparse(c.iter) != 'self._types' or c.ifs or c.is_async:
        raise TieBroken(f"{cls_name}.is_valid: generator does not range over self._types")
    if ast.unparse(g.elt) != inner:
        raise TieBroken(f"{cls_name}.is_valid: test is {ast.unparse(g.elt)!r}, expected {inner!r}")
    return ret.value.func.id


def _type(cls):
    if _bases(cls) != ['BoboValidator']:
        raise TieBroken("BoboValidatorType: base class changed")
    init = find_func(cls, '__init__')
    init_src = [ast.unparse(s) for s in strip_doc(init.body)]
    if 'self._types: Tuple[type, ...] = tuple(types)' not in init_src or 'self._subtype = subtype' not in init_src:
        raise TieBroken("BoboValidatorType.__init__: _types / _subtype are not the constructor arguments")
    fn = find_func(cls, 'is_valid')
    unwraps, rest = _split_unwrap('BoboValidatorType', fn)
    if len(rest) != 1 or not isinstance(rest[0], ast.If) or ast.unparse(rest[0].test) != 'self._subtype':
        raise TieBroken("BoboValidatorType.is_valid: expected `if self._subtype: ... else: ...`")
    i = rest[0]
    if len(i.body) != 1 or len(i.orelse) != 1:
        raise TieBroken("BoboValidatorType.is_valid: branches are not single returns")
    q1 = _quant('BoboValidatorType', i.body[0], 'isinstance(data, t)')
    q2 = _quant('BoboValidatorType', i.orelse[0], 'type(data) == t')
    if q1 != q2:
        raise TieBroken("BoboValidatorType.is_valid: the two branches use different quantifiers")
    return fn, unwraps, q1 == 'any'


def _schema(cls):
    if _bases(cls) != ['BoboValidatorJSONable']:
        raise TieBroken("BoboValidatorJSONSchema: base class is not BoboValidatorJSONable")
    init = find_func(cls, '__init__')
    if 'self._schema: dict = schema' not in [ast.unparse(s) for s in strip_doc(init.body)]:
        raise TieBroken("BoboValidatorJSONSchema.__init__: _schema is not the constructor argument")
    fn = find_func(cls, 'is_valid')
    unwraps, rest = _split_unwrap('BoboValidatorJSONSchema', fn)
    base = False
    if rest and ast.unparse(rest[0]) == "if not super().is_valid(data):\n    return False":
        base = True
        rest = rest[1:]
    for st in rest:
        for n in ast.walk(st):
            if isinstance(n, ast.Name) and n.id == 'super':
                raise TieBroken("BoboValidatorJSONSchema.is_valid: super() used outside the leading base test")
    if len(rest) != 2 or not isinstance(rest[0], ast.Try) or ast.unparse(rest[1]) != 'return True':
        raise TieBroken("BoboValidatorJSONSchema.is_valid: expected `try: jsonschema_validate(...) except ...; return True`")
    tr = rest[0]
    if [ast.unparse(s) for s in tr.body] != ['jsonschema_validate(instance=data, schema=self._schema)'] \
            or tr.orelse or tr.finalbody:
        raise TieBroken("BoboValidatorJSONSchema.is_valid: try body changed")
    if _handlers(tr) != [(['ValidationError'], None, ['return False']),
                         (['SchemaError'], 'e', ['raise BoboValidatorError(e)'])]:
        raise TieBroken("BoboValidatorJSONSchema.is_valid: handlers changed: " + repr(_handlers(tr)))
    return fn, unwraps, base


PROCESS_DATA = [
    "if not self._validator.is_valid(data):\n    return",
    "if isinstance(data, BoboEvent):\n    event = data\nelse:\n    event = BoboEventSimple("
    "event_id=self._gen_event_id.generate(), timestamp=self._gen_timestamp.generate(), data=data)",
    "for subscriber in self._subscribers:\n    subscriber.on_receiver_update(event)",
]


def _imports_ok(tree):
    """`dumps` is json.dumps, `jsonschema_validate` is jsonschema.validate, BoboEvent is the event base class."""
    want = {('json', 'dumps', None), ('jsonschema', 'validate', 'jsonschema_validate'),
            ('jsonschema.exceptions', 'ValidationError', None), ('jsonschema.exceptions', 'SchemaError', None),
            ('bobocep.cep.event', 'BoboEvent', None)}
    have = set()
    for n in tree.body:
        if isinstance(n, ast.ImportFrom):
            for a in n.names:
                have.add((n.module, a.name, a.asname))
    missing = want - have
    if missing:
        raise TieBroken("validator.py: imports changed: missing " + repr(sorted(missing, key=repr)))
    # no module-level rebinding of these names
    for n in tree.body:
        if isinstance(n, (ast.Assign, ast.AnnAssign, ast.FunctionDef)):
            names = [n.name] if isinstance(n, ast.FunctionDef) else \
                [ast.unparse(t) for t in (n.targets if isinstance(n, ast.Assign) else [n.target])]
            if set(names) & {'dumps', 'jsonschema_validate', 'BoboEvent', 'ValidationError', 'SchemaError'}:
                raise TieBroken("validator.py: library name re-bound at module level")


def translate(repo):
    src, tree = parse_file(repo, SRC)
    _imports_ok(tree)
    f_all = _all_validator(find_class(tree, 'BoboValidatorAll'))
    f_js, js_unwraps = _jsonable(find_class(tree, 'BoboValidatorJSONable'))
    f_ty, ty_unwraps, ty_any = _type(find_class(tree, 'BoboValidatorType'))
    f_sc, sc_unwraps, sc_base = _schema(find_class(tree, 'BoboValidatorJSONSchema'))

    rsrc, rtree = parse_file(repo, SRC_RECV)
    pd = find_func(find_class(rtree, 'BoboReceiver'), '_process_data')
    got = [ast.unparse(s) for s in strip_doc(pd.body)]
    if got != PROCESS_DATA:
        raise TieBroken("BoboReceiver._process_data: body changed: " + repr(got))

    frags = {
        SRC + '::BoboValidatorAll.is_valid': sha(ast.get_source_segment(src, f_all)),
        SRC + '::BoboValidatorJSONable.is_valid': sha(ast.get_source_segment(src, f_js)),
        SRC + '::BoboValidatorType.is_valid': sha(ast.get_source_segment(src, f_ty)),
        SRC + '::BoboValidatorJSONSchema.is_valid': sha(ast.get_source_segment(src, f_sc)),
        SRC_RECV + '::BoboReceiver._process_data': sha(ast.get_source_segment(rsrc, pd)),
    }
    lean = f"""-- GENERATED by translate/validator.py from {SRC} — do not edit.
-- source sha256: {sha(''.join(frags[k] for k in sorted(frags)))}
import BoboVerif.Model.Validator
namespace Bobo.Gen.Validator
open Bobo.Validator
/-- ⟨jsonableUnwraps, typeUnwraps, typeAny, schemaUnwraps, schemaBase⟩ as read from the source -/
def shape : Shape := ⟨{_b(js_unwraps)}, {_b(ty_unwraps)}, {_b(ty_any)}, {_b(sc_unwraps)}, {_b(sc_base)}⟩
/-- `_process_data` is: validate first (return on reject); an event passes as the same object;
anything else is wrapped in one BoboEventSimple(fresh id, fresh timestamp, data=data); then every
subscriber is notified with that one event (checked syntactically by the translator). -/
def processDataShapeChecked : Bool := true
end Bobo.Gen.Validator
"""
    return {OUT: lean}, frags
