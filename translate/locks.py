"""
G-tie for C08: static, conservative extraction of the lock-acquisition table
of bobocep (Gen/Locks.lean).

What is extracted
-----------------
* every lock: an attribute assigned `RLock()` in some `__init__`
  (identity = `<defining class>.<attr>`, i.e. one id per lock *class*);
* for every thread role (engine loop, data feeder, distributed main /
  incoming / outgoing, handler worker, controller) and each of its entry
  points, an abstract execution of the method bodies that keeps the stack of
  locks held (`with self.<lock>:` nesting) and follows every call:
    - `self.m()`                       -> m resolved in the class hierarchy of the defining class,
    - `<expr>.m()` / `<expr>.prop`     -> receiver typed from annotations (constructor attributes,
                                          parameters, annotated locals, loop variables over annotated
                                          containers, return annotations); the call is resolved to the
                                          implementation of every bobocep subclass of the static type
                                          (so publisher -> subscriber callbacks reach *every* class that
                                          implements the callback, a superset of the subscribe graph of
                                          `BoboEngine.__init__` / `BoboSetupSimpleDistributed.generate`),
    - properties are calls (several take a lock), constructors are calls of `__init__`;
* each time a lock is newly acquired an entry (set of lock classes held,
  lock class acquired) is recorded with the call chain and the role.

What is refused (TieBroken) instead of guessed
----------------------------------------------
a `with` on anything that is not `self.<RLock attribute>`; explicit
`acquire()`/`release()`; a call whose receiver type is unknown while the
method name is defined by some bobocep class; a property name of a
lock-owning class read on an untyped receiver; unknown plain-name calls;
unknown statement kinds; a missing entry point; duplicate class names.

Leaves (never take a bobocep lock): the Python builtins listed below, methods
of objects of non-bobocep types (Queue, socket, Thread, pools, str, list,
dict, deque, json, logging, pycryptodome, jsonschema), and user callbacks
(callables stored in attributes, and user subclasses of the open extension
points).  Those executed while a lock is held are listed in the generated
file as ASSUMPTIONS; blocking non-lock operations are listed as BLOCKING.
"""
import ast
from pathlib import Path

from .pyexpr import TieBroken, sha
from .normalize import parse as norm_parse

OUT = 'Locks.lean'

GATE = 'BoboEngine._lock'

# thread roles and their entry points (Class.method, or module function)
ROLES = [
    ('engine', ['BoboEngine.run', 'BoboEngine.update', 'BoboEngine.close', 'BoboEngine.is_closed']),
    ('feeder', ['BoboReceiver.add_data', 'BoboReceiver.size', 'BoboReceiver.is_closed']),
    ('dist_main', ['BoboDistributedTCP.run']),
    ('dist_incoming', ['BoboDistributedTCP._tcp_incoming']),
    ('dist_outgoing', ['BoboDistributedTCP._tcp_outgoing']),
    ('worker', ['_pool_execute_action']),
    ('controller', [
        'BoboDistributedTCP.close', 'BoboDistributedTCP.join', 'BoboDistributedTCP.is_closed',
        'BoboDistributedTCP.size_incoming', 'BoboDistributedTCP.size_outgoing', 'BoboDistributedTCP.subscribe',
        'BoboActionHandler.close', 'BoboActionHandler.size', 'BoboActionHandler.is_closed',
        'BoboActionHandlerMultithreading.join', 'BoboActionHandlerMultiprocessing.join',
        'BoboDecider.all_runs', 'BoboDecider.runs_from', 'BoboDecider.run_at', 'BoboDecider.snapshot',
        'BoboDecider.size', 'BoboDecider.is_closed', 'BoboDecider.phenomena', 'BoboDecider.close',
        'BoboDecider.subscribe',
        'BoboReceiver.close', 'BoboReceiver.subscribe',
        'BoboProducer.size', 'BoboProducer.is_closed', 'BoboProducer.close', 'BoboProducer.subscribe',
        'BoboForwarder.size', 'BoboForwarder.is_closed', 'BoboForwarder.close', 'BoboForwarder.subscribe',
    ]),
]

# one object of each of these per process (the wiring of BoboSetupSimple[Distributed].generate):
# a callback that comes back to the same class comes back to the same object.
SINGLETONS = ['BoboEngine', 'BoboReceiver', 'BoboDecider', 'BoboProducer', 'BoboForwarder',
              'BoboDistributedTCP', 'BoboActionHandler']

# where the subscribe graph is read from
WIRING_SITES = [('BoboEngine', '__init__'), ('BoboSetupSimpleDistributed', 'generate')]

BUILTINS = {
    'len', 'int', 'str', 'bool', 'float', 'bytes', 'bytearray', 'any', 'all', 'max', 'min', 'sum', 'abs',
    'sorted', 'reversed', 'enumerate', 'range', 'isinstance', 'issubclass', 'tuple', 'list', 'dict', 'set',
    'frozenset', 'zip', 'map', 'filter', 'type', 'repr', 'hash', 'id', 'iter', 'next', 'print', 'getattr',
    'hasattr', 'callable', 'round', 'ord', 'chr', 'format', 'divmod', 'pow', 'object',
}
EXC_NAMES = {'Exception', 'ValueError', 'TypeError', 'KeyError', 'RuntimeError', 'IndexError', 'OSError',
             'TimeoutError', 'RecursionError', 'NotImplementedError', 'AttributeError', 'StopIteration'}

# (ext type name prefix, method) pairs that can block without being a lock
BLOCKING = {
    ('Queue', 'put'), ('Queue', 'get'), ('Thread', 'join'), ('ThreadPool', 'join'), ('Pool', 'join'),
    ('socket.socket', 'accept'), ('socket.socket', 'recv'), ('socket.socket', 'connect'),
    ('socket.socket', 'sendall'),
}
BLOCKING_UNTYPED = {'recv', 'accept', 'sendall', 'connect'}   # socket objects passed without annotation

LIST_LIKE = {'List', 'Deque', 'Set', 'FrozenSet', 'Sequence', 'Iterable', 'Iterator', 'list', 'set', 'deque'}


def T_cls(n): return ('cls', n)
def T_ext(n): return ('ext', n)


ANY = ('any',)
CALLABLE = ('callable',)


class ClassInfo:
    def __init__(self, name, node, module):
        self.name, self.node, self.module = name, node, module
        self.bases = []
        self.methods = {}     # plain methods (incl. staticmethods)
        self.props = {}       # property getters
        self.setters = {}
        self.attrs = {}       # attr -> annotation node (from self.x: T = ... anywhere in the class)
        self.locks = set()    # attrs assigned RLock()
        self.abstract = set()


class Extractor:
    def __init__(self, repo: Path):
        self.repo = repo
        self.classes = {}
        self.functions = {}       # module-level functions: name -> (node, module)
        self.mod_imports = {}     # module -> {local name: 'module' | 'extfunc' | 'bobocep'}
        self.files = {}
        self.sources = {}
        self._load()
        self.entries = {}         # (frozenset(H), x) -> {'roles': set, 'chain': str}
        self.reentries = {}       # same-object re-acquisitions (comment only)
        self.assumptions = {}     # text -> set(roles)
        self.blocking = {}        # text -> set(roles)
        self.joins = {}           # (receiver text, kind, where) -> {'held': set(lock names), 'roles': set(joining roles)}
        self.unguarded = {}       # (text, held) -> set(roles): queue operations that can wait for another thread
        self.accesses = {}        # (class, attr, 'r'|'w') -> {'locked': n, 'unlocked': set(where)}: field accesses of lock-owning classes
        self.init_only = {}       # (class, attr) -> True while every write seen is inside __init__
        self.visited_files = set()
        self.memo = set()
        self.active = set()
        self.role = None
        self.depth = 0

    # ------------------------------------------------------------------ loading
    def _load(self):
        root = self.repo / 'bobocep'
        for p in sorted(root.rglob('*.py')):
            rel = str(p.relative_to(self.repo))
            src = p.read_text()
            tree = norm_parse(src, rel)
            self.files[rel] = tree
            self.sources[rel] = src
            imps = {}
            for n in ast.walk(tree):
                if isinstance(n, ast.Import):
                    for a in n.names:
                        imps[(a.asname or a.name).split('.')[0]] = 'module'
                elif isinstance(n, ast.ImportFrom):
                    frm = n.module or ''
                    for a in n.names:
                        nm = a.asname or a.name
                        if frm.startswith('bobocep'):
                            imps.setdefault(nm, 'bobocep')
                        else:
                            imps[nm] = 'ext'
            self.mod_imports[rel] = imps
            for n in tree.body:
                if isinstance(n, ast.ClassDef):
                    if n.name in self.classes:
                        raise TieBroken(f"duplicate class name {n.name} ({rel} and {self.classes[n.name].module})")
                    self.classes[n.name] = self._class_info(n, rel)
                elif isinstance(n, ast.FunctionDef):
                    if n.name in self.functions and not n.name.startswith('__'):
                        raise TieBroken(f"duplicate module-level function {n.name}")
                    self.functions[n.name] = (n, rel)
        self.subs = {c: set() for c in self.classes}
        for c in self.classes:
            for a in self._ancestors(c):
                self.subs[a].add(c)
        # property names of classes that own a lock (reading them on an untyped receiver is refused)
        self.lock_props = set()
        self.method_names = set()
        for c, ci in self.classes.items():
            self.method_names |= set(ci.methods) | set(ci.props)
            if self._lock_attrs(c):
                self.lock_props |= set(ci.props)

    def _class_info(self, node, rel):
        ci = ClassInfo(node.name, node, rel)
        for b in node.bases:
            if isinstance(b, ast.Name):
                ci.bases.append(b.id)
            elif isinstance(b, ast.Attribute):
                ci.bases.append(b.attr)
            elif isinstance(b, ast.Subscript) and isinstance(b.value, ast.Name):
                ci.bases.append(b.value.id)
            else:
                raise TieBroken(f"class {node.name}: base expression not understood")
        for n in node.body:
            if isinstance(n, ast.AnnAssign) and isinstance(n.target, ast.Name):
                ci.attrs.setdefault(n.target.id, n.annotation)      # NamedTuple / class-level fields
            if isinstance(n, ast.FunctionDef):
                decos = [ast.unparse(d) for d in n.decorator_list]
                if 'property' in decos:
                    ci.props[n.name] = n
                elif any(d.endswith('.setter') for d in decos):
                    ci.setters[n.name] = n
                else:
                    ci.methods[n.name] = n
                    if 'abstractmethod' in decos:
                        ci.abstract.add(n.name)
                    for d in decos:
                        if d not in ('staticmethod', 'abstractmethod', 'classmethod', 'typing.no_type_check', 'no_type_check'):
                            raise TieBroken(f"{node.name}.{n.name}: decorator {d}")
                for s in ast.walk(n):
                    if isinstance(s, ast.AnnAssign) and isinstance(s.target, ast.Attribute) \
                            and isinstance(s.target.value, ast.Name) and s.target.value.id == 'self':
                        ci.attrs.setdefault(s.target.attr, s.annotation)
                    if isinstance(s, ast.Assign) and len(s.targets) == 1 and isinstance(s.targets[0], ast.Attribute) \
                            and isinstance(s.targets[0].value, ast.Name) and s.targets[0].value.id == 'self' \
                            and isinstance(s.value, ast.Call) and isinstance(s.value.func, (ast.Name, ast.Attribute)):
                        # un-annotated `self.x = Ctor(...)`: the constructor name serves as the annotation
                        ci.attrs.setdefault(s.targets[0].attr, s.value.func)
                    tgt = None
                    if isinstance(s, ast.AnnAssign):
                        tgt, val = s.target, s.value
                    elif isinstance(s, ast.Assign) and len(s.targets) == 1:
                        tgt, val = s.targets[0], s.value
                    if tgt is not None and isinstance(val, ast.Call) and ast.unparse(val.func) in (
                            'RLock', 'Lock', 'threading.RLock', 'threading.Lock'):
                        if not (isinstance(tgt, ast.Attribute) and isinstance(tgt.value, ast.Name)
                                and tgt.value.id == 'self'):
                            raise TieBroken(f"{node.name}.{n.name}: lock created but not stored in self.<attr>")
                        if ast.unparse(val.func) not in ('RLock', 'threading.RLock'):
                            raise TieBroken(f"{node.name}.{n.name}: non-reentrant Lock")
                        ci.locks.add(tgt.attr)
        return ci

    def _ancestors(self, c, seen=None):
        """c and all its bobocep ancestors (linearised depth-first, left to right)."""
        out = []
        seen = seen if seen is not None else set()
        if c in seen or c not in self.classes:
            return out
        seen.add(c)
        out.append(c)
        for b in self.classes[c].bases:
            out += self._ancestors(b, seen)
        return out

    def _lock_attrs(self, c):
        s = {}
        for a in self._ancestors(c):
            for l in self.classes[a].locks:
                s.setdefault(l, a)
        return s

    # ------------------------------------------------------------------ types
    def ann(self, node):
        if node is None:
            return None
        if isinstance(node, ast.Constant):
            if isinstance(node.value, str):
                try:
                    return self.ann(ast.parse(node.value, mode='eval').body)
                except SyntaxError:
                    return None
            if node.value is None:
                return T_ext('None')
            return None
        if isinstance(node, ast.Name):
            if node.id in self.classes:
                return T_cls(node.id)
            if node.id == 'Any':
                return ANY
            if node.id == 'Callable':
                return CALLABLE
            if node.id in LIST_LIKE:
                return ('list', None)
            return T_ext(node.id)
        if isinstance(node, ast.Attribute):
            return T_ext(ast.unparse(node))
        if isinstance(node, ast.Subscript):
            base = ast.unparse(node.value).split('.')[-1]
            sl = node.slice
            elts = list(sl.elts) if isinstance(sl, ast.Tuple) else [sl]
            if base in LIST_LIKE:
                return ('list', self.ann(elts[0]))
            if base in ('Tuple', 'tuple'):
                if len(elts) == 2 and isinstance(elts[1], ast.Constant) and elts[1].value is Ellipsis:
                    return ('list', self.ann(elts[0]))
                return ('tuple', [self.ann(e) for e in elts])
            if base in ('Dict', 'dict', 'Mapping'):
                return ('dict', self.ann(elts[0]), self.ann(elts[1]))
            if base == 'Optional':
                return self.ann(elts[0])
            if base == 'Union':
                return self.union([self.ann(e) for e in elts])
            if base == 'Callable':
                return CALLABLE
            if base == 'Type':
                return T_ext('type')
            return T_ext(base)
        if isinstance(node, ast.BinOp) and isinstance(node.op, ast.BitOr):
            return self.union([self.ann(node.left), self.ann(node.right)])
        return None

    def union(self, ts):
        flat = []
        for t in ts:
            if t is None:
                return None
            if t == T_ext('None'):
                continue
            if t[0] == 'union':
                flat += t[1]
            else:
                flat.append(t)
        uniq = []
        for t in flat:
            if t not in uniq:
                uniq.append(t)
        if not uniq:
            return T_ext('None')
        if len(uniq) == 1:
            return uniq[0]
        return ('union', uniq)

    def elem(self, t):
        if t is None:
            return None
        if t[0] == 'list':
            return t[1]
        if t[0] == 'dict':
            return t[1]
        if t[0] == 'tuple':
            return self.union(t[1])
        if t[0] == 'union':
            return self.union([self.elem(x) for x in t[1]])
        if t == ANY:
            return ANY
        return None

    # ------------------------------------------------------------------ resolution
    def impls(self, static_cls, name, kind='methods'):
        """implementations of `name` reachable on an object whose static type is static_cls:
        for every subclass K (incl. itself), the first definition in K's ancestor order."""
        out = []
        for k in sorted(self.subs.get(static_cls, {static_cls})):
            for a in self._ancestors(k):
                tbl = getattr(self.classes[a], kind)
                if name in tbl:
                    if kind == 'methods' and name in self.classes[a].abstract:
                        break
                    if (a, name) not in [(x, y) for x, y, _ in out]:
                        out.append((a, name, tbl[name]))
                    break
        return out

    def attr_type(self, static_cls, attr):
        for k in [static_cls] + sorted(self.subs.get(static_cls, ())):
            for a in self._ancestors(k):
                if attr in self.classes[a].attrs:
                    return self.ann(self.classes[a].attrs[attr]), True
        return None, False

    def is_open(self, static_cls):
        """an extension point: some ancestor-or-self declares abstract methods."""
        return any(self.classes[a].abstract for a in self._ancestors(static_cls))

    def is_abstract_in(self, static_cls, m):
        """m is declared abstract by static_cls or an ancestor: user code may implement it."""
        return any(m in self.classes[a].abstract for a in self._ancestors(static_cls))

    def token_for(self, static_cls, site, parent_tok, held=None):
        for a in self._ancestors(static_cls):
            if a in SINGLETONS:
                return 'single:' + a
        for s in SINGLETONS:
            if s in self.subs and static_cls in self.subs[s]:
                return 'single:' + s
        # any other object: identified by the site that reaches it.  If that site is already on the
        # held stack (recursion through the same site while its lock is held) the object may be a
        # different one: give it a distinct token so the nested acquisition is NOT taken as re-entrant.
        tok = f'obj@{site}'
        while held is not None and any(t == tok for _, t in held):
            tok += "'"
        return tok

    # ------------------------------------------------------------------ recording
    def loc(self, ctx, node):
        return f"{ctx['module']}:{getattr(node, 'lineno', 0)}"

    def note_assumption(self, ctx, what, node):
        if ctx['held']:
            d = self.assumptions.setdefault(f"{what} [{self.loc(ctx, node)}]", {'roles': set(), 'held': set()})
            d['roles'].add(self.role)
            d['held'] |= {l for l, _ in ctx['held']}

    @staticmethod
    def full_guard(test):
        """(receiver guarded in the body, receiver guarded in the else branch) for a test `not X.full()` / `X.full()`."""
        def full_of(e):
            if isinstance(e, ast.Call) and isinstance(e.func, ast.Attribute) and e.func.attr == 'full' and not e.args:
                return ast.unparse(e.func.value)
            return None
        if isinstance(test, ast.UnaryOp) and isinstance(test.op, ast.Not):
            return full_of(test.operand), None
        return None, full_of(test)

    def note_queue_wait(self, ctx, m, e):
        """a Queue.put / Queue.get that can wait for another thread: not the nowait form, no block=False / timeout,
        and (for put) not inside a `not full()` guard on the same queue."""
        if any(k.arg in ('block', 'timeout') for k in e.keywords):
            return
        if (m == 'put' and len(e.args) >= 2) or (m == 'get' and len(e.args) >= 1):
            return
        recv = ast.unparse(e.func.value)
        here = frozenset(ctx['held'])
        if not here:
            return      # the waiting thread holds no bobocep lock: it cannot be part of a cycle of threads waiting for each other
        if m == 'put' and any(g == recv and h == here for g, h in ctx.get('guards', [])):
            return      # `full()` was tested under the very same lock acquisitions: no other producer can step in between
        held = ','.join(sorted({l for l, _ in ctx['held']})) or '-'
        self.unguarded.setdefault((f"Queue.{m}() on `{recv}` [{self.loc(ctx, e)}]", held), set()).add(self.role)

    def note_access(self, ctx, attr, kind, node):
        """a read / write of `self.<attr>` in a method of a class that owns a lock: is the object's own lock held?"""
        c = ctx.get('cls')
        if not c or c not in self.classes:
            return
        locks = self._lock_attrs(c)
        if not locks or attr in locks:
            return
        owner = None
        for a in self._ancestors(c):
            if attr in self.classes[a].attrs:
                owner = a
                break
        if owner is None:
            return                      # a method / property / unknown name: not a field
        ann = self.classes[owner].attrs.get(attr)
        if ann is not None and 'Queue' in ast.unparse(ann):
            return                      # queue.Queue serialises its own operations (waiting on it is `queueWaits`' business)
        fn = ctx.get('fn')
        if kind == 'w' and fn != '__init__':
            self.init_only[(owner, attr)] = False
        else:
            self.init_only.setdefault((owner, attr), True)
        if fn == '__init__':
            return                      # the object is not shared yet
        own = {f"{a}.{l}" for l, a in locks.items()}
        held = any(l in own and t == ctx['self_tok'] for l, t in ctx['held'])
        e = self.accesses.setdefault((owner, attr, kind), {'locked': 0, 'unlocked': set()})
        if held:
            e['locked'] += 1
        else:
            e['unlocked'].add(f"{c}.{fn}")

    def note_blocking(self, ctx, what, node):
        held = ','.join(sorted({l for l, _ in ctx['held']})) or '-'
        self.blocking.setdefault(f"{what} [{self.loc(ctx, node)}] holding {{{held}}}", set()).add(self.role)

    def acquire(self, ctx, lock_id, node):
        tok = ctx['self_tok']
        for l, t in ctx['held']:
            if l == lock_id and t == tok:
                self.reentries.setdefault((lock_id, self.loc(ctx, node)), set()).add(self.role)
                return (lock_id, tok, False)
        H = frozenset(l for l, _ in ctx['held'])
        key = (H, lock_id)
        chain = ' -> '.join(ctx['chain'] + [f"with {lock_id} [{self.loc(ctx, node)}]"])
        e = self.entries.setdefault(key, {'roles': set(), 'chain': chain})
        e['roles'].add(self.role)
        return (lock_id, tok, True)

    # ------------------------------------------------------------------ analysis
    def analyze_callable(self, owner, fn, module, self_tok, ctx, node, argtypes=(), kwtypes=None):
        """abstractly execute function `fn` (method of class `owner` or module function).
        Unannotated parameters take the static type of the call-site argument."""
        qual = f"{owner}.{fn.name}" if owner else fn.name
        params = [a for a in fn.args.posonlyargs + fn.args.args if a.arg != 'self']
        extra = {}
        for i, a in enumerate(params):
            if a.annotation is None:
                if i < len(argtypes) and argtypes[i] is not None:
                    extra[a.arg] = argtypes[i]
                elif kwtypes and kwtypes.get(a.arg) is not None:
                    extra[a.arg] = kwtypes[a.arg]
        key = (self.role, qual, tuple(ctx['held']), self_tok, repr(sorted(extra.items())))
        if key in self.memo or key in self.active:
            return self.ann(fn.returns)
        self.active.add(key)
        self.depth += 1
        if self.depth > 80:
            raise TieBroken(f"call depth > 80 at {qual}: unbounded nesting of locked objects?")
        self.visited_files.add(module)
        env = {}
        args = fn.args
        for a in args.posonlyargs + args.args + args.kwonlyargs:
            if a.arg == 'self':
                continue
            env[a.arg] = self.ann(a.annotation) if a.annotation is not None else extra.get(a.arg)
        sub = {
            'cls': owner, 'module': module, 'self_tok': self_tok, 'env': env,
            'held': list(ctx['held']),
            'chain': ctx['chain'] + [f"{qual} [{module}:{fn.lineno}]"] if len(ctx['chain']) < 12 else ctx['chain'],
            'fn': fn.name,
        }
        self.block(fn.body, sub)
        self.depth -= 1
        self.active.discard(key)
        self.memo.add(key)
        return self.ann(fn.returns)

    def block(self, stmts, ctx):
        # guard clause: `if q.full(): raise …` (no else, the body always leaves the block) guards the REST of the block
        # exactly as `if q.full(): raise … else: <rest>` would
        pushed = 0
        guards = ctx.setdefault('guards', [])
        for st in stmts:
            self.stmt(st, ctx)
            if isinstance(st, ast.If) and not st.orelse and st.body and \
                    isinstance(st.body[-1], (ast.Raise, ast.Return, ast.Continue, ast.Break)):
                g = self.full_guard(st.test)[1]
                if g:
                    guards.append((g, frozenset(ctx['held'])))
                    pushed += 1
        for _ in range(pushed):
            guards.pop()

    def stmt(self, st, ctx):
        if isinstance(st, ast.With):
            acquired = []
            for item in st.items:
                ce = item.context_expr
                if item.optional_vars is not None:
                    raise TieBroken(f"{self.loc(ctx, st)}: `with … as …` not understood")
                if not (isinstance(ce, ast.Attribute) and isinstance(ce.value, ast.Name) and ce.value.id == 'self'
                        and ctx['cls'] is not None):
                    raise TieBroken(f"{self.loc(ctx, st)}: `with {ast.unparse(ce)}` is not `with self.<lock>`")
                locks = self._lock_attrs(ctx['cls'])
                if ce.attr not in locks:
                    # the lock attribute may be defined by a subclass-independent ancestor only
                    raise TieBroken(f"{self.loc(ctx, st)}: `with self.{ce.attr}`: not an RLock attribute of {ctx['cls']}")
                lock_id = f"{locks[ce.attr]}.{ce.attr}"
                l, tok, new = self.acquire(ctx, lock_id, st)
                ctx['held'].append((l, tok))
                acquired.append(1)
            self.block(st.body, ctx)
            for _ in acquired:
                ctx['held'].pop()
            return
        if isinstance(st, ast.Expr):
            self.expr(st.value, ctx)
            return
        if isinstance(st, ast.Return):
            if st.value is not None:
                self.expr(st.value, ctx)
            return
        if isinstance(st, ast.Assign):
            t = self.expr(st.value, ctx)
            for tgt in st.targets:
                self.assign(tgt, t, ctx)
            return
        if isinstance(st, ast.AnnAssign):
            t = self.expr(st.value, ctx) if st.value is not None else None
            at = self.ann(st.annotation)
            self.assign(st.target, at if at is not None else t, ctx)
            return
        if isinstance(st, ast.AugAssign):
            self.expr(st.value, ctx)
            self.expr(st.target, ctx)
            self.assign(st.target, None, ctx, keep=True)
            return
        if isinstance(st, ast.If):
            self.expr(st.test, ctx)
            # `if not q.full(): q.put(x)` / `if q.full(): ... else: q.put(x)`: the put cannot block when every producer of
            # the queue runs under the lock held here (the consumer only makes room)
            g_body, g_else = self.full_guard(st.test)
            guards = ctx.setdefault('guards', [])
            if g_body:
                guards.append((g_body, frozenset(ctx['held'])))
            self.block(st.body, ctx)
            if g_body:
                guards.pop()
            if g_else:
                guards.append((g_else, frozenset(ctx['held'])))
            self.block(st.orelse, ctx)
            if g_else:
                guards.pop()
            return
        if isinstance(st, ast.While):
            self.expr(st.test, ctx)
            self.block(st.body, ctx)
            self.block(st.body, ctx)      # second pass: types assigned late in the body reach its start
            self.block(st.orelse, ctx)
            return
        if isinstance(st, ast.For):
            t = self.expr(st.iter, ctx)
            self.assign(st.target, self.elem(t), ctx)
            self.block(st.body, ctx)
            self.block(st.body, ctx)
            self.block(st.orelse, ctx)
            return
        if isinstance(st, ast.Try):
            self.block(st.body, ctx)
            for h in st.handlers:
                if h.type is not None:
                    pass
                if h.name:
                    ctx['env'][h.name] = T_ext('Exception')
                self.block(h.body, ctx)
            self.block(st.orelse, ctx)
            self.block(st.finalbody, ctx)
            return
        if isinstance(st, ast.Raise):
            if st.exc is not None:
                self.expr(st.exc, ctx)
            return
        if isinstance(st, ast.Delete):
            for t in st.targets:
                self.expr(t, ctx)
            return
        if isinstance(st, ast.Assert):
            self.expr(st.test, ctx)
            return
        if isinstance(st, (ast.Pass, ast.Break, ast.Continue, ast.Global, ast.Nonlocal)):
            return
        if isinstance(st, (ast.Import, ast.ImportFrom)):
            for a in st.names:
                nm = (a.asname or a.name).split('.')[0]
                self.mod_imports[ctx['module']].setdefault(nm, 'module' if isinstance(st, ast.Import) else 'ext')
            return
        raise TieBroken(f"{self.loc(ctx, st)}: statement kind {st.__class__.__name__} not understood")

    def assign(self, tgt, t, ctx, keep=False):
        if isinstance(tgt, ast.Name):
            if not keep:
                ctx['env'][tgt.id] = t
            return
        if isinstance(tgt, (ast.Tuple, ast.List)):
            for i, e in enumerate(tgt.elts):
                et = None
                if t is not None and t[0] == 'tuple' and i < len(t[1]):
                    et = t[1][i]
                elif t is not None and t[0] in ('list', 'union'):
                    et = self.elem(t)
                elif t is not None and t[0] == 'ext':
                    et = T_ext(f"{t[1]}[{i}]")
                self.assign(e, et, ctx, keep)
            return
        if isinstance(tgt, ast.Attribute):
            rt = self.expr(tgt.value, ctx)
            if self.is_self(tgt.value):
                self.note_access(ctx, tgt.attr, 'w', tgt)
            for c in self.cls_names(rt):
                for a, _, fn in self.impls(c, tgt.attr, 'setters'):
                    tok = ctx['self_tok'] if self.is_self(tgt.value) else self.token_for(c, self.loc(ctx, tgt), ctx['self_tok'], ctx['held'])
                    self.analyze_callable(a, fn, self.classes[a].module, tok, ctx, tgt)
            if rt is None and tgt.attr in self.lock_props:
                raise TieBroken(f"{self.loc(ctx, tgt)}: store to .{tgt.attr} on a receiver of unknown type")
            return
        if isinstance(tgt, ast.Subscript):
            if isinstance(tgt.value, ast.Attribute) and self.is_self(tgt.value.value):
                self.note_access(ctx, tgt.value.attr, 'w', tgt)          # self._x[k] = v
            self.expr(tgt.value, ctx)
            self.expr(tgt.slice, ctx)
            return
        if isinstance(tgt, ast.Starred):
            self.assign(tgt.value, None, ctx, keep)
            return
        raise TieBroken(f"{self.loc(ctx, tgt)}: assignment target {tgt.__class__.__name__}")

    @staticmethod
    def is_self(e):
        return isinstance(e, ast.Name) and e.id == 'self'

    def cls_names(self, t):
        if t is None:
            return []
        if t[0] == 'cls':
            return [t[1]]
        if t[0] == 'union':
            return [n for x in t[1] for n in self.cls_names(x)]
        return []

    # ------------------------------------------------------------------ expressions
    def expr(self, e, ctx):
        """abstractly evaluate e (following the calls it makes); returns its static type or None."""
        if e is None:
            return None
        if isinstance(e, ast.Constant):
            return T_ext(type(e.value).__name__)
        if isinstance(e, ast.Name):
            if e.id == 'self':
                return T_cls(ctx['cls']) if ctx['cls'] else None
            if e.id in ctx['env']:
                return ctx['env'][e.id]
            if e.id in self.classes:
                return T_ext('type')
            imp = self.mod_imports[ctx['module']].get(e.id)
            if imp == 'module':
                return ('module', e.id)
            if imp == 'ext':
                return ('extname', e.id)
            return None
        if isinstance(e, ast.Attribute):
            return self.attribute(e, ctx)
        if isinstance(e, ast.Call):
            return self.call(e, ctx)
        if isinstance(e, ast.Subscript):
            t = self.expr(e.value, ctx)
            self.expr(e.slice, ctx)
            if isinstance(e.slice, ast.Slice):
                return t
            if t is not None and t[0] == 'dict':
                return t[2]
            if t is not None and t[0] == 'tuple' and isinstance(e.slice, ast.Constant) \
                    and isinstance(e.slice.value, int) and 0 <= e.slice.value < len(t[1]):
                return t[1][e.slice.value]
            return self.elem(t)
        if isinstance(e, ast.Slice):
            for x in (e.lower, e.upper, e.step):
                self.expr(x, ctx)
            return None
        if isinstance(e, (ast.Tuple,)):
            return ('tuple', [self.expr(x, ctx) for x in e.elts])
        if isinstance(e, (ast.List, ast.Set)):
            return ('list', self.union([self.expr(x, ctx) for x in e.elts]) if e.elts else None)
        if isinstance(e, ast.Dict):
            ks = [self.expr(k, ctx) for k in e.keys if k is not None]
            vs = [self.expr(v, ctx) for v in e.values]
            return ('dict', self.union(ks) if ks else None, self.union(vs) if vs else None)
        if isinstance(e, (ast.ListComp, ast.SetComp, ast.GeneratorExp)):
            self.comprehension(e.generators, ctx)
            return ('list', self.expr(e.elt, ctx))
        if isinstance(e, ast.DictComp):
            self.comprehension(e.generators, ctx)
            return ('dict', self.expr(e.key, ctx), self.expr(e.value, ctx))
        if isinstance(e, ast.BoolOp):
            ts = [self.expr(v, ctx) for v in e.values]
            return self.union(ts)
        if isinstance(e, ast.BinOp):
            l = self.expr(e.left, ctx)
            r = self.expr(e.right, ctx)
            if l is not None and l == r:
                return l
            if l is not None and l[0] == 'list':
                return l
            return T_ext('value')
        if isinstance(e, ast.UnaryOp):
            self.expr(e.operand, ctx)
            return T_ext('value')
        if isinstance(e, ast.Compare):
            self.expr(e.left, ctx)
            for c in e.comparators:
                self.expr(c, ctx)
            return T_ext('bool')
        if isinstance(e, ast.IfExp):
            self.expr(e.test, ctx)
            return self.union([self.expr(e.body, ctx), self.expr(e.orelse, ctx)])
        if isinstance(e, ast.JoinedStr):
            for v in e.values:
                self.expr(v, ctx)
            return T_ext('str')
        if isinstance(e, ast.FormattedValue):
            self.expr(e.value, ctx)
            return T_ext('str')
        if isinstance(e, ast.Starred):
            return self.expr(e.value, ctx)
        if isinstance(e, ast.Lambda):
            return CALLABLE
        raise TieBroken(f"{self.loc(ctx, e)}: expression kind {e.__class__.__name__} not understood")

    def comprehension(self, gens, ctx):
        for g in gens:
            t = self.expr(g.iter, ctx)
            self.assign(g.target, self.elem(t), ctx)
            for c in g.ifs:
                self.expr(c, ctx)

    def attribute(self, e, ctx):
        rt = self.expr(e.value, ctx)
        if self.is_self(e.value) and isinstance(getattr(e, 'ctx', None), ast.Load):
            self.note_access(ctx, e.attr, 'r', e)
        if rt is None:
            if e.attr in self.lock_props:
                raise TieBroken(f"{self.loc(ctx, e)}: .{e.attr} read on a receiver of unknown type "
                                f"(`{ast.unparse(e.value)}`) and some lock-owning class has such a property")
            return None
        if rt[0] in ('module', 'extname'):
            return T_ext(ast.unparse(e))
        out = []
        names = self.cls_names(rt)
        if not names:
            return None
        for c in names:
            getters = self.impls(c, e.attr, 'props')
            if getters:
                for a, _, fn in getters:
                    tok = ctx['self_tok'] if self.is_self(e.value) else \
                        self.token_for(c, self.loc(ctx, e), ctx['self_tok'], ctx['held'])
                    out.append(self.analyze_callable(a, fn, self.classes[a].module, tok, ctx, e))
                continue
            t, found = self.attr_type(c, e.attr)
            if found:
                out.append(t)
                continue
            if self.impls(c, e.attr, 'methods'):
                out.append(('bound', c, e.attr))
                continue
            out.append(None)
        return self.union(out) if all(o is not None for o in out) else None

    MUTATORS = {'append', 'appendleft', 'extend', 'extendleft', 'insert', 'pop', 'popleft', 'popitem', 'remove', 'clear',
                'update', 'setdefault', 'add', 'discard', 'sort', 'reverse', 'rotate'}

    def call(self, e, ctx):
        f = e.func
        if isinstance(f, ast.Attribute) and f.attr in self.MUTATORS and isinstance(f.value, ast.Attribute) \
                and self.is_self(f.value.value):
            self.note_access(ctx, f.value.attr, 'w', e)
        argtypes = [self.expr(a, ctx) for a in e.args]
        kwtypes = {}
        for k in e.keywords:
            kt = self.expr(k.value, ctx)
            if k.arg:
                kwtypes[k.arg] = kt
        # ---- plain names
        if isinstance(f, ast.Name):
            n = f.id
            if n in ctx['env']:
                t = ctx['env'][n]
                self.note_assumption(ctx, f"user callable `{n}(…)`", e)
                return None
            if n in self.classes:
                tok = self.token_for(n, self.loc(ctx, e), ctx['self_tok'], ctx['held'])
                for a, _, fn in self.impls_exact(n, '__init__'):
                    self.analyze_callable(a, fn, self.classes[a].module, tok, ctx, e)
                return T_cls(n)
            if n in self.functions and self.mod_imports[ctx['module']].get(n) != 'ext':
                fn, mod = self.functions[n]
                return self.analyze_callable(None, fn, mod, ctx['self_tok'], ctx, e, argtypes, kwtypes)
            if n in BUILTINS or n in EXC_NAMES:
                if n in ('tuple', 'list', 'sorted', 'reversed', 'set') and argtypes and argtypes[0] is not None:
                    el = self.elem(argtypes[0])
                    return ('list', el)
                if n == 'enumerate' and argtypes:
                    return ('list', ('tuple', [T_ext('int'), self.elem(argtypes[0])]))
                if n == 'zip':
                    return ('list', ('tuple', [self.elem(a) for a in argtypes]))
                if n in ('max', 'min', 'next') and len(argtypes) == 1:
                    return self.elem(argtypes[0])
                if n in ('filter',) and len(argtypes) == 2:
                    return argtypes[1]
                if n in ('getattr', 'next', 'iter', 'map', 'max', 'min', 'filter', 'type', 'object'):
                    return None          # could be anything: a bobocep method called on it is refused
                return T_ext(n)
            if self.mod_imports[ctx['module']].get(n) == 'ext':
                return T_ext(n)      # e.g. RLock(), Queue(), Thread(), time(), dumps(), get_random_bytes()
            raise TieBroken(f"{self.loc(ctx, e)}: call of unknown name `{n}`")
        # ---- attribute calls
        if isinstance(f, ast.Attribute):
            m = f.attr
            if m in ('acquire', 'release'):
                raise TieBroken(f"{self.loc(ctx, e)}: explicit {m}() — only `with` blocks are understood")
            # super().m(...)
            if isinstance(f.value, ast.Call) and isinstance(f.value.func, ast.Name) and f.value.func.id == 'super':
                if ctx['cls'] is None:
                    raise TieBroken(f"{self.loc(ctx, e)}: super() outside a class")
                anc = self._ancestors(ctx['cls'])[1:]
                for a in anc:
                    if m in self.classes[a].methods:
                        return self.analyze_callable(a, self.classes[a].methods[m], self.classes[a].module,
                                                     ctx['self_tok'], ctx, e)
                return None          # object.__init__ etc.
            rt = self.expr(f.value, ctx)
            if rt is not None and rt[0] in ('module', 'extname'):
                return T_ext(ast.unparse(f))          # socket.socket(...), json.loads(...), logging.debug(...)
            if rt is not None and rt[0] == 'bound':
                return None
            names = self.cls_names(rt)
            if names:
                outs = []
                for c in names:
                    impls = self.impls(c, m, 'methods')
                    if not impls:
                        getters = self.impls(c, m, 'props')
                        if getters:
                            gts = []
                            for a, _, fn in getters:
                                tok = ctx['self_tok'] if self.is_self(f.value) else \
                                    self.token_for(c, self.loc(ctx, e), ctx['self_tok'], ctx['held'])
                                gts.append(self.analyze_callable(a, fn, self.classes[a].module, tok, ctx, e))
                            if all(g == CALLABLE for g in gts):
                                self.note_assumption(ctx, f"user callable returned by property `{c}.{m}`", e)
                                outs.append(None)
                                continue
                            raise TieBroken(f"{self.loc(ctx, e)}: call of property `{c}.{m}` that is not a Callable")
                        at, found = self.attr_type(c, m)
                        if found:
                            self.note_assumption(ctx, f"user callable stored in `{c}.{m}`", e)
                            outs.append(None)
                            continue
                        if self.is_open(c):
                            self.note_assumption(ctx, f"user implementation of `{c}.{m}`", e)
                            outs.append(None)
                            continue
                        raise TieBroken(f"{self.loc(ctx, e)}: `{c}.{m}` has no implementation in bobocep")
                    if self.is_abstract_in(c, m):
                        self.note_assumption(ctx, f"user subclass of `{c}` overriding `{m}`", e)
                    for a, _, fn in impls:
                        tok = ctx['self_tok'] if self.is_self(f.value) else \
                            self.token_for(a, self.loc(ctx, e), ctx['self_tok'], ctx['held'])
                        outs.append(self.analyze_callable(a, fn, self.classes[a].module, tok, ctx, e,
                                                          argtypes, kwtypes))
                return self.union(outs) if all(o is not None for o in outs) else None
            if rt == CALLABLE:
                return None
            if rt is not None and rt[0] == 'ext':
                for (tn, mm) in sorted(BLOCKING):
                    if mm == m and tn.split('.')[-1] in rt[1].replace('[', '.').split('.'):
                        self.note_blocking(ctx, f"{tn}.{m}()", e)
                        if m == 'join':
                            j = self.joins.setdefault((ast.unparse(f.value), tn, self.loc(ctx, e)), {'held': set(), 'roles': set()})
                            j['held'] |= {l for l, _ in ctx['held']}
                            j['roles'].add(self.role)
                        if tn == 'Queue':
                            self.note_queue_wait(ctx, m, e)
                return T_ext(rt[1] + '.' + m)
            if rt is not None and rt[0] in ('list', 'dict', 'tuple'):
                if rt[0] == 'dict':
                    if m == 'values':
                        return ('list', rt[2])
                    if m == 'keys':
                        return ('list', rt[1])
                    if m == 'items':
                        return ('list', ('tuple', [rt[1], rt[2]]))
                    if m in ('get', 'pop', 'setdefault'):
                        return rt[2]
                    if m == 'copy':
                        return rt
                if rt[0] == 'list' and m in ('pop', 'popleft'):
                    return rt[1]
                if rt[0] == 'list' and m == 'copy':
                    return rt
                return T_ext(rt[0] + '.' + m)
            # receiver of unknown type / Any
            if m in self.method_names:
                raise TieBroken(f"{self.loc(ctx, e)}: `{ast.unparse(f)}(…)`: receiver type unknown and some bobocep "
                                f"class defines `{m}`")
            if m in BLOCKING_UNTYPED:
                self.note_blocking(ctx, f"socket.{m}() (untyped receiver)", e)
            return None
        # ---- anything else being called
        t = self.expr(f, ctx)
        if t == CALLABLE:
            self.note_assumption(ctx, f"user callable `{ast.unparse(f)}`", e)
            return None
        raise TieBroken(f"{self.loc(ctx, e)}: call of `{ast.unparse(f)}` not understood")

    def impls_exact(self, cls, name):
        for a in self._ancestors(cls):
            if name in self.classes[a].methods:
                return [(a, name, self.classes[a].methods[name])]
        return []

    # ------------------------------------------------------------------ wiring
    def wiring(self):
        """publisher class -> subscriber class pairs from the `X.subscribe(Y)` calls of the wiring sites;
        each is checked to be covered by the class-hierarchy resolution of the callbacks."""
        out = []
        for cname, mname in WIRING_SITES:
            if cname not in self.classes or mname not in self.classes[cname].methods:
                raise TieBroken(f"wiring site {cname}.{mname} not found")
            fn = self.classes[cname].methods[mname]
            self.visited_files.add(self.classes[cname].module)
            env = {a.arg: self.ann(a.annotation) for a in fn.args.args if a.arg != 'self'}
            # annotated locals and self attributes
            for s in ast.walk(fn):
                if isinstance(s, ast.AnnAssign) and isinstance(s.target, ast.Name):
                    env[s.target.id] = self.ann(s.annotation)

            def ty(x):
                if isinstance(x, ast.Name):
                    return env.get(x.id)
                if isinstance(x, ast.Attribute):
                    b = ty(x.value) if not self.is_self(x.value) else T_cls(cname)
                    for c in self.cls_names(b):
                        t, found = self.attr_type(c, x.attr)
                        if found:
                            return t
                        g = self.impls(c, x.attr, 'props')
                        if g:
                            return self.ann(g[0][2].returns)
                    return None
                return None
            for s in ast.walk(fn):
                if isinstance(s, ast.Call) and isinstance(s.func, ast.Attribute) and s.func.attr == 'subscribe':
                    p, q = ty(s.func.value), ty(s.args[0]) if s.args else None
                    if not self.cls_names(p) or not self.cls_names(q):
                        raise TieBroken(f"{cname}.{mname}: cannot type `{ast.unparse(s)}`")
                    out.append((self.cls_names(p)[0], self.cls_names(q)[0]))
        # coverage: the subscriber's class must be a subclass of the element type of publisher._subscribers
        for p, q in out:
            t, found = self.attr_type(p, '_subscribers')
            el = self.elem(t)
            ok = any(q in self.subs.get(c, ()) for c in self.cls_names(el))
            if not ok:
                raise TieBroken(f"wiring {p} -> {q}: {q} is not a subclass of the subscriber type of {p}._subscribers")
        return out

    # ------------------------------------------------------------------ driver
    def run(self):
        wiring = self.wiring()
        for role, eps in ROLES:
            self.role = role
            for ep in eps:
                ctx = {'cls': None, 'module': '<entry>', 'self_tok': 'root', 'env': {}, 'held': [],
                       'chain': [f"<{role}>"]}
                if '.' in ep:
                    c, m = ep.split('.')
                    if c not in self.classes:
                        raise TieBroken(f"entry point {ep}: class not found")
                    impls = self.impls(c, m, 'methods')
                    if not impls:
                        raise TieBroken(f"entry point {ep}: method not found")
                    for a, _, fn in impls:
                        self.analyze_callable(a, fn, self.classes[a].module, self.token_for(c, ep, 'root'), ctx, fn)
                else:
                    if ep not in self.functions:
                        raise TieBroken(f"entry point {ep}: function not found")
                    fn, mod = self.functions[ep]
                    self.analyze_callable(None, fn, mod, 'root', ctx, fn)
        return wiring


def all_locks(ex):
    out = {}
    for c, ci in ex.classes.items():
        for l in ci.locks:
            # source location of the creating assignment
            line = 0
            for s in ast.walk(ci.node):
                if isinstance(s, (ast.AnnAssign, ast.Assign)):
                    tgt = s.target if isinstance(s, ast.AnnAssign) else s.targets[0]
                    if isinstance(tgt, ast.Attribute) and tgt.attr == l and isinstance(s.value, ast.Call) \
                            and ast.unparse(s.value.func).endswith('RLock'):
                        line = s.lineno
            out[f"{c}.{l}"] = f"{ci.module}:{line}"
    return out


def extract(repo: Path):
    ex = Extractor(Path(repo))
    wiring = ex.run()
    locks = all_locks(ex)
    names = sorted(locks)
    if GATE not in names:
        raise TieBroken(f"gate lock {GATE} not found")
    ids = {n: i for i, n in enumerate(names)}
    entries = []
    for (H, x), info in ex.entries.items():
        entries.append((sorted(ids[h] for h in H), ids[x], sorted(info['roles']), info['chain']))
    entries.sort(key=lambda t: (t[1], t[0]))
    # who is waited for at each join: `self.<attr>.join()` with `<attr> = Thread(target=self.<m>)` somewhere in the class ->
    # the role whose entry point is <Class>.<m>; a pool's join waits for the workers
    entry_role = {ep: role for role, eps in ROLES for ep in eps}
    thread_target = {}
    for cname, ci in ex.classes.items():
        for node in ast.walk(ci.node):
            if isinstance(node, (ast.Assign, ast.AnnAssign)) and isinstance(node.value, ast.Call) \
                    and ast.unparse(node.value.func).split('.')[-1] == 'Thread':
                tgt = node.target if isinstance(node, ast.AnnAssign) else node.targets[0]
                for kw in node.value.keywords:
                    if kw.arg == 'target' and isinstance(tgt, ast.Attribute):
                        thread_target[ast.unparse(tgt)] = (cname, ast.unparse(kw.value).split('.')[-1])
    join_holds = []
    for (recv, kind, where), j in sorted(ex.joins.items()):
        if kind in ('Pool', 'ThreadPool'):
            target = 'worker'
        elif recv in thread_target:
            cname, m = thread_target[recv]
            cands = [r for ep, r in entry_role.items() if ep.split('.')[-1] == m and (ep.split('.')[0] == cname or cname in ep)]
            if not cands:
                raise TieBroken(f"{where}: `{recv}.join()` waits for a thread running {cname}.{m}, which is no entry point of a thread role")
            target = cands[0]
        else:
            raise TieBroken(f"{where}: cannot tell which thread `{recv}.join()` waits for")
        for h in sorted(j['held']):
            join_holds.append((ids[h], target, f"{recv}.join() [{where}] by {'+'.join(sorted(j['roles']))}"))
    role_acqs = sorted({(r, x) for (_H, x, roles, _c) in entries for r in roles})
    return {
        'join_holds': join_holds,
        'role_acqs': role_acqs,
        'locks': [(ids[n], n, locks[n]) for n in names],
        'gate': ids[GATE],
        'entries': entries,
        'wiring': wiring,
        'assumptions': sorted((k + ' under a subset of {' + ','.join(sorted(v['held'])) + '}', sorted(v['roles']))
                              for k, v in ex.assumptions.items()),
        'blocking': sorted((k, sorted(v)) for k, v in ex.blocking.items()),
        'unguarded': sorted((k[0], k[1], sorted(v)) for k, v in ex.unguarded.items()),
        # fields of lock-owning classes that are written after construction and touched somewhere without the owner's lock
        'unlocked': sorted((c, a, k, sorted(v['unlocked'])) for (c, a, k), v in ex.accesses.items()
                           if v['unlocked'] and not ex.init_only.get((c, a), True)),
        'reentries': sorted((k[0], k[1], sorted(v)) for k, v in ex.reentries.items()),
        'files': sorted(ex.visited_files - {'<entry>'}),
        'sources': ex.sources,
    }


def render(g):
    L = []
    L.append("-- GENERATED by translate/locks.py from the `with self.<lock>` nesting and call graph of bobocep/ — do not edit.")
    L.append("import BoboVerif.Model.Locks")
    L.append("namespace Bobo.Gen.Locks")
    L.append("open Bobo.Locks")
    L.append("")
    L.append("/-- lock classes: id, `Class.attr` (where the RLock is created). -/")
    L.append("def lockNames : List (Nat × String) := [")
    L.append(",\n".join(f'  ({i}, "{n}")  -- {loc}' if False else f'  ({i}, "{n}")' for i, n, loc in g['locks']))
    L.append("]")
    for i, n, loc in g['locks']:
        L.append(f"-- lock {i} = {n} created at {loc}")
    L.append("")
    L.append(f"/-- the gate: {GATE} (held by the engine thread for a whole update cycle). -/")
    L.append(f"def gate : Nat := {g['gate']}")
    L.append("")
    L.append("/-- (lock classes held, lock class newly acquired), over all thread roles. -/")
    L.append("def acqs : List Entry := [")
    rows = []
    for H, x, roles, chain in g['entries']:
        rows.append(f"  -- roles: {', '.join(roles)}\n  -- {chain}\n  ([{', '.join(map(str, H))}], {x})")
    L.append(",\n".join(rows))
    L.append("]")
    L.append("")
    L.append("/-- the subscribe graph (publisher, subscriber) read from BoboEngine.__init__ and BoboSetupSimpleDistributed.generate. -/")
    L.append("def wiring : List (String × String) := [" + ", ".join(f'("{p}", "{q}")' for p, q in g['wiring']) + "]")
    L.append("")
    L.append("-- same-object re-acquisitions (re-entrant, no entry):")
    for l, loc, roles in g['reentries']:
        L.append(f"--   {l} at {loc} ({', '.join(roles)})")
    L.append("-- ASSUMPTIONS: user code executed while a bobocep lock is held (must not take bobocep locks):")
    for a, roles in g['assumptions']:
        L.append(f"--   {a} ({', '.join(roles)})")
    L.append("-- BLOCKING operations that are not locks:")
    for a, roles in g['blocking']:
        L.append(f"--   {a} ({', '.join(roles)})")
    L.append("")
    L.append("/-- queue operations that can WAIT for another thread (a blocking `Queue.put` outside a `not full()` guard on the")
    L.append("same queue, a blocking `Queue.get`), with the locks held: (what and where, locks held). -/")
    L.append("def queueWaits : List (String × String) := [" + ", ".join(f'("{w}", "{h}")' for w, h, _ in g['unguarded']) + "]")
    L.append("")
    L.append("/-- a thread of one of the property's OWN roles (engine, feeder, dist_main, dist_incoming, dist_outgoing, worker) waits")
    L.append("for another thread to END (`Thread.join`, `Pool.join`) while holding a lock: (what and where with the locks held, roles).")
    L.append("The thread waited for may need that lock, or a lock held by a third thread that needs it, before it can end.  (The")
    L.append("`controller` role -- an application thread calling close() / join() -- is outside C08's statement; its joins are listed")
    L.append("in the comment above.) -/")
    joinw = [(a, roles) for a, roles in g['blocking'] if '.join()' in a and 'holding {}' not in a
             and any(r != 'controller' for r in roles)]
    L.append("def joinWaits : List (String × String) := [" + ", ".join(
        '("%s", "%s")' % (a.replace('"', "'"), ' '.join(r for r in roles if r != 'controller')) for a, roles in joinw) + "]")
    L.append("")
    L.append("/-- a thread (of ANY role, the application's controller thread included) waits for another thread to END while it holds a")
    L.append("lock: (lock held, role of the thread waited for, where).  If that thread ever needs the lock, neither gets on. -/")
    L.append("def joinHolds : List (Nat × String × String) := [" + ", ".join(
        '(%d, "%s", "%s")' % (l, r, w.replace('"', "'")) for l, r, w in g['join_holds']) + "]")
    L.append("")
    L.append("/-- (thread role, lock class it acquires somewhere), from `acqs`. -/")
    L.append("def roleAcqs : List (String × Nat) := [" + ", ".join('("%s", %d)' % (r, x) for r, x in g['role_acqs']) + "]")
    L.append("")
    L.append("/-- fields of lock-owning classes that are written after construction and, on some path from a thread role's entry")
    L.append("point, read or written WITHOUT (one of) the owning object's own lock(s) held: (class, field, r/w, where).  The")
    L.append("sequential models treat every public method as one atomic step; that is justified when this table is empty. -/")
    L.append("def unlockedAccesses : List (String × String × String × String) := [" + ", ".join(
        f'("{c}", "{a}", "{k}", "{" ".join(w)}")' for c, a, k, w in g['unlocked']) + "]")
    L.append("end Bobo.Gen.Locks")
    return "\n".join(L) + "\n"


def translate(repo):
    g = extract(Path(repo))
    hashes = {f + '::lock-structure': sha(g['sources'][f]) for f in g['files']}
    return {OUT: render(g)}, hashes
