"""
Restricted Python-AST -> Lean expression translator shared by the fragment
translators.  It refuses (raises TieBroken) anything outside its subset; it
never guesses.
"""
import ast
import hashlib


class TieBroken(Exception):
    """the source fragment no longer fits the translatable subset"""


def sha(src: str) -> str:
    return hashlib.sha256(src.encode()).hexdigest()


def find_class(tree, name):
    for n in tree.body:
        if isinstance(n, ast.ClassDef) and n.name == name:
            return n
    raise TieBroken(f"class {name} not found")


def find_func(node, name):
    for n in node.body:
        if isinstance(n, (ast.FunctionDef,)) and n.name == name:
            return n
    raise TieBroken(f"function {name} not found")


def strip_doc(body):
    if body and isinstance(body[0], ast.Expr) and isinstance(getattr(body[0], 'value', None), ast.Constant) \
            and isinstance(body[0].value.value, str):
        return body[1:]
    return body


def strip_logging(body):
    """drop `logging.xxx(...)` expression statements (no semantic effect)."""
    out = []
    for st in body:
        if isinstance(st, ast.Expr) and isinstance(st.value, ast.Call):
            f = st.value.func
            if isinstance(f, ast.Attribute) and isinstance(f.value, ast.Name) and f.value.id == 'logging':
                continue
        out.append(st)
    return out


class ExprT:
    """
    Translate int/bool expressions.  `names` maps a dotted Python name
    (e.g. 'self._last', 'now') to a Lean term; unknown names are refused.
    """

    def __init__(self, names, calls=None):
        self.names = names
        self.calls = calls or {}

    def dotted(self, e):
        if isinstance(e, ast.Name):
            return e.id
        if isinstance(e, ast.Attribute):
            return self.dotted(e.value) + '.' + e.attr
        raise TieBroken("not a dotted name: " + ast.dump(e))

    def tr(self, e):
        if isinstance(e, ast.Constant):
            if isinstance(e.value, bool):
                return 'true' if e.value else 'false'
            if isinstance(e.value, int):
                return f"({e.value})" if e.value < 0 else str(e.value)
            raise TieBroken("constant " + repr(e.value))
        if isinstance(e, (ast.Name, ast.Attribute)):
            d = self.dotted(e)
            if d in self.names:
                return self.names[d]
            raise TieBroken("unknown name " + d)
        if isinstance(e, ast.BoolOp):
            op = ' && ' if isinstance(e.op, ast.And) else ' || '
            return '(' + op.join(self.tr(v) for v in e.values) + ')'
        if isinstance(e, ast.UnaryOp):
            if isinstance(e.op, ast.Not):
                return '(!' + self.tr(e.operand) + ')'
            if isinstance(e.op, ast.USub):
                return '(-' + self.tr(e.operand) + ')'
            raise TieBroken("unary " + ast.dump(e.op))
        if isinstance(e, ast.BinOp):
            ops = {ast.Add: '+', ast.Sub: '-', ast.Mult: '*', ast.Mod: '%', ast.FloorDiv: '/', ast.BitAnd: '&&&'}
            for k, v in ops.items():
                if isinstance(e.op, k):
                    return f"({self.tr(e.left)} {v} {self.tr(e.right)})"
            raise TieBroken("binop " + ast.dump(e.op))
        if isinstance(e, ast.Compare):
            if len(e.ops) != 1:
                # a <= b <= c
                parts = []
                left = e.left
                for op, right in zip(e.ops, e.comparators):
                    parts.append(self.cmp(left, op, right))
                    left = right
                return '(' + ' && '.join(parts) + ')'
            return self.cmp(e.left, e.ops[0], e.comparators[0])
        if isinstance(e, ast.Call):
            d = self.dotted(e.func)
            if d in self.calls:
                return self.calls[d](self, e)
            raise TieBroken("call " + d)
        raise TieBroken("expression " + ast.dump(e))

    def cmp(self, l, op, r):
        ops = {ast.Eq: '==', ast.NotEq: '!=', ast.Lt: '<', ast.LtE: '<=', ast.Gt: '>', ast.GtE: '>=', ast.Is: '==', ast.IsNot: '!='}
        for k, v in ops.items():
            if isinstance(op, k):
                return f"(decide ({self.tr(l)} {v.replace('==', '=').replace('!=', '≠').replace('<=', '≤').replace('>=', '≥')} {self.tr(r)}))"
        raise TieBroken("compare " + ast.dump(op))
