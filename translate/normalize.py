"""
Semantics-preserving normalisation of a Python source file, applied before the
fragment translators look at it, so that edits which cannot change behaviour
do not break tie G:

  * local variables renamed consistently inside one function are renamed back
    to the names recorded for the pinned tree (`pinned_locals.json`: per
    function, the local names in order of first binding).  Only a pure
    renaming is undone — same number of bindings, in the same order; the new
    and the recorded name must both be plain locals (never parameters,
    imports, nested function names, `global`/`nonlocal` names) and the recorded
    name must not occur anywhere else in the function;
  * bare local annotations (`x: T` without a value) inside function bodies are
    dropped (they are never evaluated for locals);
  * `logging.<level>(...)` expression statements whose arguments are built only
    from names, attributes, constants, f-strings, `.format(...)`, `str`, `repr`,
    `len`, `type` are dropped (no effect on state);
  * `return None` becomes `return`.

Docstrings and comments are ignored by the translators anyway.  Everything
else is left to the translators, which refuse what they do not understand.
The normaliser never *accepts* anything: it only rewrites the tree into an
equivalent one; positions are kept so that `ast.get_source_segment` still
returns the original text (used for the fragment hashes).
"""
import ast
import json
from pathlib import Path

_PIN = Path(__file__).with_name('pinned_locals.json')
_PURE_CALLS = {'str', 'repr', 'len', 'type', 'int'}


def _functions(tree):
    """yield (qualname, FunctionDef) for module-level functions and methods (one level of classes, nested classes too)."""
    def rec(body, prefix):
        for n in body:
            if isinstance(n, (ast.FunctionDef, ast.AsyncFunctionDef)):
                yield prefix + n.name, n
            elif isinstance(n, ast.ClassDef):
                yield from rec(n.body, prefix + n.name + '.')
    yield from rec(tree.body, '')


def _params(fn):
    a = fn.args
    out = [x.arg for x in a.posonlyargs + a.args + a.kwonlyargs]
    if a.vararg:
        out.append(a.vararg.arg)
    if a.kwarg:
        out.append(a.kwarg.arg)
    return out


def bindings(fn):
    """
    [(name, kind)] in order of first binding inside `fn` (nested defs are opaque: only their name is a binding).
    kind: 'local' (assignment / for / with / except / comprehension / walrus target) or 'fixed' (import, def, class).
    Also returns the set of every identifier occurring in the function and the set of global/nonlocal names.
    """
    found = []      # (lineno, col, name, kind)
    idents = set(_params(fn))
    declared = set()
    comp_only = {}  # name -> list of comprehension nodes binding it

    def visit(n, comp=None):
        if isinstance(n, (ast.FunctionDef, ast.AsyncFunctionDef, ast.ClassDef)) and n is not fn:
            found.append((n.lineno, n.col_offset, n.name, 'fixed'))
            idents.add(n.name)
            # identifiers used inside nested scopes still matter for capture
            for m in ast.walk(n):
                if isinstance(m, ast.Name):
                    idents.add(m.id)
                elif isinstance(m, ast.arg):
                    idents.add(m.arg)
            return
        if isinstance(n, ast.Lambda):
            for m in ast.walk(n):
                if isinstance(m, ast.Name):
                    idents.add(m.id)
                elif isinstance(m, ast.arg):
                    idents.add(m.arg)
            return
        if isinstance(n, (ast.Global, ast.Nonlocal)):
            declared.update(n.names)
        if isinstance(n, (ast.Import, ast.ImportFrom)):
            for al in n.names:
                nm = (al.asname or al.name).split('.')[0]
                found.append((n.lineno, n.col_offset, nm, 'fixed'))
                idents.add(nm)
        if isinstance(n, ast.ExceptHandler) and n.name:
            found.append((n.lineno, n.col_offset, n.name, 'local'))
            idents.add(n.name)
        if isinstance(n, ast.Name):
            idents.add(n.id)
            if isinstance(n.ctx, (ast.Store, ast.Del)):
                found.append((n.lineno, n.col_offset, n.id, 'comp' if comp is not None else 'local'))
        is_comp = isinstance(n, (ast.ListComp, ast.SetComp, ast.DictComp, ast.GeneratorExp))
        for c in ast.iter_child_nodes(n):
            visit(c, n if is_comp else comp)

    for st in fn.body:
        visit(st)
    found.sort(key=lambda t: (t[0], t[1]))
    order, seen = [], {}
    for _, _, name, kind in found:
        if name not in seen:
            seen[name] = kind
            order.append(name)
        elif kind == 'fixed' or (seen[name] == 'comp' and kind == 'local'):
            seen[name] = kind if kind == 'fixed' else 'local'
    params = set(_params(fn))
    res = []
    for name in order:
        k = seen[name]
        if name in params or name in declared:
            k = 'fixed'
        res.append((name, 'local' if k == 'comp' else k, k == 'comp'))
    return res, idents, declared


def _assignments(fn):
    """simple assignment statements `x = v` / `x: T = v` to a plain name, in source order, nested defs excluded."""
    out = []

    def visit(n):
        if isinstance(n, (ast.FunctionDef, ast.AsyncFunctionDef, ast.ClassDef, ast.Lambda)) and n is not fn:
            return
        if isinstance(n, ast.AnnAssign) and isinstance(n.target, ast.Name) and n.value is not None:
            out.append(n)
        elif isinstance(n, ast.Assign) and len(n.targets) == 1 and isinstance(n.targets[0], ast.Name):
            out.append(n)
        for c in ast.iter_child_nodes(n):
            visit(c)
    for st in fn.body:
        visit(st)
    out.sort(key=lambda n: (n.lineno, n.col_offset))
    return out


def _ann_record(fn):
    """{name: [annotation text or None per assignment occurrence]}"""
    rec = {}
    for n in _assignments(fn):
        if isinstance(n, ast.AnnAssign):
            rec.setdefault(n.target.id, []).append(ast.unparse(n.annotation))
        else:
            rec.setdefault(n.targets[0].id, []).append(None)
    return rec


def pin(repo: Path, files):
    """record the local names (and which local assignments carry an annotation) of every function of `files`."""
    out = {}
    for rel in files:
        tree = _Strip().visit(ast.parse((repo / rel).read_text()))
        out[rel] = {q: {'names': [n for n, _, _ in bindings(fn)[0]], 'ann': _ann_record(fn)} for q, fn in _functions(tree)}
    return out


def _pinned():
    if _PIN.exists():
        return json.loads(_PIN.read_text())
    return {}


class _Rename(ast.NodeTransformer):
    def __init__(self, m):
        self.m = m

    def visit_Name(self, n):
        if n.id in self.m:
            n.id = self.m[n.id]
        return n

    def visit_ExceptHandler(self, n):
        if n.name in self.m:
            n.name = self.m[n.name]
        self.generic_visit(n)
        return n


def _rename_locals(fn, pinned_names):
    cur, idents, _ = bindings(fn)
    if len(cur) != len(pinned_names):
        return
    mapping = {}
    for (name, kind, comp_only), want in zip(cur, pinned_names):
        if name == want:
            continue
        if kind != 'local':
            return                      # a parameter / import / nested def changed name: not a local renaming
        mapping[name] = want
    if not mapping:
        return
    if len(set(mapping.values())) != len(mapping):
        return
    fixed = {n for n, k, _ in cur if k != 'local'}
    for new, want in mapping.items():
        if want in fixed:
            return
        if want in idents and want not in mapping:
            return                      # the recorded name is used for something else now: renaming would capture it
    # a comprehension-only variable must not also be read outside comprehensions (there it would be a global)
    comp_only = {n for n, _, c in cur if c}
    if comp_only & set(mapping):
        inside = set()
        for n in ast.walk(fn):
            if isinstance(n, (ast.ListComp, ast.SetComp, ast.DictComp, ast.GeneratorExp)):
                inside.update(id(m) for m in ast.walk(n) if isinstance(m, ast.Name))
        for n in ast.walk(fn):
            if isinstance(n, ast.Name) and n.id in comp_only and n.id in mapping and id(n) not in inside:
                return
    r = _Rename(mapping)
    fn.body = [r.visit(st) for st in fn.body]


class _Ann(ast.NodeTransformer):
    """give every simple local assignment the annotation (or none) its counterpart has in the pinned tree.  Annotations
    of plain local names are never evaluated, so adding, dropping or changing one cannot change behaviour."""

    def __init__(self, fn, rec):
        self.fn = fn
        self.rec = rec
        self.k = {}
        self.order = {id(n) for n in _assignments(fn)}

    def _want(self, name):
        i = self.k.get(name, 0)
        self.k[name] = i + 1
        lst = self.rec.get(name, [])
        return lst[i] if i < len(lst) else None

    def visit_FunctionDef(self, n):
        if n is self.fn:
            self.generic_visit(n)
        return n

    visit_AsyncFunctionDef = visit_FunctionDef

    def visit_ClassDef(self, n):
        return n

    def visit_Lambda(self, n):
        return n

    def visit_AnnAssign(self, n):
        if id(n) not in self.order:
            return n
        want = self._want(n.target.id)
        if want is None:
            a = ast.Assign(targets=[n.target], value=n.value, type_comment=None)
            return ast.copy_location(a, n)
        if ast.unparse(n.annotation) != want:
            n.annotation = ast.copy_location(ast.parse(want, mode='eval').body, n.annotation)
            ast.fix_missing_locations(n.annotation)
        return n

    def visit_Assign(self, n):
        if id(n) not in self.order:
            return n
        want = self._want(n.targets[0].id)
        if want is None:
            return n
        ann = ast.parse(want, mode='eval').body
        a = ast.AnnAssign(target=n.targets[0], annotation=ann, value=n.value, simple=1)
        ast.copy_location(a, n)
        ast.fix_missing_locations(a)
        return a


class _FStr(ast.NodeTransformer):
    """f'..{a}..{b!r}..' -> '..{}..{!r}..'.format(a, b): both call format(value, spec) on each value, left to right."""

    def visit_JoinedStr(self, n):
        self.generic_visit(n)
        fmt, args = '', []
        for v in n.values:
            if isinstance(v, ast.Constant) and isinstance(v.value, str):
                fmt += v.value.replace('{', '{{').replace('}', '}}')
            elif isinstance(v, ast.FormattedValue):
                spec = ''
                if v.format_spec is not None:
                    fs = v.format_spec
                    if not (isinstance(fs, ast.JoinedStr) and all(isinstance(x, ast.Constant) for x in fs.values)):
                        return n
                    spec = ':' + ''.join(x.value for x in fs.values)
                conv = {-1: '', 115: '!s', 114: '!r', 97: '!a'}.get(v.conversion)
                if conv is None:
                    return n
                fmt += '{' + conv + spec + '}'
                args.append(v.value)
            else:
                return n
        if not args:
            return ast.copy_location(ast.Constant(value=fmt.replace('{{', '{').replace('}}', '}')), n)
        c = ast.Call(func=ast.Attribute(value=ast.Constant(value=fmt), attr='format', ctx=ast.Load()), args=args, keywords=[])
        ast.copy_location(c, n)
        ast.fix_missing_locations(c)
        return c


def _pure(e) -> bool:
    if isinstance(e, (ast.Name, ast.Constant)):
        return True
    if isinstance(e, ast.Attribute):
        return _pure(e.value)
    if isinstance(e, ast.JoinedStr):
        return all(_pure(v) for v in e.values)
    if isinstance(e, ast.FormattedValue):
        return _pure(e.value)
    if isinstance(e, ast.BinOp) and isinstance(e.op, (ast.Add, ast.Mod)):
        return _pure(e.left) and _pure(e.right)
    if isinstance(e, ast.Tuple):
        return all(_pure(v) for v in e.elts)
    if isinstance(e, ast.Call):
        f = e.func
        ok = (isinstance(f, ast.Name) and f.id in _PURE_CALLS) or \
             (isinstance(f, ast.Attribute) and f.attr == 'format' and _pure(f.value))
        return ok and all(_pure(a) for a in e.args) and all(_pure(k.value) for k in e.keywords)
    return False


def _is_pure_logging(st) -> bool:
    if not (isinstance(st, ast.Expr) and isinstance(st.value, ast.Call)):
        return False
    c = st.value
    f = c.func
    if not (isinstance(f, ast.Attribute) and isinstance(f.value, ast.Name) and f.value.id == 'logging'
            and f.attr in ('debug', 'info', 'warning', 'error', 'critical', 'exception', 'log')):
        return False
    return all(_pure(a) for a in c.args) and all(_pure(k.value) for k in c.keywords)


class _Strip(ast.NodeTransformer):
    """inside function bodies: drop bare annotations and pure logging statements; `return None` -> `return`."""

    def __init__(self):
        self.depth = 0

    def visit_FunctionDef(self, n):
        self.depth += 1
        self.generic_visit(n)
        self.depth -= 1
        return n

    visit_AsyncFunctionDef = visit_FunctionDef

    def _block(self, stmts):
        out = []
        for st in stmts:
            if self.depth and isinstance(st, ast.AnnAssign) and st.value is None and isinstance(st.target, ast.Name):
                continue
            if self.depth and _is_pure_logging(st):
                continue
            out.append(st)
        return out

    def generic_visit(self, node):
        super().generic_visit(node)
        if self.depth:
            for fld in ('body', 'orelse', 'finalbody'):
                v = getattr(node, fld, None)
                if isinstance(v, list) and v and isinstance(v[0], ast.stmt):
                    nv = self._block(v)
                    if not nv and fld == 'body':
                        p = ast.Pass()
                        ast.copy_location(p, v[0])
                        nv = [p]
                    setattr(node, fld, nv)
        return node

    def visit_Return(self, n):
        if isinstance(n.value, ast.Constant) and n.value.value is None:
            n.value = None
        return n


def parse(src: str, rel: str = None):
    """ast.parse + the normalisations above; `rel` is the file's path relative to the repository root."""
    tree = ast.parse(src)
    # pure renamings of non-public names (methods, attributes, module-level names) are undone first (translate/renames.py)
    import os
    from . import renames
    mapping, _ = renames.rename_map(Path(os.environ.get('BOBOCEP_REPO', '/repo')))
    tree = renames.undo(tree, mapping)
    tree = _Strip().visit(tree)
    tree = _FStr().visit(tree)
    pinned = _pinned().get(rel or '', {})
    for q, fn in _functions(tree):
        if q in pinned:
            _rename_locals(fn, pinned[q]['names'])
            _Ann(fn, pinned[q]['ann']).visit(fn)
    return tree


def parse_file(repo: Path, rel):
    src = (Path(repo) / rel).read_text()
    return src, parse(src, str(rel))
