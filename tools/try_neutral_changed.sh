#!/bin/bash
# tools/try_neutral_changed.sh <diff>...  — the checks that changed AFTER the final harmless-rewrite pass had started
# (event-unaltered oracle of the decider driver, repeated failures in C04, bounded loop in C15, URN case variants in C16),
# per diff only where the diff touches code they exercise.
D0=$(cd "$(dirname "$0")" && pwd)
for D in "$@"; do
  F=$(grep '^+++ b/' "$D" | sed 's#^+++ b/##')
  S=""
  for f in $F; do
    case "$f" in
      bobocep/dist/*) S="$S C04 C15" ;;
      bobocep/cep/engine/decider/*|bobocep/cep/phenom/*|bobocep/cep/event/*) S="$S C01 C04 C12 C13 C14" ;;
      bobocep/cep/gen/*) S="$S C16" ;;
      bobocep/cep/engine/*|bobocep/cep/action/*) S="$S C04" ;;
      *) ;;
    esac
  done
  S=$(echo $S | tr ' ' '\n' | sort -u | tr '\n' ' ')
  [ -z "$(echo $S | tr -d ' ')" ] && { echo "-- $D: nothing to re-run"; continue; }
  echo "-- $D: checks: $S"
  CHECKS="$S" bash $D0/try_neutral.sh "$D"
done
