#!/usr/bin/env python3
"""tools/pin_locals.py — record, for every function under /repo/bobocep, its local names in order of first binding
(translate/pinned_locals.json).  translate/normalize.py uses the record to undo pure renamings of local variables, so
that such an edit does not break tie G.  Re-run after an intended change of the pinned tree (a `fix:` commit)."""
import json, sys
from pathlib import Path
sys.path.insert(0, str(Path(__file__).resolve().parent.parent))
from translate import normalize
repo = Path(sys.argv[1] if len(sys.argv) > 1 else '/repo')
files = sorted(str(p.relative_to(repo)) for p in (repo / 'bobocep').rglob('*.py'))
out = normalize.pin(repo, files)
Path(normalize._PIN).write_text(json.dumps(out, indent=0, sort_keys=True))
print(sum(len(v) for v in out.values()), 'functions pinned')
from translate import renames
Path(renames._PIN).write_text(json.dumps(renames.pin(repo), indent=0, sort_keys=True))
print('members pinned')
