#!/bin/bash
# tools/tie_only.sh <diff>...  — apply each diff to the scratch worktree and run only the translators (tie G): prints which break
W=${SEED_WT:-/var/tmp/wt-seedtest}
[ -d $W ] || git -C /repo worktree add --detach $W main -q
V=${VERIF_ROOT:-/verif}
for D in "$@"; do
  (cd $W && git checkout -q --detach main && git reset -q --hard && git clean -qfd && git apply $D) || { echo "$D: patch does not apply"; continue; }
  echo "== $D"
  cd $V && BOBOCEP_REPO=$W PYTHONPATH=$W:$V /venv/bin/python -c "
from harness import core; import pkgutil, translate, tempfile, pathlib
core.LEAN = pathlib.Path(tempfile.mkdtemp()); (core.LEAN/'BoboVerif'/'Gen').mkdir(parents=True)
h,b = core.run_translators([m.name for m in pkgutil.iter_modules(translate.__path__) if m.name not in ('pyexpr','normalize','renames')])
print('\n'.join('   '+x[:230].replace(chr(10),' ') for x in b))"
done
(cd $W && git reset -q --hard)
