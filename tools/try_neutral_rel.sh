#!/bin/bash
# tools/try_neutral_rel.sh <diff>...  — like try_neutral.sh, but per diff only the checks whose exercised code the diff touches
# (a check that never imports or drives a changed module cannot change its verdict):
#   bobocep/dist/**                                   -> wire and protocol checks, the cluster checks, C08, C12
#   cep/engine/decider, cep/phenom, cep/event         -> decider checks, cluster checks, C02, C09, C08, C18, C19
#   cep/engine/{receiver,producer,forwarder,engine,task}, cep/action -> engine checks, C03-C05, C08
#   cep/gen                                           -> C16, C02, C03, C08, C18
#   setup/                                            -> C02, C03, C08
# anything else (or nothing recognised): all twenty.
D0=$(cd "$(dirname "$0")" && pwd)
for D in "$@"; do
  F=$(grep '^+++ b/' "$D" | sed 's#^+++ b/##')
  S=""
  for f in $F; do
    case "$f" in
      bobocep/dist/*) S="$S C03 C04 C05 C06 C07 C08 C09 C10 C11 C12 C15 C17" ;;
      bobocep/cep/engine/decider/*|bobocep/cep/phenom/*|bobocep/cep/event/*) S="$S C01 C02 C03 C04 C05 C06 C07 C08 C09 C12 C13 C14 C18 C19" ;;
      bobocep/cep/engine/receiver/*|bobocep/cep/engine/producer/*|bobocep/cep/engine/forwarder/*|bobocep/cep/engine/engine.py|bobocep/cep/engine/task.py|bobocep/cep/action/*) S="$S C02 C03 C04 C05 C08 C18 C20" ;;
      bobocep/cep/gen/*) S="$S C02 C03 C08 C16 C18" ;;
      bobocep/setup/*) S="$S C02 C03 C08" ;;
      *) S="$S $(cat $D0/claimed.txt | tr '\n' ' ')" ;;
    esac
  done
  [ -z "$S" ] && S=$(cat $D0/claimed.txt | tr '\n' ' ')
  S=$(echo $S | tr ' ' '\n' | sort -u | tr '\n' ' ')
  echo "-- $D: checks: $S"
  CHECKS="$S" bash $D0/try_neutral.sh "$D"
done
