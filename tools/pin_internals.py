#!/usr/bin/env python3
"""tools/pin_internals.py — record which NON-PUBLIC names of bobocep (methods / attributes / module-level names starting
with an underscore) each harness module relies on (harness/pinned_internals.json).  harness/core.py checks before every
run that they still exist in the current source: if one was renamed or removed, the harness's doubles and probes would
silently miss the real code (a harmless rename would then look like a violation, or hang), so the check reports that the
correspondence cannot be run instead of running it.  Re-run after editing the harness.  Run with /venv/bin/python."""
import ast, json, re, sys
from pathlib import Path
ROOT = Path(__file__).resolve().parent.parent
sys.path.insert(0, str(ROOT))
from harness.core import repo_internal_names
repo = Path(sys.argv[1] if len(sys.argv) > 1 else '/repo')
defined = repo_internal_names(repo)
out = {}
for f in sorted([x for x in (ROOT / 'harness').glob('*.py') if x.name not in ('core.py', 'main.py')] + list((ROOT / 'harness' / 'props').glob('*.py'))):
    toks = set()
    import io, tokenize
    for t in tokenize.generate_tokens(io.StringIO(f.read_text()).readline):
        if t.type == tokenize.NAME and t.string.startswith('_') and len(t.string) > 1:
            toks.add(t.string)
        elif t.type == tokenize.STRING:
            try:
                v = ast.literal_eval(t.string)
            except Exception:
                continue
            if isinstance(v, str) and re.fullmatch(r'_[A-Za-z][A-Za-z0-9_]*', v):
                toks.add(v)          # a name handed to getattr / setattr / patch
    used = sorted(t for t in toks if t in defined and not t.startswith('__'))
    if used:
        out[str(f.relative_to(ROOT))] = used
(ROOT / 'harness' / 'pinned_internals.json').write_text(json.dumps(out, indent=0, sort_keys=True))
print({k: len(v) for k, v in out.items()})
