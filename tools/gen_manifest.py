#!/usr/bin/env python3
"""Regenerates MANIFEST.json from the table below (keeps it schema-valid at all times)."""
import json
from pathlib import Path

ROOT = Path(__file__).resolve().parent.parent
BASELINE_OFF = "cd /repo && env -u BOBOCEP_VERIF /venv/bin/python -m pytest -ra -q -p no:cacheprovider --timeout=900 --continue-on-collection-errors"

def load_claimed():
    """per-property metadata lives next to the check: harness/props/cXX.meta.json
    with keys technique, level_text, level_note, design_ref."""
    out = {}
    ready = set((ROOT / 'tools' / 'claimed.txt').read_text().split())   # integrator's list of finished checks
    for f in sorted((ROOT / 'harness' / 'props').glob('c*.meta.json')):
        if f.name.split('.')[0].upper() not in ready:
            continue
        m = json.loads(f.read_text())
        out[f.name.split('.')[0].upper()] = (m['technique'], m['level_text'], m['level_note'], m.get('design_ref', 'DESIGN.md section 4'))
    return out

CLAIMED = load_claimed()

def main():
    props = [json.loads(l) for l in (ROOT / 'properties.jsonl').read_text().splitlines() if l.strip()]
    checks = []
    na = []
    for p in props:
        pid = p['id']
        if pid in CLAIMED and (ROOT / 'harness' / 'props' / f'{pid.lower()}.py').exists():
            tech, text, note, ref = CLAIMED[pid]
            checks.append({
                'property_id': pid,
                'quick_cmd': f'./check {pid} --tier quick',
                'thorough_cmd': f'./check {pid} --tier thorough',
                'evidence_file': f'evidence/{pid}.json',
                'replay_cmd_template': f'./check {pid} --replay {{path}}',
                'engine': 'lean4-model+correspondence',
                'level_claimed': {'category': 'proof', 'text': text, 'design_ref': ref},
                'level_note': note,
                'technique': tech,
            })
        else:
            na.append({'property_id': pid, 'reason': 'check not built yet in this round (planned: Lean model + theorem + correspondence, see DESIGN.md section 4); not claimed until it runs'})
    m = {
        'version': 1,
        'setup_cmd': './setup.sh',
        'hooks': {
            'guard': 'BOBOCEP_VERIF',
            'enable': 'no source hooks are needed: the harness replaces clocks, sockets, _tcp_send and locks on instances / module globals from outside; ./check exports BOBOCEP_VERIF=1 for uniformity only',
            'baseline_off_cmd': BASELINE_OFF,
            'source_commits': [],
            'add_only': True,
        },
        'engines': [{
            'name': 'lean4-model+correspondence',
            'path': 'lean/ (Lean 4 models, theorems, native line-protocol driver), translate/ (Python AST -> Lean fragments), harness/ (drives the real classes, diff with the model, property oracles, failing-input search)',
            'serves_properties': [c['property_id'] for c in checks],
            'kind_free_text': 'machine-checked proof in Lean 4 over executable models, tied to /repo on every run by regenerated fragments with kernel-checked equality lemmas and by differential correspondence',
        }],
        'checks': checks,
        'notes': 'fix: commits in /repo and recorded findings are listed in known_findings.json and DESIGN.md section 5.',
        'not_applicable': na,
    }
    (ROOT / 'MANIFEST.json').write_text(json.dumps(m, indent=1) + '\n')
    print('claimed', [c['property_id'] for c in checks], 'unclaimed', len(na))

if __name__ == '__main__':
    main()
