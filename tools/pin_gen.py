#!/usr/bin/env python3
"""tools/pin_gen.py — run every translator on /repo and keep a copy of what it generates under translate/pinned_gen/
(+ index.json: translator -> files).  harness/core.py restores these when a translator refuses the current source.
Re-run after an intended change of the pinned tree (a `fix:` commit) or of a translator."""
import importlib, json, pkgutil, sys
from pathlib import Path
ROOT = Path(__file__).resolve().parent.parent
sys.path.insert(0, str(ROOT))
import translate
repo = Path(sys.argv[1] if len(sys.argv) > 1 else '/repo')
out = ROOT / 'translate' / 'pinned_gen'
out.mkdir(exist_ok=True)
index = {}
for m in pkgutil.iter_modules(translate.__path__):
    if m.name in ('pyexpr', 'normalize', 'renames'):
        continue
    files, _ = importlib.import_module('translate.' + m.name).translate(repo)
    index[m.name] = sorted(files)
    for f, c in files.items():
        (out / f).write_text(c)
(out / 'index.json').write_text(json.dumps(index, indent=1, sort_keys=True))
print(index)
