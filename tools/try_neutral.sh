#!/bin/bash
# tools/try_neutral.sh <diff>...   — apply each behaviour-preserving diff to a scratch worktree in turn and run ALL quick
# checks against it: every line printed with ALARM is a false alarm to be looked at (translator too narrow, oracle too strict).
V=${VERIF_ROOT:-/verif}
W=${SEED_WT:-/var/tmp/wt-seedtest}
export VERIF_EVIDENCE_DIR=/var/tmp/seed-evidence; mkdir -p $VERIF_EVIDENCE_DIR
[ -d $W ] || git -C /repo worktree add --detach $W main -q
for D in "$@"; do
  (cd $W && git checkout -q --detach main && git reset -q --hard && git clean -qfd && git apply $D) || { echo "$D: patch does not apply"; continue; }
  T=$(cd $W && /venv/bin/python -m pytest -q -p no:cacheprovider -x 2>&1 | tail -1)
  echo "== $D: tests: $T"
  cd $V
  for c in ${CHECKS:-$(cat tools/claimed.txt)}; do
    OUT=$(BOBOCEP_REPO=$W ./check $c 2>&1 | grep -v '^KNOWN' | tail -2 | cut -c1-300)
    if echo "$OUT" | grep -q "exit 0" && ! echo "$OUT" | grep -q VIOLATION; then :; else
      echo "   ALARM $c: $OUT"
      R=$(echo "$OUT" | grep -o 'replay=[^ ]*' | head -1 | cut -d= -f2)
      [ -n "$R" ] && python3 -c "import json,sys; j=json.load(open('$R')); print('      what:', str(j.get('what') or j.get('no_longer_checks'))[:400])"
    fi
  done
done
(cd $W && git reset -q --hard)
cd $V && PYTHONPATH=/repo:$V /venv/bin/python -c "
from harness import core; import pkgutil, translate
core.run_translators([m.name for m in pkgutil.iter_modules(translate.__path__) if m.name not in ('pyexpr','normalize','renames')])" >/dev/null 2>&1
