#!/bin/bash
# tools/rerun_seeds.sh [glob]  — re-run, for every kept seeded change matching the glob (default all), the check that is
# recorded as catching it, against a scratch worktree with the change applied.  Prints CAUGHT / MISSED per change.
PAT=${1:-*}
W=${SEED_WT:-/var/tmp/wt-seedtest}
export VERIF_EVIDENCE_DIR=/var/tmp/seed-evidence; mkdir -p $VERIF_EVIDENCE_DIR
[ -d $W ] || git -C /repo worktree add --detach $W main -q
cd ${VERIF_ROOT:-/verif}
for d in seeded/$PAT; do
  [ -f $d/patch.diff ] || continue
  (cd $W && git checkout -q --detach main && git reset -q --hard && git clean -qfd && git apply ${VERIF_ROOT:-/verif}/$d/patch.diff) || { echo "$d: patch does not apply"; continue; }
  C=$(python3 -c "import json,re; m=json.load(open('$d/meta.json')); print(re.findall(r'C\d\d', m.get('ran',''))[0] if re.findall(r'C\d\d', m.get('ran','')) else m['property'])")
  OUT=$(BOBOCEP_REPO=$W ./check $C 2>&1 | grep -v '^KNOWN' | tail -2)
  if echo "$OUT" | grep -q "^VIOLATION property=$C"; then
    if echo "$OUT" | grep -q "no-failing-input-found"; then echo "$d: CAUGHT by $C (no-failing-input-found)"; else echo "$d: CAUGHT by $C"; fi
  else echo "$d: MISSED by $C :: $(echo "$OUT" | tail -1 | cut -c1-200)"; fi
done
(cd $W && git reset -q --hard)
PYTHONPATH=/repo:${VERIF_ROOT:-/verif} /venv/bin/python -c "
from harness import core; import pkgutil, translate
core.run_translators([m.name for m in pkgutil.iter_modules(translate.__path__) if m.name not in ('pyexpr','normalize','renames')])" >/dev/null 2>&1
