#!/usr/bin/env python3
"""tools/import_seed.py <seed OUT dir> <seeded id> '<caught by>' '<what I ran / observed>'"""
import json, shutil, sys
from pathlib import Path
src, sid, caught, ran = Path(sys.argv[1]), sys.argv[2], sys.argv[3], sys.argv[4]
dst = Path('/verif/seeded') / sid
dst.mkdir(parents=True, exist_ok=True)
shutil.copy(src / 'patch.diff', dst / 'patch.diff')
demo = (src / 'demo.py') if (src / 'demo.py').exists() else (src / 'test_demo.py')
shutil.copy(demo, dst / demo.name)
m = json.loads((src / 'meta.json').read_text())
meta = {'property': m.get('property'), 'summary': m.get('summary'), 'needs': m.get('needs'), 'files': m.get('files'),
        'origin': 'fresh sub-agent given only the property text and its own scratch worktree (nothing from /verif)',
        'confirmed': 'in a scratch worktree of /repo main: 316 tests pass with the patch; the demonstration exits 0 without the patch and 1 with it',
        'ran': ran, 'caught_by': caught}
(dst / 'meta.json').write_text(json.dumps(meta, indent=1))
print('imported', sid)
