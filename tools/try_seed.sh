#!/bin/bash
# tools/try_seed.sh <seed-dir> <name> <check>...   — confirm a seeded change in a scratch worktree and run checks against it
# 1. tests pass with the patch; demo fails with it and passes without it   2. each listed check is run with BOBOCEP_REPO=<scratch>
SRC=$1; NAME=$2; shift 2
W=${SEED_WT:-/var/tmp/wt-seedtest}
export VERIF_EVIDENCE_DIR=/var/tmp/seed-evidence; mkdir -p $VERIF_EVIDENCE_DIR
[ -d $W ] || git -C /repo worktree add --detach $W main -q
cd $W && git checkout -q --detach main && git reset -q --hard && git clean -qfd
DEMO=$(ls $SRC/demo.py $SRC/test_demo.py 2>/dev/null | head -1)
cp $DEMO $W/_demo.py
P0=$(cd $W && PYTHONPATH=$W timeout 300 /venv/bin/python _demo.py >/dev/null 2>&1; echo $?)
git apply $SRC/patch.diff || { echo "patch does not apply"; exit 9; }
T=$(/venv/bin/python -m pytest -q -p no:cacheprovider 2>&1 | tail -1)
P1=$(PYTHONPATH=$W timeout 300 /venv/bin/python _demo.py 2>&1 | tail -1; echo "rc=${PIPESTATUS[0]}")
echo "== $NAME: demo without patch rc=$P0 | tests with patch: $T | demo with patch: $P1"
rm -f $W/_demo.py
cd ${VERIF_ROOT:-/verif}
for c in "$@"; do
  OUT=$(BOBOCEP_REPO=$W ./check $c 2>&1 | grep -v '^KNOWN' | tail -2 | cut -c1-260)
  echo "-- $c: $OUT"
  if echo "$OUT" | grep -q "VIOLATION"; then
    R=$(echo "$OUT" | grep -o 'replay=[^ ]*' | head -1 | cut -d= -f2)
    python3 -c "import json,sys; j=json.load(open('$R')); print('   what:', (j.get('what') or j.get('no_longer_checks') or '')[:300] if isinstance(j.get('what'),str) else str(j.get('no_longer_checks'))[:300])"
  fi
done
cd $W && git reset -q --hard
# regenerate the Gen/ files from the real tree again
cd ${VERIF_ROOT:-/verif} && PYTHONPATH=/repo:${VERIF_ROOT:-/verif} /venv/bin/python -c "
from harness import core; import pkgutil, translate
core.run_translators([m.name for m in pkgutil.iter_modules(translate.__path__) if m.name not in ('pyexpr','normalize','renames')])" >/dev/null 2>&1
