#!/bin/bash
# MANIFEST.setup_cmd: regenerate the Gen/ fragments from /repo and build the Lean library + model driver, offline.
HERE="$(cd "$(dirname "${BASH_SOURCE[0]}")" && pwd)"
cd "$HERE" || exit 2
export BOBOCEP_REPO="${BOBOCEP_REPO:-/repo}"
export PYTHONPATH="$BOBOCEP_REPO:$HERE:$HERE/harness"
export PYTHONDONTWRITEBYTECODE=1
/venv/bin/python - <<'PY'
from harness import core
import pkgutil, translate
names = [m.name for m in pkgutil.iter_modules(translate.__path__) if m.name not in ('pyexpr',)]
h, broken = core.run_translators(names)
print("translated fragments:", len(h), "broken:", broken)
PY
cd lean || exit 2
# the native model driver, then the property module of every claimed check (unclaimed work in progress is not built here)
lake build bobodrv 2>&1 | grep -v '^✔' | tail -20
test -x .lake/build/bin/bobodrv || { echo "driver not built"; exit 1; }
MODS=$(python3 -c "import json; print(' '.join('BoboVerif.Props.'+c['property_id'] for c in json.load(open('../MANIFEST.json'))['checks']))")
lake build $MODS 2>&1 | grep -v '^✔' | grep -v '^warning\|^ *$\|linter\|Hint\|\[apply\]\|^Note' | tail -40
lake build $MODS >/dev/null 2>&1 || { echo "property modules failed to build"; exit 1; }
echo "setup ok"
