#!/bin/bash
# MANIFEST.setup_cmd: regenerate the Gen/ fragments from /repo and build the Lean library + model driver, offline.
HERE="$(cd "$(dirname "${BASH_SOURCE[0]}")" && pwd)"
cd "$HERE" || exit 2
export BOBOCEP_REPO="${BOBOCEP_REPO:-/repo}"
export PYTHONPATH="$BOBOCEP_REPO:$HERE:$HERE/harness"
export PYTHONDONTWRITEBYTECODE=1
/venv/bin/python - <<'PY'
from harness import core
import pkgutil, translate
names = [m.name for m in pkgutil.iter_modules(translate.__path__) if m.name not in ('pyexpr',)]
h, broken = core.run_translators(names)
print("translated fragments:", len(h), "broken:", broken)
PY
cd lean && lake build 2>&1 | grep -v '^✔' | tail -40
test -x .lake/build/bin/bobodrv || { echo "driver not built"; exit 1; }
echo "setup ok"
