"""
One-preemption exploration of two operations on the real objects (a small, deterministic relative of CHESS).

`explore(build, op_x, op_y, observe, …)` runs, on fresh systems built by `build()`:

  1. the two serial orders  X;Y  and  Y;X  — their observations are the ALLOWED outcomes (serialisability: whatever two
     threads do concurrently must look like one of the two orders);
  2. for k = 1, 2, 3, …: X on the calling thread, with Y started on a SECOND REAL THREAD exactly when X reaches its k-th
     scheduling point; X waits until Y has finished or is blocked on a lock X holds, then goes on; afterwards both are
     joined and the observation must be one of the allowed ones.  The walk ends when X has fewer than k points.

Scheduling points of X:
  * every acquire and every release of a lock of the designated objects (locks are found by inspection — any attribute
    with `acquire`/`release` — and wrapped in a proxy that tracks owner and depth; locks created LATER through the
    `RLock` name of a designated module are wrapped too, and their creation is a point);
  * every read and write of a field of the objects listed in `fields_of` (turned into properties of a dynamic subclass),
    for objects that have no lock of their own;
  * explicit `sched.point()` calls made by test doubles (a scripted socket's `recv`, a queue's `full()`).

The second thread never sleeps and nothing depends on timing: X resumes when Y is done or provably blocked (it asked for
a proxied lock that X's thread owns).  A Y that neither finishes nor blocks within `stall_s` is reported.
"""
import threading


class Stalled(Exception):
    pass


class InterleaveDeadlock(BaseException):
    """the two threads of an exploration wait for each other's locks"""


class Sched:
    def __init__(self, k, run_y, stall_s=5.0, k2=None):
        self.k, self.run_y, self.stall_s, self.k2 = k, run_y, stall_s, k2
        self.count = 0
        self.count_y = 0
        self.y_paused = threading.Event()
        self.resume_y = threading.Event()
        self.x_go = threading.Event()
        self.fired = False
        self.t1 = threading.current_thread()
        self.t2 = None
        self.y_done = threading.Event()
        self.y_blocked = threading.Event()
        self.y_error = None
        self.stalled = False
        self.active = True

    def point(self):
        """called by X's thread at a scheduling point."""
        if not self.active:
            return
        if threading.current_thread() is self.t2 and self.t2 is not None:
            # second preemption: Y stops at ITS k2-th point and lets X go on; it resumes when X is through (or needs a
            # lock Y holds)
            self.count_y += 1
            if self.k2 is not None and self.count_y == self.k2 and not self.resume_y.is_set():
                self.y_paused.set()
                self.x_go.set()
                self.resume_y.wait(self.stall_s)
            return
        if threading.current_thread() is not self.t1:
            return
        self.count += 1
        if self.count == self.k and not self.fired:
            self.fired = True

            def body():
                try:
                    self.run_y()
                except BaseException as e:     # noqa: an exception of Y is part of the observation
                    self.y_error = e
                finally:
                    self.y_done.set()
                    self.x_go.set()
            self.t2 = threading.Thread(target=body, daemon=True, name='interleave-y')
            self.t2.start()
            # wait until Y is through, is waiting for something X holds, or has stopped at its own point
            if not self.x_go.wait(self.stall_s):
                self.stalled = True

    def finish(self):
        self.resume_y.set()
        if self.t2 is not None:
            self.t2.join(self.stall_s)
        self.active = False
        if self.t2 is not None:
            self.t2.join(self.stall_s)
            if self.t2.is_alive():
                self.stalled = True


class PLock:
    """proxy of an RLock: scheduling points for X's thread; tells the scheduler when Y's thread has to wait for X."""

    def __init__(self, real, sched_ref):
        self.real, self.sched_ref = real, sched_ref
        self.owner, self.depth = None, 0
        self.meta = threading.Lock()

    def acquire(self, blocking=True, timeout=-1):
        s = self.sched_ref[0]
        me = threading.current_thread()
        if s is not None:
            s.point()
            if me is s.t2:
                with self.meta:
                    held_by_other = self.owner is not None and self.owner is not me
                if held_by_other:
                    s.y_blocked.set()
                    s.x_go.set()
            elif me is s.t1:
                with self.meta:
                    held_by_y = self.owner is not None and self.owner is s.t2
                if held_by_y:
                    s.resume_y.set()          # X has to wait for Y: Y goes on
        if s is not None and me is s.t1 and blocking and timeout == -1 and s.t2 is not None:
            # X may find the lock taken by Y a moment after the look above (Y was woken by X's own release): if Y then
            # stops at its own point holding it, let it go on
            import time as _t
            t0 = _t.monotonic()
            while not self.real.acquire(True, 0.002):
                with self.meta:
                    if self.owner is s.t2:
                        s.resume_y.set()
                # X waits for a lock Y holds while Y waits for a lock X holds (it said so: y_blocked) and nobody moves:
                # the two threads wait for each other for good -- reported, not sat out
                if s.y_blocked.is_set() and not s.y_done.is_set() and _t.monotonic() - t0 > max(1.0, s.stall_s / 2):
                    with self.meta:
                        owned_by_y = self.owner is s.t2
                    if owned_by_y:
                        raise InterleaveDeadlock(f"the first thread waits for {getattr(self, 'label', 'a lock')} held by the second, "
                                                 f"which waits for a lock the first holds")
            r = True
        else:
            r = self.real.acquire(blocking, timeout)
        if r:
            with self.meta:
                self.owner, self.depth = me, self.depth + 1
        return r

    def release(self):
        with self.meta:
            self.depth -= 1
            if self.depth == 0:
                self.owner = None
        self.real.release()
        s = self.sched_ref[0]
        if s is not None:
            s.point()

    def __enter__(self):
        self.acquire()
        return self

    def __exit__(self, *a):
        self.release()
        return False

    def __getattr__(self, n):
        return getattr(self.real, n)


def wrap_locks(objs, sched_ref):
    """replace every lock-like attribute of the objects by a proxy; returns an undo function."""
    saved = []
    for o in objs:
        for k, v in list(vars(o).items()):
            if hasattr(v, 'acquire') and hasattr(v, 'release') and not isinstance(v, PLock):
                saved.append((o, k, v))
                setattr(o, k, PLock(v, sched_ref))

    def undo():
        for o, k, v in saved:
            try:
                setattr(o, k, v)
            except Exception:   # noqa
                pass
    return undo


def wrap_fields(objs, sched_ref):
    """every instance field of the objects becomes a scheduling point (read and write)."""
    saved = []
    for o in objs:
        fields = list(vars(o))
        store = {k: vars(o).pop(k) for k in fields}
        ns = {}
        for k in fields:
            def getter(self, k=k, store=store):
                s = sched_ref[0]
                if s is not None:
                    s.point()
                return store[k]

            def setter(self, v, k=k, store=store):
                store[k] = v
                s = sched_ref[0]
                if s is not None:
                    s.point()
            ns[k] = property(getter, setter)
        orig = o.__class__
        o.__class__ = type(orig.__name__ + 'Watched', (orig,), ns)
        saved.append((o, orig, store))

    def undo():
        for o, orig, store in saved:
            o.__class__ = orig
            vars(o).update(store)
    return undo


def patch_lock_factories(modules, sched_ref):
    """locks created later through `<module>.RLock` are proxied too; creating one is a scheduling point."""
    saved = []
    for m in modules:
        if hasattr(m, 'RLock'):
            real_factory = m.RLock

            def factory(*a, _f=real_factory, **k):
                s = sched_ref[0]
                if s is not None:
                    s.point()
                lk = PLock(_f(*a, **k), sched_ref)
                if s is not None:
                    s.point()
                return lk
            saved.append((m, real_factory))
            m.RLock = factory

    def undo():
        for m, f in saved:
            m.RLock = f
    return undo


def explore(build, op_x, op_y, observe, locks_of=lambda sys: [], fields_of=lambda sys: [], modules=(), max_points=400,
            stall_s=5.0, extra_allowed=(), two_preemptions=True, max_points_y=40, max_runs=1500):
    """returns (violation or None, stats).  violation = {'k': point, 'got': obs, 'allowed': [...], 'note': str}."""
    def serial(first, second):
        sys = build()
        errs = []
        for op in (first, second):
            try:
                op(sys)
            except BaseException as e:   # noqa
                errs.append(repr(e))
        return (observe(sys), tuple(errs)) if errs else observe(sys)
    allowed = [serial(op_x, op_y), serial(op_y, op_x)] + list(extra_allowed)
    stats = {'points': 0, 'runs': 0, 'points_y': 0}
    k = 1
    k2 = None
    while k <= max_points and stats['runs'] < max_runs:
        sched_ref = [None]
        undo_f = patch_lock_factories(modules, sched_ref)
        try:
            sys = build()
            undo_l = wrap_locks(locks_of(sys), sched_ref)
            undo_w = wrap_fields(fields_of(sys), sched_ref)
            s = Sched(k, lambda: op_y(sys), stall_s, k2)
            sys_sched = getattr(sys, 'set_sched', None)
            if sys_sched is not None:
                sys_sched(s)
            sched_ref[0] = s
            x_error = None
            try:
                op_x(sys)
            except InterleaveDeadlock as e:
                sched_ref[0] = None
                s.active = False
                stats['runs'] += 1
                return ({'k': k, 'got': 'deadlock', 'allowed': allowed,
                         'note': f'with the second thread started at scheduling point {k} of the first: {e}'}, stats)
            except BaseException as e:   # noqa
                x_error = e
            s.finish()
            sched_ref[0] = None
            undo_w()
            undo_l()
        finally:
            undo_f()
        stats['runs'] += 1
        stats['points'] = max(stats['points'], s.count)
        if s.stalled:
            return ({'k': k, 'got': 'stalled', 'allowed': allowed,
                     'note': f'the second thread neither finished nor blocked on a lock of the first within {stall_s} s'}, stats)
        if not s.fired:
            if s.count < k:
                break
        got = observe(sys)
        if x_error is not None or s.y_error is not None:
            got = (got, tuple(repr(e) for e in (x_error, s.y_error) if e is not None))
            if got not in allowed and (got[0], got[1][::-1]) in allowed:
                got = (got[0], got[1][::-1])
        if s.fired and got not in allowed:
            return ({'k': k, 'got': got, 'allowed': allowed, 'k2': k2, 'note': f'second operation started at scheduling point {k} of the first' + (f', stopped at its own point {k2} until the first was through' if k2 else '')}, stats)
        if s.count < k:
            break
        stats['points_y'] = max(stats['points_y'], s.count_y)
        # next: the same first preemption with Y itself stopped at its 1st, 2nd, … point; then the next first preemption
        if two_preemptions and (k2 is None or k2 < min(s.count_y, max_points_y)):
            k2 = 1 if k2 is None else k2 + 1
        else:
            k2 = None
            k += 1
    return (None, stats)
