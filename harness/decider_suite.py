"""
Shared machinery for the properties decided on M-Run / M-Decider
(C01, C12, C13, C14, C19): run cases on the REAL decider, on the reference
oracle and on the Lean model; collect disagreements and oracle failures.
"""
import re
from typing import Callable, Iterable, List, Optional

from harness.core import Result, Violation, Ctx, run_model
from harness.drive_decider import RealDecider
from harness import predlang as pl
from harness import oracle_runs as ref


def canon(line: str) -> str:
    """order-insensitive form of a `C[..] H[..] U[..] | T[..]` line (the property does not fix list order)."""
    def srt(m):
        return m.group(1) + '[' + ' '.join(sorted(m.group(2).split())) + ']'
    return re.sub(r'([CHUT])\[([^\]]*)\]', srt, line)


class Case:
    def __init__(self, phens, cache, ops, tag=''):
        self.phens, self.cache, self.ops, self.tag = phens, cache, ops, tag

    def to_json(self):
        return {'phens': self.phens, 'cache': self.cache, 'ops': self.ops, 'tag': self.tag}

    @staticmethod
    def from_json(j):
        phens = [(n, [dict(p, blocks=[tuple(b) for b in p['blocks']]) for p in ps]) for n, ps in j['phens']]
        return Case(phens, j['cache'], j['ops'], j.get('tag', ''))


def ev_ops(stream, kind='s', t0=0, clock='arrival'):
    """`clock`: the timestamps the events carry -- 'arrival' (the position in the stream), 'skewed' (sources with clocks out
    of step: not monotone in arrival order, with ties) or 'same' (all equal).  Identifiers stay unique."""
    def ts(i):
        return t0 + i if clock == 'arrival' else 50 if clock == 'same' else 100 + (i * 7919 + 3 * (i % 2)) % 11
    # kind 'mixed': simple events with a complex and an action event (as the engine feeds them back) every few positions
    def kd(i):
        return kind if kind != 'mixed' else 'sscsas'[i % 6]
    return [f'ev e{t0 + i} {ts(i)} {kd(i)} {d}' for i, d in enumerate(stream)]


def locks_left_held(rd):
    """locks of the decider or of a run it holds that the calling thread still owns after the call returned (a lock taken
    on a path that leaves through an exception and is released only on the normal one): harmless for this thread -- the
    locks are re-entrant -- and the end of every other thread that needs the object."""
    out = []
    try:
        objs = [rd.dec] + list(rd.dec.all_runs())
    except Exception:   # noqa
        objs = [rd.dec]
    for o in objs:
        for k, v in vars(o).items():
            owned = getattr(v, '_is_owned', None)
            if owned is not None and hasattr(v, 'acquire'):
                try:
                    if owned():
                        out.append(f'{type(o).__name__}.{k}')
                except Exception:   # noqa
                    pass
    return out


def accessors_disagree(rd):
    """the public read-only accessors of the decider, of its runs and of their histories describe ONE state: whatever a
    user (or a component the project does not ship) reads through any of them agrees with what `all_runs()` shows."""
    dec = rd.dec
    for r in dec.all_runs():
        ph, pa, rid = r.phenomenon_name, r.pattern.name, r.run_id
        at = dec.run_at(ph, pa, rid)
        if at is None or (at.run_id, at.block_index) != (rid, r.block_index):
            return f"run_at({ph!r}, {pa!r}, {rid!r}) does not show the run all_runs() shows"
        if not any((x.run_id, x.block_index) == (rid, r.block_index) for x in dec.runs_from(ph, pa)):
            return f"runs_from({ph!r}, {pa!r}) lacks run {rid}"
        # (a run a peer's record created AT its last block is stored halted -- arbitrary messages may say that; whether
        # a finished run may be stored is C12's business, not this oracle's)
        if r.is_complete() != (r.block_index >= len(r.pattern.blocks)):
            return f"run {rid}: is_complete()={r.is_complete()} at block {r.block_index} of {len(r.pattern.blocks)}"
        h = r.history()
        evs = h.events
        flat = [e for g in evs for e in evs[g]]
        if h.size() != len(flat) or list(h.all_events()) != flat or list(h.all_groups()) != list(evs.keys()):
            return f"run {rid}: history size()/all_events()/all_groups() disagree with events"
        for g in evs:
            if list(h.group(g)) != evs[g]:
                return f"run {rid}: history.group({g!r}) differs from events[{g!r}]"
        ser = r.serialize()
        if (ser.run_id, ser.phenomenon_name, ser.pattern_name, ser.block_index) != (rid, ph, pa, r.block_index) \
                or ser.history.events.keys() != evs.keys() or any(ser.history.events[g] != evs[g] for g in evs):
            return f"run {rid}: serialize() describes another state than the run's accessors"
    for ph_obj in dec.phenomena():
        for pat in ph_obj.patterns:
            for x in dec.runs_from(ph_obj.name, pat.name):
                if x.phenomenon_name != ph_obj.name or x.pattern.name != pat.name:
                    return f"runs_from({ph_obj.name!r}, {pat.name!r}) returns a run of {x.phenomenon_name}/{x.pattern.name}"
    return None


def history_extremes(rd):
    """`first()` / `last()` of every history the decider holds: the events with the oldest / the most recent timestamp
    (docs: BoboHistory).  Returns a description of the first history that says otherwise, or None."""
    for r in rd.dec.all_runs():
        h = r.history()
        evs = h.all_events()
        if evs:
            lo, hi = min(e.timestamp for e in evs), max(e.timestamp for e in evs)
            f, l = h.first(), h.last()
            if f is None or l is None or f.timestamp != lo or l.timestamp != hi:
                return (f"run {r.run_id}: timestamps {[e.timestamp for e in evs]}, first() is "
                        f"{None if f is None else f.timestamp}, last() is {None if l is None else l.timestamp}")
    return None


def run_cases(ctx: Ctx, cases: Iterable[Case], res: Result,
              per_case: Optional[Callable] = None, use_ref: bool = True, sig: str = 'semantics') -> None:
    """
    For each case: real decider vs reference oracle (violations) and, in one
    batch at the end, vs the Lean model (disagreements).  `per_case(case, rd,
    impl_outs, res)` can add property-specific oracle checks on the real decider.
    """
    all_lines: List[str] = []
    all_impl: List[str] = []
    index = []   # (case, start offset of its ops in all_lines)
    n = 0
    for case in cases:
        n += 1
        cfg = pl.config_lines(case.phens, case.cache)
        opaque_before = pl.OPAQUE['on']
        if '+opaque' in case.tag:
            pl.OPAQUE['on'] = True
        rd = RealDecider(case.phens, case.cache)
        rd.bomb.armed = '+bomb' in case.tag
        outs = []
        rdec = ref.RefDecider(case.phens) if use_ref else None
        bad = None
        for k, op in enumerate(case.ops):
            o = rd.do(op)
            outs.append(o)
            if bad is None and o.startswith('event-altered'):
                res.violations.append(Violation('event-altered', f"at {op!r} (step {k}): {o}", {**case.to_json(), 'failing_step': k}))
                bad = (k, o, o)
                rdec = None
            if bad is None and o.startswith('wrong-local-flag'):
                res.violations.append(Violation('wrong-local-flag', f"at {op!r} (step {k}): {o}", {**case.to_json(), 'failing_step': k}))
                bad = (k, o, o)
                rdec = None
            if bad is None and any(x and x[0] == 'raised' for x in rd.rec.inside):
                res.violations.append(Violation('subscriber-view-raised', f"at {op!r} (step {k}) a subscriber looking at the decider from inside "
                                                f"on_decider_update (size / all_runs / snapshot) got {rd.rec.inside[-1]}", {**case.to_json(), 'failing_step': k}))
                bad = (k, o, o)
                rdec = None
            if bad is None:
                held = locks_left_held(rd)
                if held:
                    res.violations.append(Violation('lock-left-held', f"after {op!r} (step {k}) the calling thread still owns {held}: "
                                                    f"no other thread can use that object again", {**case.to_json(), 'failing_step': k}))
                    bad = (k, o, o)
                    rdec = None
            if bad is None:
                ax = accessors_disagree(rd)
                if ax is not None:
                    res.violations.append(Violation('accessors-disagree', f"after {op!r} (step {k}) {ax}", {**case.to_json(), 'failing_step': k}))
                    bad = (k, o, o)
                    rdec = None
            if bad is None and op.startswith('ev '):
                hx = history_extremes(rd)
                if hx is not None:
                    res.violations.append(Violation('history-first-last', f"after {op!r} (step {k}) {hx}", {**case.to_json(), 'failing_step': k}))
                    bad = (k, o, o)
                    rdec = None
            if rdec is not None and op.startswith('ev ') and bad is None:
                w = op.split()
                exp = rdec.line((w[1], int(w[2]), w[3], int(w[4])))
                if canon(exp) != canon(o):
                    bad = (k, exp, o)
        if bad is not None and bad[1] is not bad[2]:
            k, exp, o = bad
            res.violations.append(Violation(
                sig, f"after {case.ops[k]!r} (step {k}) the decider reports {o!r}; the documented semantics give {exp!r}",
                {**case.to_json(), 'failing_step': k, 'expected': exp, 'observed': o}))
        if per_case is not None:
            per_case(case, rd, outs, res)
        pl.OPAQUE['on'] = opaque_before
        if '+nomodel' in case.tag:     # (inputs outside the model's vocabulary: judged by the oracles alone)
            continue
        index.append((case, len(all_lines) + len(cfg)))
        all_lines += cfg + case.ops
        all_impl += ['ok'] * len(cfg) + outs
    if ctx.model_available():
        model = run_model('decider', all_lines)
        res.traces_validated += n
        for (case, off) in index:
            for k in range(len(case.ops)):
                if model[off + k] != all_impl[off + k]:
                    if len(res.disagreements) < 5:
                        res.disagreements.append({'case': case.to_json(), 'step': k, 'op': case.ops[k],
                                                  'model': model[off + k], 'impl': all_impl[off + k]})
                    else:
                        res.count('more_disagreements')
                    break
    else:
        if not res.disagreements:
            res.disagreements.append({'correspondence': 'decider', 'error': 'model driver did not build'})
