"""
Structured generators of patterns and event streams (one PRNG: ctx.rng).
"""
import itertools

LEGAL_FLAGS = ['0000', '0001', '0010', '0100', '1000', '1010', '1100']   # strict loop negated optional
PLAIN_FLAGS = ['0000', '1000']
ALL_FLAGS = [''.join(t) for t in itertools.product('01', repeat=4)]

PRED_POOL = ['eq:0', 'eq:1', 'eq:2', 'ne:0', 'ne:1', 'gtmax', 'any', 'sizelt:3', 'lt:2', 'grplt:g1:2']


def pattern(name, flags, preds, groups=None, pre=(), halt=(), singleton=False):
    groups = groups or [f'g{i}' for i in range(len(flags))]
    return {'name': name, 'singleton': singleton, 'pre': list(pre), 'halt': list(halt),
            'blocks': [(g, f, list(p)) for g, f, p in zip(groups, flags, preds)]}


def exhaustive_patterns(kmax=3, thorough=False):
    """all legal flag vectors for 1..kmax blocks with a small family of predicate assignments,
    pre/haltcondition sets and singleton on/off."""
    mids = LEGAL_FLAGS
    conds = [((), ()), (('ne:2',), ()), ((), ('eq:2',))]
    if thorough:
        conds += [(('ne:2', 'any'), ('eq:2',)), ((), ('eq:9', 'eq:2'))]
    for k in range(1, kmax + 1):
        if k == 1:
            flagsets = [[f] for f in PLAIN_FLAGS]
        else:
            flagsets = [['0000'] + list(m) + [l] for m in itertools.product(mids, repeat=k - 2) for l in PLAIN_FLAGS]
        for fl in flagsets:
            mid_choices = [('eq:1',), ('ne:1',)] if not thorough else [('eq:1',), ('ne:1',), ('eq:1', 'eq:2'), ('gtmax',)]
            last_choices = [('eq:2',), ('eq:1',)] if k > 1 else [('eq:0',)]
            for mp in itertools.product(mid_choices, repeat=max(k - 2, 0)):
                for lp in last_choices:
                    preds = [('eq:0',)] + list(mp) + ([lp] if k > 1 else [])
                    for (pre, halt) in conds:
                        for sg in (False, True):
                            groups = ['a', 'b', 'a', 'c'][:k]      # a shared group name on purpose
                            yield pattern('p', fl, preds, groups, pre, halt, sg)


def all_streams(n, alphabet=(0, 1, 2)):
    return itertools.product(alphabet, repeat=n)


def random_pattern(rng, name, kmin=2, kmax=7, raising=False):
    k = rng.randint(kmin, kmax)
    flags = ['0000' if rng.random() < 0.8 else '1000']
    for _ in range(k - 2):
        flags.append(rng.choice(LEGAL_FLAGS))
    if k > 1:
        flags.append(rng.choice(PLAIN_FLAGS))
    preds = []
    for i in range(k):
        n = rng.choice((1, 1, 2, 3))
        ps = [rng.choice(PRED_POOL) for _ in range(n)]
        if raising and rng.random() < 0.3:
            j = rng.randrange(len(ps))
            ps[j] = f'raiseif:{rng.randint(0, 3)}:' + ps[j]
        preds.append(ps)
    groups = [rng.choice(['g1', 'g2', '~', f'g{i}']) for i in range(k)]
    pre = [rng.choice(['ne:3', 'lt:4', 'any'])] if rng.random() < 0.25 else []
    halt = [rng.choice(['eq:3', 'gt:3', 'sizelt:0'])] if rng.random() < 0.3 else []
    if raising and rng.random() < 0.3:
        (pre if rng.random() < 0.5 else halt).append(f'raiseif:{rng.randint(0, 3)}:' + rng.choice(['any', 'eq:9']))
    return pattern(name, flags, preds, groups, pre, halt, rng.random() < 0.3)


def random_phens(rng, raising=False):
    phens = []
    np = rng.choice((1, 1, 2))
    c = 0
    for i in range(np):
        pats = []
        for _ in range(rng.choice((1, 1, 2))):
            pats.append(random_pattern(rng, f'p{c}', raising=raising))
            c += 1
        phens.append((f'ph{i}', pats))
    # the same pattern (one object: predlang shares equal pattern texts) in two phenomena
    if len(phens) == 2 and rng.random() < 0.3:
        import copy
        if rng.random() < 0.5:
            phens[0][1][0]['singleton'] = True
        shared = copy.deepcopy(phens[0][1][0])
        phens[1] = (phens[1][0], [shared] + [q for q in phens[1][1][1:] if q['name'] != shared['name']])
    return phens


def random_stream(rng, n, hi=4):
    return [rng.randint(0, hi) for _ in range(n)]


def shape_key(phens):
    return '/'.join(','.join(b[1] for b in p['blocks']) + ('S' if p.get('singleton') else '') for _, ps in phens for p in ps)
