"""
The engine thread's `update()` on a queued event against the distributed thread's `on_distributed_update()` on ONE real
decider, explored with harness/interleave.py: the second operation is started on a second real thread at every lock
boundary of the first (the decider's own locks and the locks of the runs it holds), in both roles.  Whatever the two
threads do must look like one of the two serial orders: same table, same finished-run memories, same notifications.

Scenarios: directed ones for the places where the decider's methods must be atomic (the singleton start gate; finishing a
run and remembering it as finished; applying a message that removes and re-creates; local completion racing the peer's
announcement of the same completion), plus histories from gen_remote whose last two operations are one local and one
remote step.
"""
from harness.drive_decider import RealDecider
from harness import gen_patterns as gp
from harness import interleave as il
from harness import predlang as pl
from harness.gen_remote import gen_history

P = gp.pattern

THREE = [('ph', [P('p', ['0000', '0000', '0000'], [['eq:0'], ['eq:1'], ['eq:2']], halt=['eq:9'])])]
SING = [('ph', [P('s', ['0000', '0000', '0000'], [['eq:0'], ['eq:1'], ['eq:2']], singleton=True),
                P('n', ['0000', '0000'], [['eq:0'], ['eq:3']])])]
TWOPH = [('ph', [P('p', ['0000', '0000', '0000'], [['eq:0'], ['eq:1'], ['eq:2']])]),
         ('qh', [P('s', ['0000', '0000'], [['eq:1'], ['eq:3']], singleton=True)])]


def directed():
    """(name, phens, cache, prefix ops, local op, remote op)"""
    out = []
    # the singleton start gate against a peer's run of the same pattern under another identifier
    out.append(('singleton-gate', SING, 1000, [], 'ev e0 0 s 0', 'rem U f0|ph|s|1|g0=y:0:s:0'))
    out.append(('singleton-gate', SING, 0, [], 'ev e0 0 s 0', 'rem U f0|ph|s|1|g0=y:0:s:0'))
    out.append(('singleton-gate-2', TWOPH, 1000, ['ev e0 0 s 0'], 'ev e1 1 s 1', 'rem U f0|qh|s|1|g0=y:1:s:1'))
    # finishing a run locally against a stale / duplicate word about the same run from a peer
    pre = ['ev e0 0 s 0', 'ev e1 1 s 1']
    r0_1 = 'r0|ph|p|1|g0=e0:0:s:0'
    r0_2 = 'r0|ph|p|2|g0=e0:0:s:0;g1=e1:1:s:1'
    r0_3 = 'r0|ph|p|3|g0=e0:0:s:0;g1=e1:1:s:1;g2=z:5:s:2'
    for cache in (1000,):
        out.append(('complete-vs-stale-update', THREE, cache, pre, 'ev e2 2 s 2', 'rem U ' + r0_1))
        out.append(('complete-vs-equal-update', THREE, cache, pre, 'ev e2 2 s 2', 'rem U ' + r0_2))
        out.append(('halt-vs-stale-update', THREE, cache, pre, 'ev e2 2 s 9', 'rem U ' + r0_1))
        out.append(('complete-vs-peer-completion', THREE, cache, pre, 'ev e2 2 s 2', 'rem C ' + r0_3))
        out.append(('complete-vs-peer-halt', THREE, cache, pre, 'ev e2 2 s 2', 'rem H ' + r0_2))
        out.append(('advance-vs-peer-completion', THREE, cache, ['ev e0 0 s 0'], 'ev e1 1 s 1', 'rem C ' + r0_3))
        out.append(('start-vs-peer-completion-and-new', THREE, cache, pre, 'ev e2 2 s 0',
                    'rem C ' + r0_3 + ' U f1|ph|p|1|g0=y:7:s:0'))
    # two runs of one pattern moved by one datum while the peer finishes one of them
    pre2 = ['ev e0 0 s 0', 'ev e1 1 s 0', 'ev e2 2 s 1']
    out.append(('two-runs-vs-peer-completion', THREE, 1000, pre2, 'ev e3 3 s 2',
                'rem C r1|ph|p|3|g0=e1:1:s:0;g1=e2:2:s:1;g2=z:5:s:2'))
    return out


def observe(rd):
    notifs = sorted((tuple(sorted(r.run_id for r in n[0])), tuple(sorted(r.run_id for r in n[1])),
                     tuple(sorted((r.run_id, r.block_index) for r in n[2])), n[3]) for n in rd.rec.notifs
                    if n[0] or n[1] or n[2])
    table = tuple(sorted(pl.show_rec(r.serialize()) for r in rd.dec.all_runs()))
    c, h, u = rd.dec.snapshot()
    return (table, tuple(sorted(x.run_id for x in c)), tuple(sorted(x.run_id for x in h)), tuple(notifs))


def explore_pair(phens, cache, prefix, local_op, remote_op, two=False, max_runs=400):
    """both roles; returns (violation or None, stats)."""
    def build():
        rd = RealDecider(phens, cache)
        for o in prefix:
            rd.do(o)
        rd.rec.notifs.clear()
        return rd

    def locks_of(rd):
        return [rd.dec] + list(rd.dec.all_runs())
    total = {'points': 0, 'runs': 0}
    for (x, y, role) in ((local_op, remote_op, 'engine thread preempted'), (remote_op, local_op, 'distributed thread preempted')):
        v, st = il.explore(build, lambda rd: rd.do(x), lambda rd: rd.do(y), observe, locks_of=locks_of,
                           two_preemptions=two, max_runs=max_runs)
        total['runs'] += st['runs']
        total['points'] = max(total['points'], st['points'])
        if v is not None:
            v['role'] = role
            v['first'], v['second'] = x, y
            return v, total
    return None, total


def scenarios(rng, n_random):
    for name, phens, cache, pre, lo, ro in directed():
        yield {'name': name, 'phens': phens, 'cache': cache, 'prefix': pre, 'local': lo, 'remote': ro}
    tries = 0
    made = 0
    while made < n_random and tries < n_random * 30:
        tries += 1
        phens = gp.random_phens(rng)
        case = gen_history(rng, phens, rng.choice((0, 1000, 1000)), rng.randint(3, 10), p_remote=0.5)
        ops = case.ops
        if len(ops) >= 2 and {ops[-1].split()[0], ops[-2].split()[0]} == {'ev', 'rem'}:
            lo, ro = (ops[-1], ops[-2]) if ops[-1].startswith('ev') else (ops[-2], ops[-1])
            made += 1
            yield {'name': 'random', 'phens': phens, 'cache': case.cache, 'prefix': ops[:-2], 'local': lo, 'remote': ro}


def run_scenarios(res, rng, n_random, sig='not-serialisable', only=None):
    """adds cases / violations to `res`; `only` = replay dict of one scenario."""
    from harness.core import Violation
    scs = [only] if only is not None else scenarios(rng, n_random)
    for sc in scs:
        v, st = explore_pair(sc['phens'], sc['cache'], sc['prefix'], sc['local'], sc['remote'], two=(sc['name'] != 'random'))
        res.add_case({'race': sc['name'], 'local': sc['local'], 'remote': sc['remote'][:60]}, nontrivial=True)
        res.count('race_scenarios')
        res.count('race_interleavings', st['runs'])
        if v is not None:
            res.violations.append(Violation(
                sig,
                f"{sc['name']}: `{v['first'][:70]}` with `{v['second'][:70]}` started on a second thread at scheduling point {v['k']}"
                f"{(' (stopped at its own point %d)' % v['k2']) if v.get('k2') else ''} ({v['role']}) ends in a state no serial order "
                f"of the two gives: {str(v['got'])[:300]}; serial orders give {str(v['allowed'])[:400]}",
                {'race': True, **sc, 'k': v['k'], 'k2': v.get('k2')}))
            return


def attach(ctx, res, n_quick=15, n_thorough=150, sig='not-serialisable'):
    """called at the end of a property's run(): the race scenarios, or the replay of one."""
    rp = ctx.replay['replay'] if ctx.replay is not None else None
    if rp is not None:
        if isinstance(rp, dict) and rp.get('race'):
            sc = {k: rp[k] for k in ('name', 'phens', 'cache', 'prefix', 'local', 'remote')}
            run_scenarios(res, ctx.rng, 0, sig, only=sc)
        return
    run_scenarios(res, ctx.rng, n_thorough if ctx.thorough else n_quick, sig)
