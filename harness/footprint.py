"""
Footprint of a live object: how many objects it keeps alive (reachable through references), not counting code, classes,
modules and the harness's own objects (recorders, doubles).  Used on long hauls: what a component keeps must be bounded by
what its public state shows (active runs, their histories, the bounded finished-run memory, queued items) — something that
"must not grow" and grows one entry per event does so without any functional difference for hours.
"""
import gc
import types

_SKIP = (type, types.ModuleType, types.FunctionType, types.BuiltinFunctionType, types.CodeType, types.MethodType,
         types.MethodDescriptorType, types.WrapperDescriptorType, types.GetSetDescriptorType, types.MemberDescriptorType)


def footprint(root, stop=()):
    """(number of objects reachable from `root`, {type name: count} of the most frequent)"""
    seen = {id(root)}
    todo = [root]
    by_type = {}
    while todo:
        o = todo.pop()
        for r in gc.get_referents(o):
            if id(r) in seen or isinstance(r, _SKIP):
                continue
            m = getattr(type(r), '__module__', '') or ''
            if m.startswith('harness') or m in ('threading', '_thread', 'logging') or any(r is s for s in stop):
                continue
            seen.add(id(r))
            by_type[type(r).__name__] = by_type.get(type(r).__name__, 0) + 1
            todo.append(r)
    return len(seen), by_type
