"""
C09 — Replicated run state survives the wire unchanged.

Every generated run record is pushed through the REAL path

    BoboRunSerial.to_json_str -> BoboDistributedTCP._outgoing_to_json -> _tcp_send (header line + real
    BoboDistributedCryptoAES.encrypt; only the `socket` module global of bobocep.dist.tcp is replaced by a
    recorder) -> bytes -> crypto.decrypt -> _split_plaintext -> _incoming_from_json (object hook)

Oracle (independent of the model): (a) the received records equal the sent ones field by field (own
structural equality: the bobocep classes define no __eq__; int/float/bool and dict key order are
compared strictly), (b) re-serialising the received records / message gives the same text, and the
header parts come back unchanged.

D-tie: the same records, in a line syntax, go to the Lean model (`bobodrv json`), which prints the
text of `encodeRun` / `encodeMsg` under a `dumps` with Python's defaults; the texts must be equal
character by character (nesting, key order, which values are strings-containing-JSON and how often
their escapes were doubled), the model's count of dicts in the outer parse must equal the number of
object-hook calls observed on the real decoder, and `splitPlain` must agree with `_split_plaintext`.
"""
import itertools
import copy
import json
import math
import time
import types

from harness.core import PropSpec, Result, Violation, Ctx, run_model, CORPUS

import bobocep.dist.tcp as tcp_mod
from bobocep.cep.engine.decider.runserial import BoboRunSerial
from bobocep.cep.event import BoboHistory, BoboEventSimple, BoboEventComplex, BoboEventAction
from bobocep.dist.crypto.aes import BoboDistributedCryptoAES
from bobocep.dist.device import BoboDevice
from bobocep.dist.tcp import BoboDistributedTCP, _IncomingJSONDecoder


# --------------------------------------------------------------------------
# the real endpoints (no sockets)
# --------------------------------------------------------------------------

class _StubDecider:
    def subscribe(self, s):
        pass


class _FakeSock:
    def __init__(self, rec):
        self.rec = rec

    def settimeout(self, t):
        pass

    def connect(self, a):
        pass

    def sendall(self, b):
        self.rec.append(bytes(b))

    def close(self):
        pass


class Wire:
    """one sender and one receiver instance of the real BoboDistributedTCP sharing an AES key."""

    def __init__(self, urn='urn:dev:a', key='key-a_1', aes='0123456789abcdef0123456789abcdef'):
        self.devs = [BoboDevice(addr='127.0.0.1', port=9001, urn=urn, id_key=key),
                     BoboDevice(addr='127.0.0.1', port=9002, urn='urn:dev:b', id_key='key-b')]
        self.urn, self.key = urn, key
        self.crypto_tx = BoboDistributedCryptoAES(aes)
        self.crypto_rx = BoboDistributedCryptoAES(aes)
        self.tx = BoboDistributedTCP(urn=urn, decider=_StubDecider(), devices=self.devs, crypto=self.crypto_tx)
        self.rx = BoboDistributedTCP(urn='urn:dev:b', decider=_StubDecider(), devices=self.devs, crypto=self.crypto_rx)

    def send_bytes(self, msg_type, flags, text):
        """the real _tcp_send with the socket module replaced by a recorder -> the bytes put on the wire."""
        rec = []
        fake = types.SimpleNamespace(socket=lambda *a, **k: _FakeSock(rec), AF_INET=0, SOCK_STREAM=0)
        old = tcp_mod.socket
        tcp_mod.socket = fake
        try:
            rc = self.tx._tcp_send(self.tx._devices['urn:dev:b'], msg_type, flags, text)
        finally:
            tcp_mod.socket = old
        if rc != 0 or len(rec) != 1:
            raise RuntimeError(f'_tcp_send returned {rc} with {len(rec)} writes')
        return rec[0]


class HookSpy:
    """counts calls of the real object hook (class attribute replaced from the harness, restored afterwards)."""

    def __enter__(self):
        self.calls = 0
        self.orig = _IncomingJSONDecoder.object_hook
        spy = self

        def hook(dec, d):
            spy.calls += 1
            return spy.orig(dec, d)
        _IncomingJSONDecoder.object_hook = hook
        return self

    def __exit__(self, *a):
        _IncomingJSONDecoder.object_hook = self.orig


# --------------------------------------------------------------------------
# record specs (plain JSON-able data = the replay) -> real objects / model tokens
# --------------------------------------------------------------------------

def build_event(s):
    k = s['k']
    data = copy.deepcopy(s['data'])        # the event owns its data (the harness changes it in place later; the spec stays)
    if k == 'S':
        return BoboEventSimple(s['id'], s['ts'], data)
    if k == 'A':
        return BoboEventAction(s['id'], s['ts'], data, s['phen'], s['pat'], s['act'], s['ok'])
    if k == 'C':
        return BoboEventComplex(s['id'], s['ts'], data, s['phen'], s['pat'], build_hist(s['hist']))
    raise ValueError(k)


_LATE = BoboEventSimple('late', -1, 'appended by the caller after the history was built')


def build_hist(h):
    d = {name: [build_event(e) for e in evs] for name, evs in h}
    hist = BoboHistory(d)
    # the caller goes on using ITS dictionary and lists: a history (and the record holding it, wherever it waits before it
    # is serialised) is a snapshot of what it was given
    for name in list(d):
        d[name].append(_LATE)
    d['late-group'] = [_LATE]
    return hist


def build_run(r):
    return BoboRunSerial(r['run_id'], r['phen'], r['pat'], r['idx'], build_hist(r['hist']))


def tok_s(s):
    return 'x' + ''.join('%06x' % ord(c) for c in s)


def has_surrogate(x):
    if isinstance(x, str):
        return any(0xD800 <= ord(c) <= 0xDFFF for c in x)
    if isinstance(x, list):
        return any(has_surrogate(v) for v in x)
    if isinstance(x, dict):
        return any(has_surrogate(k) or has_surrogate(v) for k, v in x.items())
    return False


def tok_j(v, out):
    if v is None:
        out.append('n')
    elif v is True:
        out.append('t')
    elif v is False:
        out.append('f')
    elif isinstance(v, int):
        out.append('i%d' % v)
    elif isinstance(v, float):
        out.append('d' + repr(v))
    elif isinstance(v, str):
        out.append(tok_s(v))
    elif isinstance(v, list):
        out += ['a', str(len(v))]
        for x in v:
            tok_j(x, out)
    elif isinstance(v, dict):
        out += ['o', str(len(v))]
        for k, x in v.items():
            out.append(tok_s(k))
            tok_j(x, out)
    else:
        raise TypeError(type(v))


def tok_event(s, out):
    out += [s['k'], tok_s(s['id']), str(s['ts'])]
    tok_j(s['data'], out)
    if s['k'] == 'A':
        out += [tok_s(s['phen']), tok_s(s['pat']), tok_s(s['act']), '1' if s['ok'] else '0']
    elif s['k'] == 'C':
        out += [tok_s(s['phen']), tok_s(s['pat'])]
        tok_hist(s['hist'], out)


def tok_hist(h, out):
    out += ['H', str(len(h))]
    for name, evs in h:
        out += [tok_s(name), str(len(evs))]
        for e in evs:
            tok_event(e, out)


def tok_run(r):
    out = ['R', tok_s(r['run_id']), tok_s(r['phen']), tok_s(r['pat']), str(r['idx'])]
    tok_hist(r['hist'], out)
    return ' '.join(out)


def depth_hist(h):
    d = 0
    for _, evs in h:
        for e in evs:
            if e['k'] == 'C':
                d = max(d, 1 + depth_hist(e['hist']))
    return d


def count_events(h):
    n = 0
    for _, evs in h:
        for e in evs:
            n += 1
            if e['k'] == 'C':
                n += count_events(e['hist'])
    return n


def spec_has_surrogate(h):
    for name, evs in h:
        if has_surrogate(name):
            return True
        for e in evs:
            if any(has_surrogate(e.get(f)) for f in ('id', 'data', 'phen', 'pat', 'act')):
                return True
            if e['k'] == 'C' and spec_has_surrogate(e['hist']):
                return True
    return False


# --------------------------------------------------------------------------
# the oracle: structural equality of the real objects, strict about types and order
# --------------------------------------------------------------------------

def data_diff(a, b, path):
    if type(a) is not type(b):
        return f'{path}: type {type(a).__name__} vs {type(b).__name__}'
    if isinstance(a, float):
        if a != b or math.copysign(1.0, a) != math.copysign(1.0, b):
            return f'{path}: {a!r} vs {b!r}'
        return None
    if isinstance(a, list):
        if len(a) != len(b):
            return f'{path}: length {len(a)} vs {len(b)}'
        for i, (x, y) in enumerate(zip(a, b)):
            d = data_diff(x, y, f'{path}[{i}]')
            if d:
                return d
        return None
    if isinstance(a, dict):
        if list(a.keys()) != list(b.keys()):
            return f'{path}: keys {list(a.keys())!r} vs {list(b.keys())!r}'
        for k in a:
            d = data_diff(a[k], b[k], f'{path}[{k!r}]')
            if d:
                return d
        return None
    if a != b:
        return f'{path}: {a!r} vs {b!r}'
    return None


def event_diff(a, b, path):
    if type(a) is not type(b):
        return f'{path}: kind {type(a).__name__} vs {type(b).__name__}'
    for f in ('event_id', 'timestamp', 'data'):
        d = data_diff(getattr(a, f), getattr(b, f), f'{path}.{f}')
        if d:
            return d
    if isinstance(a, (BoboEventComplex, BoboEventAction)):
        for f in ('phenomenon_name', 'pattern_name'):
            d = data_diff(getattr(a, f), getattr(b, f), f'{path}.{f}')
            if d:
                return d
    if isinstance(a, BoboEventAction):
        for f in ('action_name', 'success'):
            d = data_diff(getattr(a, f), getattr(b, f), f'{path}.{f}')
            if d:
                return d
    if isinstance(a, BoboEventComplex):
        return hist_diff(a.history, b.history, path + '.history')
    return None


def hist_diff(a, b, path):
    if type(a) is not type(b):
        return f'{path}: {type(a).__name__} vs {type(b).__name__}'
    ea, eb = a.events, b.events
    if list(ea.keys()) != list(eb.keys()):
        return f'{path}: groups {list(ea.keys())!r} vs {list(eb.keys())!r}'
    for g in ea:
        if len(ea[g]) != len(eb[g]):
            return f'{path}[{g!r}]: {len(ea[g])} vs {len(eb[g])} events'
        for i, (x, y) in enumerate(zip(ea[g], eb[g])):
            d = event_diff(x, y, f'{path}[{g!r}][{i}]')
            if d:
                return d
    if a.size() != b.size() or a.all_groups() != b.all_groups():
        return f'{path}: size/groups accessors differ'
    for f in ('first', 'last'):
        x, y = getattr(a, f)(), getattr(b, f)()
        if (x is None) != (y is None) or (x is not None and (x.event_id != y.event_id or x.timestamp != y.timestamp)):
            return f'{path}.{f}() differs'
    return None


def run_diff(a, b, path='run'):
    if type(a) is not type(b):
        return f'{path}: {type(a).__name__} vs {type(b).__name__}'
    for f in ('run_id', 'phenomenon_name', 'pattern_name', 'block_index'):
        d = data_diff(getattr(a, f), getattr(b, f), f'{path}.{f}')
        if d:
            return d
    return hist_diff(a.history, b.history, path + '.history')


# --------------------------------------------------------------------------
# generators
# --------------------------------------------------------------------------

ATOMS = [None, True, False, 0, 1, -1, 2 ** 53, 2 ** 53 + 1, -2 ** 63, 10 ** 30, 1.0, -0.0, 0.1, 1e16, 1e-7, 5e-324,
         1.7976931348623157e308, -2.5, 1e22, 123456789.12345678,
         '', 'a', '  ', 'a  b   c', 'q"uote', 'back\\slash', 'nul\x00mid', 'BOBO', 'xBOBO\x00', 'é', '\U0001F600', ' ', 'line\nbreak\t\r\x08\x0c',
         ' ', '}', ' } ', '{"completed": []}', '\x1f\x7f', '\\"', '\\u0041', 'type_simple', '日本語']
SIX = [None, 7, 1.0, 'q"\\\x00BOBO', ['completed', 1.5, None], {'completed': ['x'], 'halted': {'updated': 1}, 'history': 'h', 'event_type': 'type_action', '': 0}]
KEYS = ['completed', 'halted', 'updated', 'history', 'event_type', 'event_id', 'data', '', 'k', 'a b', 'q"', 'back\\', 'é', 'nul\x00', 'BOBO', '1']
IDS = ['e', 'id_1', 'urn:x_17_0', 'a b', 'q"', 'b\\', 'é\U0001F600', 'n\x00', 'BOBO', ' ', '{', '"', 'type_complex', 'completed']
GROUPS = ['', 'g', 'g2', 'a b', 'q"', 'é', 'completed', 'history', 'BOBO', 'n\x00', '\\', 'event_type']
NAMES = ['ph', 'pat', 'p q', 'q"', 'é', 'x\x00', 'BOBO', 'completed', '\\']
TS = [0, 1, -1, 1700000000, 1700000000123, 1700000000123456789, 2 ** 31, 2 ** 53 + 1, 2 ** 63, 10 ** 20 + 1, -5]


def gen_data(rng, depth):
    r = rng.random()
    if depth <= 0 or r < 0.55:
        return rng.choice(ATOMS)
    if r < 0.78:
        return [gen_data(rng, depth - 1) for _ in range(rng.randint(0, 4))]
    d = {}
    for _ in range(rng.randint(0, 4)):
        d[rng.choice(KEYS)] = gen_data(rng, depth - 1)
    return d


def gen_event(rng, depth, budget):
    kinds = ['S', 'A'] + (['C', 'C'] if depth > 0 else [])
    k = rng.choice(kinds)
    e = {'k': k, 'id': rng.choice(IDS), 'ts': rng.choice(TS) if rng.random() < 0.5 else rng.randint(-10, 10 ** 10),
         'data': gen_data(rng, rng.randint(0, 3))}
    if k in ('A', 'C'):
        e['phen'], e['pat'] = rng.choice(NAMES), rng.choice(NAMES)
    if k == 'A':
        e['act'], e['ok'] = rng.choice(NAMES), rng.random() < 0.5
    if k == 'C':
        e['hist'] = gen_hist(rng, depth - 1, budget, allow_empty=True)
    return e


def gen_hist(rng, depth, budget, allow_empty=False):
    ng = rng.randint(0 if allow_empty else 1, budget[0])
    names = rng.sample(GROUPS, min(ng, len(GROUPS)))
    return [[n, [gen_event(rng, depth, budget) for _ in range(rng.randint(1, budget[1]))]] for n in names]


def gen_run(rng, depth, budget=(3, 3)):
    return {'run_id': rng.choice(IDS), 'phen': rng.choice(NAMES), 'pat': rng.choice(NAMES + ['']),
            'idx': rng.choice([1, 2, 3, 17, 2 ** 40, 2 ** 53 + 1]), 'hist': gen_hist(rng, depth, budget)}


def ev_simple(data, i=0):
    return {'k': 'S', 'id': 'e%d' % i, 'ts': 5 + i, 'data': data}


def ev_action(data, i=0):
    return {'k': 'A', 'id': 'a%d' % i, 'ts': 7 + i, 'data': data, 'phen': 'ph', 'pat': 'pat', 'act': 'act', 'ok': i % 2 == 0}


def ev_complex(data, hist, i=0):
    return {'k': 'C', 'id': 'c%d' % i, 'ts': 6 + i, 'data': data, 'phen': 'ph', 'pat': 'pat', 'hist': hist}


def exhaustive_runs(thorough):
    """small shapes: <= 2 groups x <= 2 events, 10 event shapes of depth <= 2, 6 data atoms."""
    def kinds(data):
        base = [ev_simple(data), ev_action(data)]
        d1 = [ev_complex(data, [['g', [b]]]) for b in base] + \
             [ev_complex(data, [['', [base[0]]], ['g', [base[1], base[0]]]]), ev_complex(data, [])]
        d2 = [ev_complex(data, [['k', [c]]]) for c in d1]
        return base + d1 + d2
    layouts = [[1], [2], [1, 1]] + ([[2, 1], [1, 2]] if thorough else [])
    names = ['g1', '']
    for di, data in enumerate(SIX):
        ks = kinds(data)
        for lay in layouts:
            n = sum(lay)
            for combo in itertools.product(range(len(ks)), repeat=n):
                evs = [dict(ks[c]) for c in combo]
                for j, e in enumerate(evs):
                    e['id'] = e['id'] + '_%d' % j
                hist, p = [], 0
                for gi, m in enumerate(lay):
                    hist.append([names[gi], evs[p:p + m]])
                    p += m
                yield {'run_id': 'r%d' % di, 'phen': 'ph', 'pat': 'pat' if di % 2 else '', 'idx': 1 + di, 'hist': hist}


def corpus_runs():
    d = CORPUS / 'C09'
    if d.is_dir():
        for p in sorted(d.glob('*.json')):
            yield json.loads(p.read_text())


def all_cases(ctx: Ctx):
    for r in corpus_runs():
        yield 'corpus', r
    for r in exhaustive_runs(ctx.thorough):
        yield 'exhaustive', r
    rng = ctx.rng
    for _ in range(20000 if ctx.thorough else 1000):
        d = rng.choice([0, 1, 1, 2, 2])
        yield 'random', gen_run(rng, d, budget=((3, 4), (3, 3), (2, 3))[d])
    for _ in range(300 if ctx.thorough else 25):
        yield 'random_deep', gen_run(rng, 3, budget=(2, 2))
    for _ in range(20 if ctx.thorough else 3):     # large histories
        yield 'random_large', gen_run(rng, rng.choice([0, 1]), budget=(8, 25))
    # strings that are not Unicode text (lone surrogates): python-only, no model comparison
    for s in ['\ud800', 'a\udfffb']:
        yield 'surrogate', {'run_id': 'r' + s, 'phen': 'ph', 'pat': 'pat', 'idx': 1, 'hist': [[s, [ev_simple({s: [s]})]]]}


# --------------------------------------------------------------------------
# one case through the real path
# --------------------------------------------------------------------------

LAYOUTS = [([0], [], []), ([], [0], []), ([], [], [0]), ([0], [1], [0, 1]), ([], [], [])]
MSG_KEYS = ('completed', 'halted', 'updated')


def real_path(wire: Wire, specs, layout, msg_type, flags):
    """returns (violation or None, observations for the model comparison)."""
    runs = [build_run(s) for s in specs]
    texts = [r.to_json_str() for r in runs]
    msg = {k: [runs[i] for i in ixs] for k, ixs in zip(MSG_KEYS, layout)}
    out = wire.tx._outgoing_to_json(msg)
    obs = {'texts': texts, 'msg': out}
    wire_bytes = wire.send_bytes(msg_type, flags, out)
    plain = wire.crypto_rx.decrypt(wire_bytes)
    obs['plain'] = plain
    if not plain.endswith('}'):
        return ('plaintext-tail', f'plaintext does not end in "}}": {plain[-8:]!r}'), obs
    urn, key, ty, fl, js = wire.rx._split_plaintext(plain)
    if (urn, key, ty, fl, js) != (wire.urn, wire.key, msg_type, flags, out):
        return ('header-split-differs', f'_split_plaintext returned {(urn, key, ty, fl)!r} and a text of {len(js)} chars '
                                        f'for header {(wire.urn, wire.key, msg_type, flags)!r} and a text of {len(out)} chars'), obs
    with HookSpy() as spy:
        incoming = wire.rx._incoming_from_json(js)
    obs['hook_calls'] = spy.calls
    if list(incoming.keys()) != list(MSG_KEYS):
        return ('message-differs', f'received keys {list(incoming.keys())!r}'), obs
    for k, ixs in zip(MSG_KEYS, layout):
        got = incoming[k]
        if len(got) != len(ixs):
            return ('message-differs', f'{k}: {len(got)} records received for {len(ixs)} sent'), obs
        for pos, (i, g) in enumerate(zip(ixs, got)):
            d = run_diff(runs[i], g, f'{k}[{pos}]')
            if d:
                return ('record-differs', 'received run record differs from the one sent: ' + d), obs
            t2 = g.to_json_str()
            if t2 != texts[i]:
                return ('retext-differs', f'{k}[{pos}]: re-serialised text differs from the sent text '
                                          f'(first difference at char {next((j for j, (x, y) in enumerate(zip(t2, texts[i])) if x != y), min(len(t2), len(texts[i])))})'), obs
    out2 = wire.rx._outgoing_to_json(incoming)
    if out2 != out:
        return ('retext-differs', 're-serialised message differs from the sent message text'), obs
    # the record on its own, and its parts on their own
    for r, t in zip(runs, texts):
        d = run_diff(r, BoboRunSerial.from_json_str(t), 'from_json_str')
        if d:
            return ('record-differs', 'BoboRunSerial.from_json_str(to_json_str()) differs: ' + d), obs
        h2 = BoboHistory.from_json_str(r.history.to_json_str())
        d = hist_diff(r.history, h2, 'history')
        if d:
            return ('record-differs', 'BoboHistory.from_json_str(to_json_str()) differs: ' + d), obs
    # the same message delivered a second time after the RECEIVER's consumer changed, in place, data of the events it was
    # given the first time (unit conversion, enrichment): every delivery is rebuilt from the wire, not from objects handed out
    # earlier
    if any(mutate_in_place(g.history) for k in MSG_KEYS for g in incoming[k]):
        again = wire.rx._incoming_from_json(js)
        for k, ixs in zip(MSG_KEYS, layout):
            for pos, (i, g) in enumerate(zip(ixs, again[k])):
                d = run_diff(runs[i], g, f'second-delivery {k}[{pos}]')
                if d:
                    return ('record-differs', 'the same message delivered again after the receiver changed data of the first delivery '
                                              'in place is not the record sent: ' + d), obs
    # the same records once more AFTER their owner changed event data in place (one reading dict reused by a sensor loop, a
    # live status list): what goes on the wire now is the state as it is now, not a text remembered from the first time
    changed = [r for r in runs if mutate_in_place(r.history)]
    if changed:
        out3 = wire.tx._outgoing_to_json({MSG_KEYS[0]: changed, MSG_KEYS[1]: [], MSG_KEYS[2]: list(changed)})
        back = wire.rx._incoming_from_json(out3)
        for pos, (r, g) in enumerate(zip(changed, back[MSG_KEYS[0]])):
            d = run_diff(r, g, f'second-serialisation[{pos}]')
            if d:
                return ('record-differs', 'a record serialised again after event data changed in place arrives with the OLD state: ' + d), obs
    return None, obs


def mutate_in_place(h, _n=[0]):
    """append to every list / set a key in every dict that is the data of an event of the history (any depth)"""
    k = 0
    for _, evs in h.events.items():
        for e in evs:
            d = e.data
            if type(d) is dict:
                _n[0] += 1
                d['zz_late'] = _n[0]
                k += 1
            elif type(d) is list:
                _n[0] += 1
                d.append(_n[0])
                k += 1
            if isinstance(e, BoboEventComplex):
                k += mutate_in_place(e.history)
    return k


def run_case(wire, res, family, spec, prev, k, lines, expect, cases_for_model):
    layout = LAYOUTS[k % len(LAYOUTS)] if prev is not None else LAYOUTS[k % 3]
    if family == 'random_large':
        layout = LAYOUTS[k % 3]
    specs = [spec] + ([prev] if any(1 in l for l in layout) else [])
    msg_type, flags = (0, 2, 0, 2)[k % 4], (k // 2) % 2
    case = {'specs': specs, 'layout': [list(l) for l in layout], 'type': msg_type, 'flags': flags}
    d = depth_hist(spec['hist'])
    res.add_case(case if len(json.dumps(case)) < 4000 else {'family': family, 'k': k}, nontrivial=(d > 0 or count_events(spec['hist']) > 1))
    res.count('family_' + family)
    res.count('depth_%d' % d)
    res.count('events_' + ('1' if count_events(spec['hist']) == 1 else '2-9' if count_events(spec['hist']) < 10 else '10+'))
    if any(n == '' for n, _ in spec['hist']):
        res.count('empty_group_name')
    try:
        viol, obs = real_path(wire, specs, layout, msg_type, flags)
    except Exception as e:  # the path must not raise on a valid record
        viol, obs = ('decode-raises', f'{e.__class__.__name__} on the wire path: {str(e)[:160]}'), {}
    if viol:
        res.violations.append(Violation(viol[0], viol[1], case))
        return
    if any(spec_has_surrogate(s['hist']) or has_surrogate(s['run_id']) for s in specs):
        res.count('no_model_surrogate')
        return
    # model comparison lines
    lines.append('reset')
    expect.append('ok')
    for s, t in zip(specs, obs['texts']):
        lines.append('def ' + tok_run(s))
        expect.append(t)
    ix = ['-' if not l else ','.join(map(str, l)) for l in layout]
    lines.append('msg ' + ' '.join(ix))
    expect.append(obs['msg'])
    lines.append('dicts ' + ' '.join(ix))
    expect.append(str(obs['hook_calls']))
    # header split: the whole plaintext when short, else its first 400 characters (the JSON part is arbitrary text for the split)
    plain = obs['plain'] if len(obs['plain']) <= 4096 else obs['plain'][:400]
    u, ky, ty, fl, js = wire.rx._split_plaintext(plain)
    lines.append('split ' + tok_s(plain))
    expect.append('ok %s %s %d %d %s' % (tok_s(u), tok_s(ky), ty, fl, tok_s(js)))
    cases_for_model.append(case)


def parts_and_malformed(wire, res, rng, lines, expect):
    """events / histories on their own, and the malformed plaintext stream of _split_plaintext."""
    for i in range(60):
        e = gen_event(rng, 2, (2, 2))
        if spec_has_surrogate([['g', [e]]]):
            continue
        ob = build_event(e)
        t = ob.to_json_str()
        out = []
        tok_event(e, out)
        lines.append('ev ' + ' '.join(out))
        expect.append(t)
        from bobocep.cep.event import BoboEventFactory
        res.add_case({'event': e}, nontrivial=False)
        try:
            d = event_diff(ob, BoboEventFactory.from_json_str(t), 'event')
            if d:
                res.violations.append(Violation('record-differs', 'BoboEventFactory.from_json_str(to_json_str()) differs: ' + d, {'event': e}))
        except Exception as ex:
            res.violations.append(Violation('decode-raises', f'BoboEventFactory.from_json_str(to_json_str()) raises {ex.__class__.__name__}: {str(ex)[:120]}', {'event': e}))
        if e['k'] == 'C':
            out = []
            tok_hist(e['hist'], out)
            lines.append('hist ' + ' '.join(out))
            expect.append(ob.history.to_json_str())
    bad = ['', 'a', 'a b', 'a b 0', 'a b 0 1', 'a b 0 1 ', 'a b 0 1 {}', 'a b x 1 {}', 'a b 0 y {}', ' b 0 1 {}', 'a  0 1 {}',
           'a b 0 1 {"k": "v w"} tail', 'a b  1 {}', 'u k 2 0 {"a b": [1, 2]}', 'u k 12 -3 x y z']
    for p in bad:
        try:
            r = wire.rx._split_plaintext(p)
            exp = 'ok %s %s %d %d %s' % (tok_s(r[0]), tok_s(r[1]), r[2], r[3], tok_s(r[4]))
        except Exception:
            exp = 'err'
        res.count('malformed_plaintext' if exp == 'err' else 'wellformed_plaintext')
        lines.append('split ' + tok_s(p))
        expect.append(exp)
    for l in ['def R', 'msg 0 0', 'nonsense', 'def R x000061 x000061 x000061 1 H 1 x 1 S x00006 1 n', 'msg 5 - -', 'ev S x 1 n extra']:
        lines.append(l)
        expect.append('bad-op')


def spaced_identity(res):
    """a urn / id_key with an inner space must be rejected by BoboDevice (else the header cannot be split back)."""
    spec = {'run_id': 'r', 'phen': 'p', 'pat': 'q', 'idx': 1, 'hist': [['g', [ev_simple({'a b': ' '})]]]}
    for urn, key in (('urn a', 'k'), ('urn', 'k 1'), (' urn', 'k'), ('urn', 'k ')):
        try:
            w = Wire(urn=urn, key=key)
        except Exception:
            res.count('spaced_identity_rejected')
            continue
        w.urn, w.key = w.devs[0].urn, w.devs[0].id_key      # outer whitespace is stripped by BoboDevice
        res.count('spaced_identity_accepted')
        case = {'specs': [spec], 'layout': [[0], [], []], 'type': 0, 'flags': 0, 'urn': urn, 'key': key}
        res.add_case(case, nontrivial=False)
        try:
            viol, _ = real_path(w, [spec], LAYOUTS[0], 0, 0)
        except Exception as e:
            viol = ('decode-raises', f'{e.__class__.__name__} on the wire path: {str(e)[:160]}')
        if viol:
            res.violations.append(Violation(viol[0], f'device urn={urn!r} id_key={key!r}: ' + viol[1], case))


def boundary_notes(res):
    """what lies outside "JSON-representable" (recorded, not judged)."""
    def rt(data):
        r = build_run({'run_id': 'r', 'phen': 'p', 'pat': 'q', 'idx': 1, 'hist': [['g', [ev_simple(data)]]]})
        try:
            return BoboRunSerial.from_json_str(r.to_json_str()).history.all_events()[0].data
        except Exception as e:
            return e.__class__.__name__
    res.notes.append('outside JSON-representable (not judged): tuple (1,2) -> %r; int key {1: 2} -> %r; nan -> %r; 10**5000 -> %r'
                     % (rt((1, 2)), rt({1: 2}), rt(float('nan')), rt(10 ** 5000)))
    try:
        BoboHistory({'g': []}).to_json_str()
        empty = BoboHistory({'g': []}).all_groups()
    except Exception as e:
        empty = e.__class__.__name__
    res.notes.append('BoboHistory({"g": []}).all_groups() = %r (a history with an empty group cannot be constructed)' % (empty,))


def compare_with_model(ctx, res, lines, expect, ncases):
    if not ctx.model_available():
        res.notes.append('model driver unavailable: correspondence not run')
        res.disagreements.append({'correspondence': 'json', 'error': 'model driver did not build'})
        return
    out = None
    for attempt in range(12):       # another check's `lake build` may be relinking the shared driver binary right now
        try:
            out = run_model('json', lines)
            break
        except (RuntimeError, OSError) as e:
            err = str(e)
            time.sleep(5)
    if out is None:
        res.notes.append('model driver could not be run: ' + err[:200])
        res.disagreements.append({'correspondence': 'json', 'error': 'model driver could not be run: ' + err[:200]})
        return
    res.traces_validated = ncases
    for k, (m, i) in enumerate(zip(out, expect)):
        if m != i:
            j = next((p for p, (x, y) in enumerate(zip(m, i)) if x != y), min(len(m), len(i)))
            res.disagreements.append({'op_index': k, 'op': lines[k][:300], 'first_difference_at': j,
                                      'model': m[max(0, j - 60):j + 60], 'impl': i[max(0, j - 60):j + 60]})
            if len(res.disagreements) > 5:
                break


def run(ctx: Ctx) -> Result:
    res = Result()
    wire = Wire()
    lines, expect, model_cases = [], [], []
    if ctx.replay is not None:
        c = ctx.replay['replay']
        if c.get('history_race'):
            from harness import history_race
            history_race.run(res, only=c)
            return res
        if 'specs' in c:
            try:
                if 'urn' in c:
                    wire = Wire(urn=c['urn'], key=c['key'])
                    wire.urn, wire.key = wire.devs[0].urn, wire.devs[0].id_key
                viol, _ = real_path(wire, c['specs'], [list(l) for l in c['layout']], c['type'], c['flags'])
            except Exception as e:
                viol = ('decode-raises', f'{e.__class__.__name__}: {str(e)[:160]}')
            res.add_case(c)
            if viol:
                res.violations.append(Violation(viol[0], viol[1], c))
        elif 'event' in c:
            from bobocep.cep.event import BoboEventFactory
            res.add_case(c)
            try:
                ob = build_event(c['event'])
                d = event_diff(ob, BoboEventFactory.from_json_str(ob.to_json_str()), 'event')
                if d:
                    res.violations.append(Violation('record-differs', 'BoboEventFactory.from_json_str(to_json_str()) differs: ' + d, c))
            except Exception as e:
                res.violations.append(Violation('decode-raises', f'{e.__class__.__name__}: {str(e)[:160]}', c))
        return res
    prev = None
    wires = [wire, Wire(urn='u', key='k', aes='abcdefghijklmnop'), Wire(urn='ürn:é', key='k"\\', aes='0123456789abcdef01234567')]
    for k, (family, spec) in enumerate(all_cases(ctx)):
        run_case(wires[k % len(wires)] if k % 7 == 0 else wire, res, family, spec, prev, k, lines, expect, model_cases)
        if family != 'random_large':
            prev = spec
        if len(res.violations) > 20:
            break
    parts_and_malformed(wire, res, ctx.rng, lines, expect)
    spaced_identity(res)
    boundary_notes(res)
    compare_with_model(ctx, res, lines, expect, len(model_cases))
    # the record being written out is the live object other threads read (and write out themselves) at the same time
    from harness import history_race
    history_race.run(res)
    res.exhaustive = True
    return res


def search(ctx: Ctx) -> Result:
    """failing-input search on the real code alone: the exhaustive family at the thorough bounds, then random."""
    res = Result()
    wire = Wire()
    rng = ctx.rng

    def one(spec, k):
        layout = LAYOUTS[k % 3]
        res.evaluations += 1
        try:
            viol, _ = real_path(wire, [spec], layout, 0, k % 2)
        except Exception as e:
            viol = ('decode-raises', f'{e.__class__.__name__} on the wire path: {str(e)[:160]}')
        if viol:
            res.violations.append(Violation(viol[0], viol[1], {'specs': [spec], 'layout': [list(l) for l in layout], 'type': 0, 'flags': k % 2}))
            return True
        return False
    spaced_identity(res)
    if res.violations:
        return res
    for k, spec in enumerate(itertools.chain(corpus_runs(), exhaustive_runs(False))):
        if one(spec, k):
            return res
    for k in range(4000):
        if one(gen_run(rng, rng.choice([0, 1, 2, 3]), budget=(2, 3)), k):
            return res
    return res


SPEC = PropSpec(
    prop='C09',
    translators=['serial'],
    run=run,
    search=search,
    rule='corpus records first; then every run record with <= 2 groups x <= 2 events (3 events in thorough) over 10 event shapes '
         '(simple, action, 4 complex of depth 1 incl. an empty history and the group name "", 4 complex of depth 2) x 6 data values '
         '(incl. a dict with the keys completed/halted/updated/history/event_type); then seeded random records of depth 0-3 with ids, '
         'group names and data drawn from pools with quotes, backslashes, NUL, the marker BOBO, spaces, braces, non-BMP and int/float edge '
         'values, plus large histories; each record is sent in one of 5 message layouts over 3 sender identities; a case is non-trivial '
         'when it nests or holds more than one event; distinct = distinct (records, layout, type, flags)',
    trusted_base=['the Lean theorems are about the STRUCTURE of the encoding over an abstract text codec; that json.dumps/json.loads is an '
                  'exact codec on JSON values is a hypothesis (structure field Codec.loads_dumps), exercised here on every generated value',
                  'harness test double: only the `socket` module global of bobocep.dist.tcp is replaced (a recorder); header formatting, '
                  'AES-GCM encryption/decryption, _split_plaintext, the JSON encoder/decoder and the object hook are the real ones',
                  'translate/serial.py reads attribute types from constructor annotations (a parameter annotated BoboHistory is taken to '
                  'hold a BoboHistory)'],
    assumptions=['json.loads(json.dumps(v)) == v (types and dict order included) for every JSON value v: dict with str keys, list, str, '
                 'int, finite float, bool, None',
                 'event data, ids and names are JSON values / str; tuples, non-str dict keys, NaN/Infinity, BoboJSONable objects inside '
                 'data and ints beyond CPython\'s int-to-str digit limit are outside "JSON-representable"',
                 'run records exist, i.e. passed their constructors (non-empty ids, block_index >= 1, non-empty history; a BoboHistory '
                 'has pairwise distinct group names and no empty group)',
                 'decoding recursion is bounded by the nesting depth + 1 (Python: below the interpreter recursion limit)',
                 'urn and id_key contain no space (BoboDevice.__init__ rejects them); AES round trip is C17\'s theorem, sampled here'],
    model_covers='to_json_dict/to_json_str/from_json_str/from_json_dict of BoboRunSerial, BoboHistory (incl. __init__ dropping empty '
                 'groups), BoboEventSimple/Complex/Action (incl. constructor checks), BoboEventFactory dispatch; _OutgoingJSONEncoder, '
                 '_IncomingJSONDecoder.object_hook applied to every dict, _outgoing_to_json, _incoming_from_json; header line of '
                 '_tcp_send and _split_plaintext',
)
