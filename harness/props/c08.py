"""
C08 — No deadlock between engine, replication and input threads.

G-tie: translate/locks.py extracts the lock-acquisition table (held lock
classes -> newly acquired lock class, per thread role) from the source;
Props/C08.lean proves that the generated table satisfies the gated rank
discipline (`graph_ranked`, kernel-evaluated) and that every system of
threads conforming to such a table is deadlock-free (`bobocep_no_deadlock`,
unbounded in threads, lock instances, program length).

D-tie (this file): `threading.RLock` is replaced in every bobocep module by a
recording re-entrant lock (identity = creating class + attribute).  A real
engine + BoboDistributedTCP built by BoboSetupSimpleDistributed is driven
through every public entry point of every thread role; each observed
(held -> acquired) pair must be an entry of the static table (checked by the
Lean driver on `Bobo.Gen.Locks.acqs` itself: `gen` + `member`); the observed
table is also run through the same Lean checker (`acq` + `check`) and compared
with an independent Python cycle search.

Oracle / failing-input search: every cycle of order constraints (static or
observed, after the gate rule) is turned into a thread schedule from the
operations that exhibited its edges and FORCED on real threads (each thread is
paused inside the recording lock at "holds a, wants b" until the others are
there too).  A watchdog declares a deadlock when every thread of the cycle has
been blocked for 1.5 s on a lock owned by the next one.  Lock acquisitions time
out (LockTimeout) so the process always exits.
"""
import itertools
import json
import logging
import sys
import threading
import time
import traceback
from contextlib import contextmanager

from harness.core import PropSpec, Result, Violation, Ctx, run_model, REPO, CORPUS

logging.disable(logging.CRITICAL)      # bobocep logs every scripted send failure

ORIG_RLOCK = threading.RLock
ORIG_LOCK = threading.Lock

GATE_NAME = 'BoboEngine._lock'


class LockTimeout(BaseException):
    """raised by the recording lock instead of blocking forever (BaseException: bobocep's
    `except Exception` clauses must not swallow it)."""


# --------------------------------------------------------------------------
# the recording lock
# --------------------------------------------------------------------------

class Recorder:
    def __init__(self):
        self.tls = threading.local()
        self.mutex = ORIG_LOCK()
        self.events = []          # dicts: role, op, held (tuple of names), acq, other_instance, where
        self.timeout = 20.0       # no acquisition ever blocks longer than this
        self.hooks = {}           # thread ident -> callable(lock, held) called before a new acquisition
        self.blocked = {}         # thread ident -> (lock, since)
        self.op = None

    def held(self):
        if not hasattr(self.tls, 'held'):
            self.tls.held = []
        return self.tls.held

    @property
    def role(self):
        return getattr(self.tls, 'role', 'unassigned')

    @contextmanager
    def as_role(self, role, op=None):
        old = (getattr(self.tls, 'role', 'unassigned'), getattr(self.tls, 'op', None))
        self.tls.role, self.tls.op = role, op
        try:
            yield
        finally:
            self.tls.role, self.tls.op = old

    def factory(self):
        return RecordingRLock(self, sys._getframe(1))

    def record(self, lock, held):
        names = []
        other = False
        for h in held:
            n = h.name()
            if n not in names:
                names.append(n)
            if n == lock.name() and h is not lock:
                other = True
        where = []
        for fr in traceback.extract_stack()[:-3]:
            if '/bobocep/' in fr.filename:
                where.append(f"{fr.filename.split('/bobocep/', 1)[1]}:{fr.lineno}:{fr.name}")
        ev = {'role': self.role, 'op': getattr(self.tls, 'op', None), 'held': tuple(names), 'acq': lock.name(),
              'other_instance': other, 'where': where[-6:]}
        with self.mutex:
            self.events.append(ev)


class RecordingRLock:
    """re-entrant lock with the interface bobocep uses (`with`, acquire, release)."""

    def __init__(self, rec, frame):
        self._rec = rec
        self._real = ORIG_RLOCK()
        self._owner = None
        self._count = 0
        qn = getattr(frame.f_code, 'co_qualname', frame.f_code.co_name)
        self._creator = qn.split('.')[0]
        self._obj = frame.f_locals.get('self')
        self._name = None

    def name(self):
        if self._name is None:
            attr = '?'
            try:
                for k, v in vars(self._obj).items():
                    if v is self:
                        attr = k
            except TypeError:
                pass
            if attr == '?':
                return f"{self._creator}.?"
            # a lock attribute that was merely renamed keeps the name it has in the recorded tree (translate/renames.py)
            attr = _recorded_name(attr)
            self._name = f"{self._creator}.{attr}"
        return self._name

    def acquire(self, blocking=True, timeout=-1):
        rec = self._rec
        me = threading.get_ident()
        held = rec.held()
        if self._owner == me:
            self._real.acquire()
        else:
            rec.record(self, held)
            hook = rec.hooks.get(me)
            if hook is not None:
                hook(self, held)
            rec.blocked[me] = (self, time.monotonic())
            ok = self._real.acquire(timeout=rec.timeout)
            rec.blocked.pop(me, None)
            if not ok:
                raise LockTimeout(f"{self.name()} not acquired within {rec.timeout}s")
            self._owner = me
        self._count += 1
        held.append(self)
        return True

    def release(self):
        held = self._rec.held()
        for i in range(len(held) - 1, -1, -1):
            if held[i] is self:
                del held[i]
                break
        self._count -= 1
        if self._count == 0:
            self._owner = None
        self._real.release()

    def __enter__(self):
        self.acquire()
        return self

    def __exit__(self, *a):
        self.release()
        return False


_CUR = {'rec': None, 'installed': False}


def _factory():
    return RecordingRLock(_CUR['rec'], sys._getframe(1))


_RENAMED = {}


def _recorded_name(attr):
    if not _RENAMED.get('loaded'):
        _RENAMED['loaded'] = True
        try:
            from translate import renames
            _RENAMED['inv'] = {new: old for old, new in renames.rename_map(REPO)[0].items()}
        except Exception:   # noqa
            _RENAMED['inv'] = {}
    return _RENAMED['inv'].get(attr, attr)


@contextmanager
def patched_rlock(rec):
    """
    Replace the name `RLock` in every loaded bobocep module (they all do `from threading import RLock`)
    for the rest of this process; locks created from now on (also later, e.g. every BoboRun) report to `rec`.
    """
    import bobocep  # noqa
    import bobocep.setup  # noqa
    import bobocep.dist.tcp  # noqa
    import bobocep.cep.action.handler  # noqa
    import bobocep.cep.gen.event  # noqa
    for name, mod in list(sys.modules.items()):
        if name.startswith('bobocep') and mod is not None and getattr(mod, 'RLock', None) is ORIG_RLOCK:
            mod.RLock = _factory
    _CUR['rec'] = rec
    yield


# --------------------------------------------------------------------------
# the system under test
# --------------------------------------------------------------------------

class FakeThread:
    def start(self):
        pass

    def join(self, timeout=None):
        pass


class FakeSocket:
    def __init__(self, data, chunk):
        self.data, self.chunk, self.closed = bytes(data), chunk, False

    def recv(self, n):
        n = min(n, self.chunk)
        out, self.data = self.data[:n], self.data[n:]
        return out

    def close(self):
        self.closed = True

    def settimeout(self, t):      # the handler sets a receive timeout on the accepted socket (fix F8)
        self.timeout = t


class System:
    """a real engine + distributed instance (sockets and OS threads replaced, nothing else)."""

    def __init__(self, rec, handler_kind='blocking', loop_pattern=False, singleton=False, genevent=False):
        from bobocep.cep.action import BoboAction, BoboActionHandlerBlocking
        from bobocep.cep.action.handler import BoboActionHandlerMultithreading
        from bobocep.cep.phenom import BoboPhenomenon
        from bobocep.cep.phenom.pattern.builder import BoboPatternBuilder
        from bobocep.dist.device import BoboDevice
        from bobocep.setup.simple import BoboSetupSimpleDistributed
        from bobocep.dist.pubsub import BoboDistributedSubscriber
        self.rec = rec

        class CountAction(BoboAction):
            def __init__(self, name):
                super().__init__(name)
                self.n = 0

            def execute(self, event):
                self.n += 1
                return True, self.n

        with patched_rlock(rec):
            self.action = CountAction('act')
            b = BoboPatternBuilder('p', singleton=singleton).followed_by(lambda e, h: e.data == 1)
            if loop_pattern:
                b = b.followed_by(lambda e, h: e.data == 2, loop=True)
            else:
                b = b.followed_by(lambda e, h: e.data == 2)
            pattern = b.followed_by(lambda e, h: e.data == 3).haltcondition(lambda e, h: e.data == 9).generate()
            self.phenom = BoboPhenomenon(name='ph', patterns=[pattern], action=self.action,
                                         datagen=lambda p, h: 'generated')
            self.handler = BoboActionHandlerMultithreading(threads=2) if handler_kind == 'threads' \
                else BoboActionHandlerBlocking()
            # two remote peers: branches of the outgoing pass that need several peers in one mode in the same pass are exercised
            devices = [BoboDevice('127.0.0.1', 9101, 'urn_a', 'key_a'), BoboDevice('127.0.0.1', 9102, 'urn_b', 'key_b'),
                       BoboDevice('127.0.0.1', 9103, 'urn_c', 'key_c')]
            gen_event = None
            if genevent:
                from bobocep.cep.gen.event import BoboGenEventTime
                gen_event = BoboGenEventTime(millis=10 ** 13, datagen=lambda: 0)     # polled under the receiver lock
            self.engine, self.dist = BoboSetupSimpleDistributed(
                phenomena=[self.phenom], handler=self.handler, urn='urn_a', devices=devices,
                aes_key='0123456789abcdef', gen_event=gen_event).generate()
        d = self.dist
        d._thread_incoming = FakeThread()
        d._thread_outgoing = FakeThread()
        self.sent = []
        self.send_code = 0

        def fake_send(dev, msg_type, msg_flags, msg_str):
            self.sent.append((dev.urn, msg_type, msg_flags))
            return self.send_code
        d._tcp_send = fake_send
        self.now = 1000
        d._now = lambda: self.now

        outer = self

        class CloseAfterFirst(BoboDistributedSubscriber):
            """ends `run()` after the first dispatched incoming message (plain attribute write, no lock)."""

            def on_distributed_update(self, completed, halted, updated):
                outer.dist._closed = True
        self._closer = CloseAfterFirst()

    # ---- operations -------------------------------------------------------
    def feed(self, *xs):
        for x in xs:
            self.engine.receiver.add_data(x)

    def run_main_pass(self, payload, put=True, extra=0):
        """the real `run()` loop: one incoming message, then the loop ends (closed flag set by a stub subscriber)."""
        d = self.dist
        d._closed = False
        d._running = False
        if self._closer not in d._subscribers:
            d._subscribers.append(self._closer)
        if put:
            d._queue_incoming.put_nowait(d._incoming_from_json(payload))
            for _ in range(extra):      # more accepted messages are waiting when the component is closed
                d._queue_incoming.put_nowait(d._incoming_from_json(payload))
        try:
            d.run()
        finally:
            d._closed = False
            d._running = True

    def run_main_closed_with_backlog(self, payload):
        """the real `run()` loop, closed by a controller while an accepted message is still waiting in the incoming queue:
        the component is closed (and the message arrives) just before the loop looks at the closed flag."""
        d = self.dist
        d._closed = False
        d._running = False
        me = threading.get_ident()
        seen = {'n': 0}
        old = self.rec.hooks.get(me)

        def hook(lock, held):
            if lock.name().endswith('._lock_local') and not held:
                seen['n'] += 1
                if seen['n'] == 2:          # 1st: the prologue of run(); 2nd: the loop's first look at the closed flag
                    d._queue_incoming.put_nowait(d._incoming_from_json(payload))
                    d._closed = True
            if old is not None:
                old(lock, held)
        self.rec.hooks[me] = hook
        try:
            d.run()
        finally:
            if old is None:
                self.rec.hooks.pop(me, None)
            else:
                self.rec.hooks[me] = old
            while not d._queue_incoming.empty():
                d._queue_incoming.get_nowait()
            d._closed = False
            d._running = True

    def own_payload(self):
        """the last locally produced change, through the real serialiser (names an existing local run)."""
        d = self.dist
        item = None
        while not d._queue_outgoing.empty():
            item = d._queue_outgoing.get_nowait()
        return d._outgoing_to_json(item)

    def outgoing_pass(self):
        """one pass of the real `_tcp_outgoing` loop (ended at its second visit of `_lock_in_out`)."""
        d = self.dist
        d._thread_closed = False
        me = threading.get_ident()
        seen = {'n': 0}
        old = self.rec.hooks.get(me)

        def hook(lock, held):
            if lock.name().endswith('._lock_in_out') and not held:
                seen['n'] += 1
                if seen['n'] >= 2:
                    d._thread_closed = True
            if old is not None:
                old(lock, held)
        self.rec.hooks[me] = hook
        try:
            d._tcp_outgoing()
        finally:
            if old is None:
                self.rec.hooks.pop(me, None)
            else:
                self.rec.hooks[me] = old
            d._thread_closed = False

    def incoming_loop(self, payload):
        """the real `_tcp_incoming` accept loop over a scripted socket module: one client, then one accept
        timeout; ended at its third visit of `_lock_in_out`."""
        import socket as real_socket
        import bobocep.dist.tcp as tcp
        d = self.dist
        data = d._crypto.encrypt("{} {} {} {} {}".format('urn_b', 'key_b', 0, 0, payload))
        script = [FakeSocket(data, 1 << 16)]

        class Listener:
            def bind(self, a): pass
            def listen(self, n): pass
            def settimeout(self, t): pass
            def close(self): pass

            def accept(self):
                if script:
                    return script.pop(0), ('127.0.0.9', 40000)
                raise real_socket.timeout()

        class FakeSocketModule:
            AF_INET, SOCK_STREAM, timeout = real_socket.AF_INET, real_socket.SOCK_STREAM, real_socket.timeout

            @staticmethod
            def socket(*a):
                return Listener()
        d._thread_closed = False
        me = threading.get_ident()
        seen = {'n': 0}
        old = self.rec.hooks.get(me)

        def hook(lock, held):
            if lock.name().endswith('._lock_in_out') and not held:
                seen['n'] += 1
                if seen['n'] >= 3:
                    d._thread_closed = True
            if old is not None:
                old(lock, held)
        self.rec.hooks[me] = hook
        saved = tcp.socket
        tcp.socket = FakeSocketModule
        try:
            d._tcp_incoming()
        finally:
            tcp.socket = saved
            if old is None:
                self.rec.hooks.pop(me, None)
            else:
                self.rec.hooks[me] = old
            d._thread_closed = False

    def incoming_client(self, msg_type, flags, payload, chunk=1 << 16):
        d = self.dist
        data = d._crypto.encrypt("{} {} {} {} {}".format('urn_b', 'key_b', msg_type, flags, payload))
        d._tcp_incoming_handle_client(FakeSocket(data, chunk), '127.0.0.9', int(time.time()))


def make_payloads(rec):
    """SYNC payloads that crossed the real serialiser: an `updated` run and a `completed` run."""
    s = System(rec)
    s.dist._running = True
    with rec.as_role('engine', 'payload'):
        s.feed(1)
        s.engine.update()
        upd = s.dist._outgoing_to_json(s.dist._queue_outgoing.get_nowait())
        s.feed(2, 3)
        s.engine.update()
        items = []
        while not s.dist._queue_outgoing.empty():
            items.append(s.dist._queue_outgoing.get_nowait())
        comp = [i for i in items if i['completed']]
        done = s.dist._outgoing_to_json(comp[-1])
    # one notification completing TWO runs at once (two runs of the pattern advanced together)
    s2 = System(rec)
    s2.dist._running = True
    with rec.as_role('engine', 'payload'):
        s2.feed(1)
        s2.engine.update()
        s2.feed(1)
        s2.engine.update()
        s2.feed(2)
        s2.engine.update()
        while not s2.dist._queue_outgoing.empty():
            s2.dist._queue_outgoing.get_nowait()
        s2.feed(3)
        s2.engine.update()
        both = None
        while not s2.dist._queue_outgoing.empty():
            it = s2.dist._queue_outgoing.get_nowait()
            if len(it['completed']) >= 2:
                both = s2.dist._outgoing_to_json(it)
    return {'updated': upd, 'completed': done, 'completed2': both}


# operation table: name -> (role, prep(sys), op(sys, payloads)); prep runs on the caller's thread first
def _ops():
    def engine_start(s, p):
        s.engine.update()

    def engine_complete(s, p):
        s.engine.update()
        s.engine.update()

    def engine_halt(s, p):
        s.engine.update()

    def engine_run_loop(s, p):
        # the real BoboEngine.run(): ended by an action that closes the engine from inside the loop
        s.engine.run()

    def prep_run_loop(s):
        s.feed(1, 2, 3)
        real = s.action.execute

        def closing(event):
            r = real(event)
            s.engine._closed = True
            return r
        s.action.execute = closing

    def bounded_prep(s):
        # the receiver as `BoboReceiver(max_size=3)` builds it; a run one event away from completion; the last event queued
        from queue import Queue
        r = s.engine.receiver
        s.feed(1)
        s.engine.update()
        s.feed(2)
        s.engine.update()
        bound_queue(r, '_queue', 3)
        s.feed(3)

    def fill(s):
        from bobocep.cep.engine.receiver.receiver import BoboReceiverError
        try:
            while True:
                s.engine.receiver.add_data(7)      # what feeder threads do between two steps of the engine
        except BoboReceiverError:
            pass

    def feedback_full(at):
        def op(s, p):
            from bobocep import BoboError
            e = s.engine
            with e._lock:                           # the body of BoboEngine.update(), with the feeders filling the bounded queue
                e.receiver.update()
                if at == 'producer':
                    fill(s)
                e.decider.update()
                for task in (e.producer, e.forwarder):
                    if at == 'forwarder' and task is e.forwarder:
                        fill(s)
                    try:
                        task.update()
                    except BoboError:
                        pass                        # the documented answer to a full queue
        return op

    return {
        'engine_feedback_full_producer': ('engine', bounded_prep, feedback_full('producer')),
        'engine_feedback_full_forwarder': ('engine', bounded_prep, feedback_full('forwarder')),
        'engine_start':     ('engine', lambda s: s.feed(1), engine_start),
        'engine_complete':  ('engine', lambda s: (s.feed(1), s.engine.update(), s.feed(2), s.engine.update(), s.feed(3)),
                             engine_complete),
        'engine_halt':      ('engine', lambda s: (s.feed(1), s.engine.update(), s.feed(9)), engine_halt),
        'engine_run_loop':  ('engine', prep_run_loop, engine_run_loop),
        'engine_close':     ('engine', lambda s: None, lambda s, p: (s.engine.is_closed(), s.engine.close())),
        'feeder_add':       ('feeder', lambda s: None, lambda s, p: (s.feed(7), s.engine.receiver.size())),
        'dist_main_updated':   ('dist_main', lambda s: None, lambda s, p: s.run_main_pass(p['updated'])),
        'dist_main_completed': ('dist_main', lambda s: None, lambda s, p: s.run_main_pass(p['completed'])),
        # a peer's message completing two runs while the producer's bounded queue is already full (whatever is done about
        # it is done on the distributed thread, under the locks that thread holds)
        'dist_main_completed_full_producer': ('dist_main', lambda s: (bound_queue(s.engine.producer, '_queue', 1),
                                                                      s.run_main_pass(s._p['completed'])),
                                              lambda s, p: _quiet(lambda: s.run_main_pass(p['completed2']))),
        'dist_main_closed_with_backlog': ('dist_main', lambda s: None, lambda s, p: s.run_main_closed_with_backlog(p['updated'])),
        'dist_main_existing':  ('dist_main', lambda s: (s.feed(1), s.engine.update(), setattr(s, 'own', s.own_payload())),
                                lambda s, p: s.run_main_pass(s.own)),
        'outgoing_resync':  ('dist_outgoing', lambda s: setattr(s, 'now', 10 ** 6), lambda s, p: s.outgoing_pass()),
        'outgoing_sync':    ('dist_outgoing', lambda s: (s.feed(1), s.engine.update()), lambda s, p: s.outgoing_pass()),
        'outgoing_sync_fail': ('dist_outgoing', lambda s: (s.feed(1), s.engine.update(), setattr(s, 'send_code', 2)),
                               lambda s, p: s.outgoing_pass()),
        'outgoing_ping':    ('dist_outgoing', lambda s: setattr(s, 'now', 1000 + 40), lambda s, p: s.outgoing_pass()),
        'incoming_sync':    ('dist_incoming', lambda s: None, lambda s, p: s.incoming_client(0, 1, p['updated'])),
        'incoming_loop':    ('dist_incoming', lambda s: None, lambda s, p: s.incoming_loop(p['updated'])),
        'incoming_ping':    ('dist_incoming', lambda s: None, lambda s, p: s.incoming_client(1, 0, '{}')),
        'controller_observe': ('controller', lambda s: (s.feed(1), s.engine.update()), lambda s, p: (
            s.dist.size_incoming(), s.dist.size_outgoing(), s.dist.is_closed(), s.engine.decider.all_runs(),
            s.engine.decider.snapshot(), s.engine.decider.runs_from('ph', 'p'), s.engine.decider.size(),
            s.engine.decider.phenomena(), s.engine.producer.size(), s.engine.forwarder.size(),
            s.handler.size(), s.handler.is_closed(), s.engine.decider.is_closed())),
        'controller_close': ('controller', lambda s: None, lambda s, p: (
            s.dist.close(), s.dist.join(), s.handler.close(),
            getattr(s.handler, 'join', lambda: None)(), s.dist.is_closed())),
    }


def _quiet(fn):
    from bobocep import BoboError
    try:
        fn()
    except BoboError:
        pass          # the documented answer to a full queue


OPS = _ops()


def fresh(rec, variant):
    s = System(rec, handler_kind=variant.get('handler', 'blocking'), loop_pattern=variant.get('loop', False),
               singleton=variant.get('singleton', False), genevent=variant.get('genevent', False))
    s.dist._running = True
    return s


def observe(rec, payloads, variant, opnames):
    """drive each operation on a fresh system, sequentially, on this thread."""
    errors = []
    for name in opnames:
        role, prep, op = OPS[name]
        s = fresh(rec, variant)
        try:
            s._p = payloads
            with rec.as_role('engine' if role != 'engine' else role, name + ':prep'):
                prep(s)
            with rec.as_role(role, name):
                op(s, payloads)
            if variant.get('handler') == 'threads':
                s.handler.close()
                s.handler.join()
        except LockTimeout as e:
            errors.append(f"{name}: {e}")
        except Exception as e:   # the operation itself failing is an infrastructure problem of the harness
            errors.append(f"{name}: {e.__class__.__name__}: {e}")
    return errors


# --------------------------------------------------------------------------
# graph side (independent of Lean): gate rule, order constraints, cycles
# --------------------------------------------------------------------------

def strict_edges(entries, gate):
    """entries: set of (frozenset(H), x).  Same rule as Bobo.Locks.strictEdges."""
    def leaf(x):
        return all((x not in H) or (gate in H) for H, _ in entries)
    out = {}
    for H, x in entries:
        if x in H:
            out.setdefault((x, x), []).append((H, x))
            continue
        if gate in H and leaf(x):
            continue
        for z in H:
            out.setdefault((z, x), []).append((H, x))
    return out


def find_cycles(edges, maxlen=4):
    adj = {}
    for a, b in edges:
        adj.setdefault(a, set()).add(b)
    cycles = set()

    def dfs(start, node, path):
        for nx in adj.get(node, ()):
            if nx == start:
                k = path.index(min(path))
                cycles.add(tuple(path[k:] + path[:k]))
            elif nx not in path and len(path) < maxlen and nx > start:
                dfs(start, nx, path + [nx])
    for a in sorted(adj):
        dfs(a, a, [a])
    return sorted(cycles, key=lambda c: (len(c), c))


# --------------------------------------------------------------------------
# forcing a schedule on real threads
# --------------------------------------------------------------------------

def force(rec_factory, payloads, variant, steps, hold_s=1.5):
    """
    steps: [{'op': name, 'holds': a, 'wants': b}, ...] one thread each, cycle order
    (thread i is expected to be blocked on a lock owned by thread i+1).
    Returns dict(result='deadlock'|'completed'|'not-realised', detail=...).
    Threads are started one after another, each once the previous one has reached its pause point.
    """
    rec = rec_factory()
    rec.timeout = hold_s + 2.5
    s = fresh(rec, variant)
    n = len(steps)
    ready = [threading.Event() for _ in range(n)]
    done = [threading.Event() for _ in range(n)]
    errs = [None] * n
    idents = [None] * n
    s._p = payloads
    for st in steps:
        role, prep, op = OPS[st['op']]
        with rec.as_role('engine', st['op'] + ':prep'):
            prep(s)

    def worker(i):
        st = steps[i]
        role, prep, op = OPS[st['op']]
        me = threading.get_ident()
        idents[i] = me

        def hook(lock, held):
            if ready[i].is_set():
                return
            if lock.name() == st['wants'] and any(h.name() == st['holds'] for h in held):
                ready[i].set()
                t_end = time.monotonic() + 1.0
                while time.monotonic() < t_end:
                    if all(ready[j].is_set() or done[j].is_set() for j in range(n)):
                        break
                    time.sleep(0.005)
        prev = rec.hooks.get(me)
        rec.hooks[me] = hook if prev is None else (lambda l, h: (hook(l, h), prev(l, h)))
        try:
            with rec.as_role(role, st['op']):
                op(s, payloads)
        except LockTimeout as e:
            errs[i] = f"LockTimeout: {e}"
        except BaseException as e:  # noqa
            errs[i] = f"{e.__class__.__name__}: {e}"
        finally:
            done[i].set()
    threads = []
    for i in range(n):
        t = threading.Thread(target=worker, args=(i,), daemon=True, name=f"c08-force-{i}")
        threads.append(t)
        t.start()
        t0 = time.monotonic()
        while time.monotonic() - t0 < 0.6 and not (ready[i].is_set() or done[i].is_set()):
            time.sleep(0.005)
    # watchdog
    t0 = time.monotonic()
    result = None
    while time.monotonic() - t0 < hold_s + 2.0:
        if all(d.is_set() for d in done):
            break
        now = time.monotonic()
        ok = True
        owners = []
        for i in range(n):
            b = rec.blocked.get(idents[i])
            if b is None or now - b[1] < hold_s:
                ok = False
                break
            lock = b[0]
            if lock.name() != steps[i]['wants'] or lock._owner != idents[(i + 1) % n]:
                ok = False
                break
            owners.append({'thread': i, 'op': steps[i]['op'], 'blocked_on': lock.name(),
                           'owned_by_thread': (i + 1) % n,
                           'holding': sorted({h.name() for h in _held_of(rec, idents[i])})})
        if ok:
            result = {'result': 'deadlock', 'blocked': owners, 'blocked_for_s': hold_s}
            break
        time.sleep(0.02)
    for t in threads:
        t.join(timeout=rec.timeout + 1.0)
    alive = [i for i, t in enumerate(threads) if t.is_alive()]
    if result is None:
        if all(d.is_set() for d in done) and not any(e and e.startswith('LockTimeout') for e in errs):
            result = {'result': 'completed' if all(r.is_set() for r in ready) else 'not-realised'}
        else:
            result = {'result': 'not-realised'}
    result['reached_pause'] = [r.is_set() for r in ready]
    result['thread_errors'] = errs
    result['threads_alive'] = alive
    return result


def _held_of(rec, ident):
    # thread-local held lists are not reachable from outside; recompute from lock owners
    out = []
    for ev_lock in list(_ALL_LOCKS.get(id(rec), [])):
        if ev_lock._owner == ident:
            out.append(ev_lock)
    return out


_ALL_LOCKS = {}
_orig_init = RecordingRLock.__init__


def _tracking_init(self, rec, frame):
    _orig_init(self, rec, frame)
    _ALL_LOCKS.setdefault(id(rec), []).append(self)


RecordingRLock.__init__ = _tracking_init


def schedule_for_cycle(cycle, edge_ops):
    """one thread per edge (a_i -> a_{i+1}): thread i holds a_i and wants a_{i+1}, which is held by thread i+1.  Among the
    operations that exhibited each edge, pick one thread per ROLE where the edges allow it (a deployment has one engine
    loop, one distributed main thread, …)."""
    choices = []
    for i, a in enumerate(cycle):
        b = cycle[(i + 1) % len(cycle)]
        ops = edge_ops.get((a, b))
        if not ops:
            return None
        choices.append([(o, a, b) for o in sorted(ops)[:6]])
    best = None
    for combo in itertools.product(*choices):
        score = len({OPS[o][0] for o, _, _ in combo})
        if best is None or score > best[0]:
            best = (score, combo)
    return [{'op': o, 'holds': a, 'wants': b} for o, a, b in best[1]]


def force_cycle(payloads, variant, cycle, edge_ops, notes):
    steps = schedule_for_cycle(cycle, edge_ops)
    if steps is None:
        return None, None
    last = None
    for rot in range(len(steps)):
        order = steps[rot:] + steps[:rot]
        r = force(Recorder, payloads, variant, order)
        last = (order, r)
        if r['result'] == 'deadlock':
            return order, r
    return last


# --------------------------------------------------------------------------
# static table
# --------------------------------------------------------------------------

def static_table():
    from translate.locks import extract
    from translate.pyexpr import TieBroken
    try:
        g = extract(REPO)
    except TieBroken as e:
        return None, str(e)
    except Exception as e:  # noqa
        return None, f"{e.__class__.__name__}: {e}"
    return g, None


RESIDUE_NOTES = [
    "non-lock blocking, Queue.put: every put on a bounded queue (receiver/decider/producer/forwarder/handler) is "
    "guarded by `if not queue.full()` under the owning task's lock and all producers of that queue take that lock, "
    "so put never waits; the incoming/outgoing queues use put_nowait; the pool workers' response queue is unbounded "
    "(multithreading) or size-checked before dispatch",
    "non-lock blocking, pool.join: only in BoboActionHandlerMulti*.join(), under the handler lock, legal only after "
    "close(); workers take no bobocep lock (_pool_execute_action: action.execute + queue.put), so they always finish",
    "non-lock blocking, Thread.join: only in BoboDistributedTCP.join(), under _lock_local; the two socket threads never "
    "take _lock_local, and they end once close() has set _thread_closed; OBSERVATION: join() called *before* close() "
    "from another thread keeps _lock_local for ever (close(), run() and on_decider_update then wait on it) — a usage "
    "order hazard, not a lock cycle: close() must precede join()",
    "non-lock blocking, socket accept/recv/connect/sendall: executed with no lock held (static extraction lists the "
    "held set at each site); a silent peer blocking recv is C10/C11 (F8), not a lock cycle",
    "queue.Queue's internal mutex and logging's handler lock are leaves (never held across a call into bobocep)",
    "user code run under locks (predicates, datagen, actions in the blocking handler, validators, id/timestamp "
    "generators, extra subscribers) is assumed not to take bobocep locks nor to call task methods of another thread role",
]


# --------------------------------------------------------------------------
# the check
# --------------------------------------------------------------------------

VARIANTS = [
    {'handler': 'blocking'},
    {'handler': 'threads'},
    {'handler': 'blocking', 'loop': True},
    {'handler': 'blocking', 'singleton': True},
    {'handler': 'threads', 'genevent': True},
]


def collect(ctx, res, variants):
    """observation phase: returns (events, errors)."""
    rec = Recorder()
    payloads = make_payloads(rec)
    errors = []
    names = list(OPS)
    for v in variants:
        order = names[:]
        ctx.rng.shuffle(order)
        errors += observe(rec, payloads, v, order)
        for n in order:
            res.add_case({'variant': v, 'op': n}, nontrivial=True)
            res.count('op_' + n)
        res.count('variant_' + json.dumps(v, sort_keys=True))
    return rec.events, errors, payloads


def run(ctx: Ctx) -> Result:
    res = Result()
    res.notes += RESIDUE_NOTES
    g, err = static_table()
    if g is None:
        res.notes.append('static extraction refused: ' + err)
    variants = VARIANTS
    try:
        events, errors, payloads = collect(ctx, res, variants)
    except LockTimeout as e:
        res.violations.append(Violation('lock-order-deadlock:single-thread-drive', f"lock never acquired while driving: {e}", {}))
        return res
    except Exception as e:  # noqa  the tree cannot even be driven: not a pass
        res.disagreements.append({'harness-could-not-drive-the-implementation': f"{e.__class__.__name__}: {e}",
                                  'trace': traceback.format_exc()[-600:]})
        return res
    for e in errors:
        res.disagreements.append({'harness-operation-failed': e})

    # observed table
    observed = {}
    for ev in events:
        if ev['acq'].endswith('.?') or any(h.endswith('.?') for h in ev['held']):
            res.disagreements.append({'unidentified-lock': ev})
            continue
        key = (frozenset(ev['held']), ev['acq'])
        if ev['acq'] in ev['held'] and not ev['other_instance']:
            continue
        observed.setdefault(key, []).append(ev)
    for (H, x), evs in observed.items():
        res.count('observed_entry_roles_' + '+'.join(sorted({e['role'] for e in evs})))
    res.count('observed_entries', len(observed))
    res.count('acquisitions_recorded', len(events))

    # ---- D: observed ⊆ static, decided by the Lean driver on Gen.Locks.acqs
    static_entries = set()
    ids = {}
    if g is not None:
        ids = {n: i for i, n, _ in g['locks']}
        names = {i: n for n, i in ids.items()}
        for H, x, roles, chain in g['entries']:
            static_entries.add((frozenset(names[h] for h in H), names[x]))
        unknown = [k for k in observed if k[1] not in ids or any(h not in ids for h in k[0])]
        for k in unknown:
            res.disagreements.append({'observed-lock-unknown-to-static-extraction': [sorted(k[0]), k[1]]})
        obs_keys = sorted((k for k in observed if k not in unknown), key=lambda k: (k[1], sorted(k[0])))
        if ctx.model_available() and not ctx.tie_broken:
            lines = ['gen'] + [f"member {','.join(str(ids[h]) for h in sorted(H)) or '-'} {ids[x]}" for H, x in obs_keys]
            lines += ['reset', f"gate {ids[GATE_NAME]}"]
            lines += [f"acq {','.join(str(ids[h]) for h in sorted(H)) or '-'} {ids[x]}" for H, x in obs_keys] + ['check']
            out = run_model('locks', lines)
            res.traces_validated = len(obs_keys)
            if not out[0].startswith(f"ok {len(g['entries'])} "):
                res.disagreements.append({'generated-table-differs-from-driver': out[0], 'expected_entries': len(g['entries'])})
            for k, o in zip(obs_keys, out[1:1 + len(obs_keys)]):
                py = 'yes' if k in static_entries else 'no'
                if o != py:
                    res.disagreements.append({'case': [sorted(k[0]), k[1]], 'model': o, 'impl': py})
                if o != 'yes':
                    ev = observed[k][0]
                    res.disagreements.append({'observed-acquisition-missing-from-static-table': {
                        'held': sorted(k[0]), 'acquired': k[1], 'role': ev['role'], 'op': ev['op'], 'where': ev['where']}})
            verdict = out[-1]
            py_cycles = find_cycles(strict_edges(set(obs_keys), GATE_NAME))
            if (verdict == 'ranked') != (not py_cycles):
                res.disagreements.append({'case': 'observed-table', 'model': verdict, 'impl': py_cycles})
        else:
            res.notes.append('model driver unavailable or tie broken: Lean-side membership check not run')
            if not ctx.model_available():
                res.disagreements.append({'correspondence': 'locks', 'error': 'model driver did not build'})
            for k in obs_keys:
                if k not in static_entries:
                    ev = observed[k][0]
                    res.disagreements.append({'observed-acquisition-missing-from-static-table': {
                        'held': sorted(k[0]), 'acquired': k[1], 'role': ev['role'], 'op': ev['op'], 'where': ev['where']}})
        res.notes.append(f"static table: {len(g['locks'])} lock classes, {len(g['entries'])} entries, gate {GATE_NAME}; "
                         f"observed {len(observed)} distinct entries, all of them in the static table: "
                         f"{all(k in static_entries for k in observed)}")
        res.notes.append('static entries never exercised dynamically: ' + '; '.join(
            f"{{{','.join(sorted(H))}}}->{x}" for H, x in sorted(static_entries - set(observed), key=lambda k: (k[1], sorted(k[0])))))
        res.notes.append(f"user code under locks (assumption sites): {len(g['assumptions'])}; blocking non-lock sites: "
                         + '; '.join(b for b, _ in g['blocking']))

    # ---- oracle: cycles of order constraints (static ∪ observed) are forced on real threads
    union = set(observed) | static_entries
    edges = strict_edges(union, GATE_NAME)
    cycles = find_cycles(edges)
    res.count('order_cycles', len(cycles))
    edge_ops = {}
    for (H, x), evs in observed.items():
        for ev in evs:
            if ev['op'] and not ev['op'].endswith(':prep') and ev['op'] in OPS:
                for h in H:
                    edge_ops.setdefault((h, x), set()).add(ev['op'])
    if ctx.replay is not None and 'steps' in ctx.replay.get('replay', {}):
        rp = ctx.replay['replay']
        r = force(Recorder, payloads, rp.get('variant', VARIANTS[0]), rp['steps'])
        if r['result'] == 'deadlock':
            res.violations.append(Violation(sig_of([s['holds'] for s in rp['steps']]), describe(rp['steps'], r), rp))
        res.notes.append('replayed schedule: ' + r['result'])
        return res
    for cyc in cycles[:6]:
        order, r = force_cycle(payloads, VARIANTS[0], cyc, edge_ops, res.notes)
        res.add_case({'forced_cycle': list(cyc)})
        if order is None:
            res.notes.append(f"order cycle {' -> '.join(cyc)} has an edge no driven operation exhibits: not forced")
            res.disagreements.append({'lock-order-cycle-not-exercised': list(cyc),
                                      'entries': [[sorted(H), x] for e in zip(cyc, cyc[1:] + cyc[:1]) for H, x in edges.get(e, [])][:6]})
            continue
        res.count('forced_' + r['result'])
        if r['result'] == 'deadlock':
            where = {}
            for (H, x), evs in observed.items():
                for s in order:
                    if s['holds'] in H and x == s['wants']:
                        where[s['op']] = evs[0]['where']
            res.violations.append(Violation(
                sig_of(cyc), describe(order, r),
                {'variant': VARIANTS[0], 'steps': order, 'blocked': r['blocked'], 'source_locations': where}))
        else:
            res.notes.append(f"order cycle {' -> '.join(cyc)} forced with {[s['op'] for s in order]}: {r['result']}")
            res.disagreements.append({'lock-order-cycle-not-confirmed-by-forcing': list(cyc), 'forcing': r['result']})

    # ---- regression corpus: the F6 schedule must complete
    f6 = json.loads((CORPUS / 'C08' / 'f6-schedule.json').read_text())['steps']
    if not any(v.sig == sig_of(['BoboDecider._lock', 'BoboDistributedTCP._lock_local']) for v in res.violations):
        r = force(Recorder, payloads, VARIANTS[0], f6)
        res.add_case({'corpus': 'F6-schedule'})
        res.count('corpus_f6_' + r['result'])
        if r['result'] == 'deadlock':
            res.violations.append(Violation(sig_of(['BoboDecider._lock', 'BoboDistributedTCP._lock_local']),
                                            describe(f6, r), {'variant': VARIANTS[0], 'steps': f6, 'blocked': r['blocked']}))
        elif r['thread_errors'] != [None, None] or r['threads_alive']:
            res.disagreements.append({'corpus-F6-schedule-did-not-finish-cleanly': r})
        else:
            res.notes.append(f"F6 schedule (engine update overlapping an incoming remote change) forced on real "
                             f"threads: {r['result']}, pause points reached {r['reached_pause']}")

    # ---- bounded queues at capacity: no role waits for room while holding what the draining role needs
    for r in full_queue_liveness(payloads):
        res.add_case({'full_queue': r['scenario']})
        res.count('full_queue_' + r['result'])
        if r['result'] == 'deadlock':
            res.violations.append(Violation(
                'queue-wait-deadlock:' + r['scenario'],
                (f"{r['scenario']}: with the queue at capacity the feeding role and {len(r['alive']) - 1} other role(s) are still "
                 f"blocked after 3 s (threads alive: {r['alive']}; waiting for locks: {r['blocked_on_lock']}): the producer waits "
                 f"for room in the queue while holding a lock the draining role needs") if 'queue' in r['scenario'] or 'slot' in r['scenario'] else
                (f"{r['scenario']}: {r['alive'][0]} and {len(r['alive']) - 1} other role(s) are still blocked after 3 s (threads alive: "
                 f"{r['alive']}; waiting for locks: {r['blocked_on_lock']}): a thread waits for another thread to end while holding "
                 f"a lock that thread (or one it waits for) needs"),
                {'scenario': r['scenario'], 'queue_size': 1, 'alive': r['alive'], 'blocked_on_lock': r['blocked_on_lock']}))
        elif r['result'] != 'completed':
            res.disagreements.append({'full-queue-scenario-did-not-finish': r})
        else:
            res.notes.append(f"full-queue scenario {r['scenario']}: all roles finished ({r['errors'] or 'no errors'})")

    # ---- concurrent smoke run on real threads (thorough): all roles at once, must make progress and end
    if ctx.thorough:
        stress(ctx, res, payloads)
    return res


# --------------------------------------------------------------------------
# bounded queues at capacity: a producer must not wait for room while it holds what the consumer needs
# --------------------------------------------------------------------------

def bound_queue(obj, attr, n, make=None):
    """give a task the queue bound its constructor's `max_size=n` would have given it.  A `queue.Queue` is replaced by a
    bounded one (its waiting items moved over); any other container (a deque guarded by the task's own size test, …)
    is left as it is -- the bound is then the task's `_max_size` alone, and there is no blocking `put` to wait in."""
    from queue import Queue
    q = getattr(obj, attr)
    if isinstance(q, Queue):
        new = (make or Queue)(n)
        while not q.empty():
            new.put(q.get_nowait())
        setattr(obj, attr, new)
    if hasattr(obj, '_max_size'):
        obj._max_size = n
    for k in ('_max_size_incoming', '_max_size_outgoing'):
        if attr.endswith(k[len('_max_size'):]) and hasattr(obj, k):
            setattr(obj, k, n)


def full_queue_scenarios():
    """(name, bound(s) -> None, producer op, other roles' ops).  Each bounded queue of the distributed component is brought
    to capacity (size 1); the role that feeds it runs its entry point while the roles that drain it, or that need the
    locks the producer holds, run theirs (several passes, so a consumer that is free to run does make room)."""
    from queue import Queue

    def bound_outgoing(s):
        bound_queue(s.dist, '_queue_outgoing', 1)
        s.feed(1)
        s.engine.update()                       # one local change queued: the outgoing queue is full

    def engine_change(s, p):
        s.feed(2)
        s.engine.update()                       # a second local change: on_decider_update finds the queue full

    def outgoing_passes(s, p):
        for _ in range(4):                      # RESYNC first (snapshot: decider lock), then SYNC passes that drain the queue
            s.outgoing_pass()
            s.now += 1

    def main_pass(s, p):
        s.run_main_pass(p['updated'])

    def bound_incoming(s):
        bound_queue(s.dist, '_queue_incoming', 1)
        item = s.dist._incoming_from_json(make_payloads_cache['updated'])
        q = s.dist._queue_incoming
        q.put_nowait(item) if hasattr(q, 'put_nowait') else q.append(item)

    def incoming_sync(s, p):
        s.incoming_client(1, 0, p['updated'])   # a SYNC arrives while the incoming queue is full

    def bound_producer(s):
        bound_queue(s.engine.producer, '_queue', 1)      # room for ONE completed run

    def main_two_completions(s, p):
        s.run_main_pass(p['completed2'])                 # one remote change completing two runs: the second does not fit

    def engine_idle_updates(s, p):
        for _ in range(3):
            s.engine.update()                            # drains the producer queue (needs the producer lock)

    race = {}

    def bound_receiver_one_slot(s):
        # the receiver as `BoboReceiver(max_size=3)` builds it, two data waiting: ONE free slot, two feeder threads.  The
        # first feeder's look at `full()` takes a moment (until the other feeder is through, or 1 s): if that look and
        # the `put` are one step under the receiver's lock the second feeder simply waits and is then refused; if they are
        # not, both see the free slot and the loser waits for room INSIDE the lock the engine needs to make room.
        class SlowLook(Queue):
            def full(self):
                answer = super().full()
                if threading.current_thread().name == race.get('first') and not race.get('looked'):
                    race['looked'] = True
                    race['done'].wait(1.0)         # pre-empted right after the look: the answer is used later
                return answer
        race.clear()
        race['done'] = threading.Event()
        r = s.engine.receiver
        bound_queue(r, '_queue', 3, make=SlowLook)
        s.feed(7, 7)

    def feeder_first(s, p):
        race['first'] = threading.current_thread().name
        s.engine.receiver.add_data(7)

    def feeder_second(s, p):
        try:
            s.engine.receiver.add_data(7)
        finally:
            race['done'].set()

    def engine_after_race(s, p):
        race['done'].wait(2.0)                           # the engine loop is busy elsewhere while the feeders race
        time.sleep(0.2)
        engine_idle_updates(s, p)

    # the distributed main loop ENDS (close() was called) while the outgoing thread is in the middle of a pass with two peers
    # to resynchronise and the engine publishes a local change: whatever the main thread does on its way out, it must
    # not wait for the outgoing thread while holding what the engine needs (real outgoing thread; the first send hangs)
    def main_ends_mid_pass(s):
        d = s.dist
        st = {'n': 0, 'gate': threading.Event(), 'entered': threading.Event()}

        def slow_send(dev, t, f, m):
            st['n'] += 1
            if st['n'] == 1:
                st['entered'].set()
                st['gate'].wait(2.5)
            return 0
        d._tcp_send = slow_send
        d._thread_incoming = FakeThread()
        d._thread_outgoing = threading.Thread(target=d._tcp_outgoing, daemon=True, name='real-outgoing')
        d._running, d._closed, d._thread_closed = False, False, False
        s._mid = st

    def main_run(s, p):
        s.dist.run()

    def controller_close(s, p):
        s._mid['entered'].wait(2.0)
        s.dist.close()

    def engine_publishes(s, p):
        s._mid['entered'].wait(2.0)
        time.sleep(0.3)
        s.feed(1)
        s.engine.update()

    def release_send(s, p):
        time.sleep(0.9)
        s._mid['gate'].set()

    # the documented shutdown, close() then join(), while a peer's message is being received and the bounded incoming queue is
    # full: join() waits for the incoming thread with whatever it holds; that thread must not need any of it to finish the
    # message it is handling (real incoming thread: one client, held back until the controller is inside join())
    def join_while_incoming_full(s):
        d = s.dist
        bound_incoming(s)
        st = {'in_join': threading.Event(), 'done': threading.Event()}
        data = d._crypto.encrypt("{} {} {} {} {}".format('urn_b', 'key_b', 0, 0, make_payloads_cache['updated']))

        class HeldBack(FakeSocket):
            def recv(self, n):
                st['in_join'].wait(2.0)
                return super().recv(n)

        def incoming():
            try:
                d._tcp_incoming_handle_client(HeldBack(data, 1 << 16), '127.0.0.9', int(time.time()))
            except Exception:   # noqa  (a full queue is reported loudly: the documented behaviour)
                pass
            finally:
                st['done'].set()

        class Announcing(threading.Thread):
            def join(self, timeout=None):
                st['in_join'].set()               # the controller is inside BoboDistributedTCP.join() now
                return super().join(timeout)
        d._thread_incoming = Announcing(target=incoming, daemon=True, name='real-incoming')
        d._thread_outgoing = FakeThread()
        d._thread_incoming.start()
        s._jn = st

    def controller_close_join(s, p):
        s.dist.close()
        s.dist.join()

    def engine_after_close(s, p):
        s._jn['in_join'].wait(2.0)
        time.sleep(0.2)
        s.feed(1)
        s.engine.update()                         # a local change reported to a closed distributed component (needs its local lock)

    return [
        ('shutdown-join-while-a-message-is-received', join_while_incoming_full, ('controller', controller_close_join),
         [('engine', engine_after_close)]),
        ('main-ends-while-outgoing-mid-pass', main_ends_mid_pass, ('dist_main', main_run),
         [('controller', controller_close), ('engine', engine_publishes), ('feeder', release_send)]),
        ('receiver-last-slot-race', bound_receiver_one_slot, ('feeder', feeder_first),
         [('feeder', feeder_second), ('engine', engine_after_race)]),
        ('producer-queue-overflow', bound_producer, ('dist_main', main_two_completions),
         [('engine', engine_idle_updates), ('engine', engine_change)]),
        ('outgoing-queue-full', bound_outgoing, ('engine', engine_change),
         [('dist_outgoing', outgoing_passes), ('dist_main', main_pass)]),
        ('incoming-queue-full', bound_incoming, ('dist_incoming', incoming_sync),
         [('dist_main', lambda s, p: s.run_main_pass(None, put=False)), ('engine', engine_change)]),
    ]


make_payloads_cache = {}


def full_queue_liveness(payloads, wait_s=3.0, only=None):
    """run every scenario on real threads; a scenario in which the producer AND another role are still blocked after
    `wait_s` (each operation takes milliseconds) is a deadlock through a queue wait.  Returns a list of result dicts."""
    make_payloads_cache.update(payloads)
    out = []
    for name, bound, (prole, pop), others in full_queue_scenarios():
        if only is not None and name != only:
            continue
        rec = Recorder()
        rec.timeout = wait_s + 2.0
        s = fresh(rec, VARIANTS[0])
        errors = {}
        try:
            with rec.as_role('engine', name + ':prep'):
                bound(s)
        except Exception as e:   # noqa
            out.append({'scenario': name, 'result': 'could-not-prepare', 'error': f"{e.__class__.__name__}: {e}"})
            continue

        def runner(role, op, key):
            def go():
                try:
                    with rec.as_role(role, name + ':' + key):
                        op(s, payloads)
                except LockTimeout as e:
                    errors[key] = 'LockTimeout: ' + str(e)
                except Exception as e:   # noqa  a loud error (queue full) is the documented behaviour
                    errors[key] = f"{e.__class__.__name__}: {e}"
            return go
        threads = [('producer:' + prole, threading.Thread(target=runner(prole, pop, 'producer'), daemon=True))]
        for i, (role, op) in enumerate(others):
            threads.append((f'other{i}:{role}', threading.Thread(target=runner(role, op, f'other{i}'), daemon=True)))
        threads[0][1].start()
        time.sleep(0.3)
        for _, t in threads[1:]:
            t.start()
        deadline = time.monotonic() + wait_s
        for _, t in threads:
            t.join(max(0.0, deadline - time.monotonic()))
        alive = [n for n, t in threads if t.is_alive()]
        blocked = {}
        for n, t in threads:
            b = rec.blocked.get(t.ident)
            if b is not None:
                blocked[n] = b[0].name()
        result = 'completed'
        if alive and alive[0].startswith('producer') and len(alive) >= 2:
            result = 'deadlock'
        elif alive:
            result = 'still-running'
        out.append({'scenario': name, 'result': result, 'alive': alive, 'blocked_on_lock': blocked,
                    'errors': {k: v[:160] for k, v in errors.items()}})
    return out



def sig_of(cycle):
    return 'lock-order-deadlock:' + '<->'.join(sorted(set(cycle)))


def describe(steps, r):
    parts = [f"thread {i} ({OPS[s['op']][0]}, {s['op']}) holds {s['holds']} and waits for {s['wants']}"
             for i, s in enumerate(steps)]
    return "forced schedule deadlocks: " + "; ".join(parts) + f" — all blocked for {r.get('blocked_for_s')} s"


def stress(ctx, res, payloads, seconds=3.0):
    rec = Recorder()
    rec.timeout = 6.0
    s = fresh(rec, VARIANTS[0])
    stop = threading.Event()
    errs = []
    progress = {'engine': 0, 'feeder': 0, 'dist': 0, 'out': 0}

    other = {'n': 0}

    def guard(fn, key):
        def w():
            try:
                while not stop.is_set():
                    try:
                        fn()
                        progress[key] += 1
                    except Exception:  # noqa  (e.g. "distributed is closed" while the stub ends a run() pass)
                        other['n'] += 1
            except LockTimeout as e:
                errs.append(f"{key}: {e}")
        return w
    seq = itertools.cycle([1, 2, 3, 1, 9, 1, 2, 3])

    def feeder():
        try:
            s.feed(next(seq))
        except Exception:
            pass
        time.sleep(0.0005)
    ths = [threading.Thread(target=guard(lambda: s.engine.update(), 'engine'), daemon=True),
           threading.Thread(target=guard(feeder, 'feeder'), daemon=True),
           threading.Thread(target=guard(feeder, 'feeder'), daemon=True),
           threading.Thread(target=guard(lambda: s.run_main_pass(payloads['updated']), 'dist'), daemon=True),
           threading.Thread(target=guard(lambda: s.outgoing_pass(), 'out'), daemon=True)]
    [t.start() for t in ths]
    time.sleep(seconds)
    stop.set()
    [t.join(timeout=8) for t in ths]
    res.add_case({'stress_seconds': seconds})
    res.count('stress_engine_updates', progress['engine'])
    stuck = [t.name for t in ths if t.is_alive()]
    if stuck or any('LockTimeout' in e or 'not acquired' in e for e in errs):
        res.violations.append(Violation('lock-order-deadlock:stress', f"threads stuck in concurrent run: {stuck} {errs[:3]}",
                                        {'stress': True, 'errors': errs[:5]}))
    res.notes.append(f"concurrent run {seconds}s on real threads: iterations {progress}, lock timeouts {errs[:2]}, "
                     f"other exceptions tolerated {other['n']}")


def search(ctx: Ctx) -> Result:
    """deeper search on the implementation alone: every variant, every cycle of the observed graph forced in
    every rotation, plus the concurrent run."""
    res = Result()
    events, errors, payloads = collect(ctx, res, VARIANTS)
    observed = {}
    for ev in events:
        if ev['acq'] in ev['held'] and not ev['other_instance']:
            continue
        observed.setdefault((frozenset(ev['held']), ev['acq']), []).append(ev)
    edge_ops = {}
    for (H, x), evs in observed.items():
        for ev in evs:
            if ev['op'] and not ev['op'].endswith(':prep') and ev['op'] in OPS:
                for h in H:
                    edge_ops.setdefault((h, x), set()).add(ev['op'])
    for cyc in find_cycles(strict_edges(set(observed), GATE_NAME))[:8]:
        order, r = force_cycle(payloads, VARIANTS[0], cyc, edge_ops, res.notes)
        res.evaluations += 1
        if order is not None and r['result'] == 'deadlock':
            res.violations.append(Violation(sig_of(cyc), describe(order, r),
                                            {'variant': VARIANTS[0], 'steps': order, 'blocked': r['blocked']}))
            return res
    stress(ctx, res, payloads, seconds=4.0)
    return res


SPEC = PropSpec(
    prop='C08',
    translators=['locks'],
    run=run,
    search=search,
    rule='every operation of the table OPS (engine update that starts / completes / halts a run with an action, the real '
         'engine.run loop, engine.close, feeder add_data, the real distributed run() loop dispatching an updated / completed '
         'remote change, one pass of the real outgoing loop in RESYNC / SYNC / failed SYNC / PING mode, the real incoming accept loop over a scripted '
         'socket module, the incoming client handler with SYNC+RESET and PING, controller observers, close/join) is driven on a fresh real engine + '
         'BoboDistributedTCP for 5 system variants (blocking / thread-pool handler, loop pattern, '
         'singleton pattern, timed event generator) in a seeded order; every new lock acquisition is recorded with the set of lock classes held; '
         'distinct = distinct (variant, operation); every cycle of order constraints is forced on real threads in every '
         'rotation; the F6 schedule is forced on every run; thorough adds a 3 s concurrent run of all roles',
    trusted_base=[
        'translate/locks.py: static call-graph walk (class-hierarchy resolution of every call, refuses unknown receivers); '
        'its table is cross-checked against the recorded acquisitions on every run (observed ⊆ static)',
        'lock identity is per class attribute (`Class.attr`); the extractor distinguishes same-object re-entry from '
        'nesting of two objects of one class (the latter is emitted as an entry and rejected by the checker)',
        'thread roles and their entry points are those listed in translate/locks.py ROLES; task update()/on_* methods are '
        'reached only through BoboEngine (one engine lock instance guards them all)',
    ],
    assumptions=[
        'user callbacks executed under bobocep locks (predicates, datagen, actions, validators, generators, extra '
        'subscribers — listed with their source locations in Gen/Locks.lean) do not take bobocep locks',
        'one BoboEngine and one BoboDistributedTCP per set of tasks (the wiring of BoboSetupSimple[Distributed].generate)',
        'threading.RLock is a re-entrant mutex; queue.Queue and logging use internal leaf locks only',
        'queue operations: the generated table `queueWaits` (blocking put outside a `not full()` guard, blocking get) is '
        'proved empty (`no_queue_waits`) and full-queue scenarios are forced on real threads; pool.join / Thread.join / '
        'socket calls are argued case by case in the evidence notes, not by the theorem',
    ],
    model_covers='re-entrant lock semantics (owner + count), arbitrary interleavings of any number of threads over any '
                 'number of lock instances; the lock-acquisition table of bobocep (all `with self.<lock>` nestings through '
                 'the call graph, per thread role); the gated rank discipline and its finite checker',
)
