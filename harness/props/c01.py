"""
C01 — Pattern detection follows the documented block semantics.

D-tie: the real BoboDecider (patterns built through the real constructors) is
fed event streams one `update()` at a time; the notification and the run table
after every event are compared with the Lean model (`bobodrv decider`).
Oracle: harness/oracle_runs.py — the documented semantics transcribed
independently of run.py (the executable form of `specStep` in Props/C01.lean).
"""
from harness.core import PropSpec, Result, Ctx
from harness import gen_patterns as gp
from harness.decider_suite import Case, run_cases, ev_ops


def cases(ctx: Ctx, res: Result):
    # corpus: hand-picked interactions named in the property text
    P = gp.pattern
    corpus = [
        # optional falling through into a loop; loop keeps index (doc-silent D2)
        ([('ph', [P('p', ['0000', '0001', '0100', '0000'], [['eq:0'], ['eq:1'], ['eq:2'], ['eq:3']])])], [0, 2, 2, 1, 2, 3]),
        # negated + strict; halt versus accept on the same event
        ([('ph', [P('p', ['0000', '1010', '0000'], [['eq:0'], ['eq:1'], ['eq:2']], halt=['eq:2'])])], [0, 1, 0, 3, 2]),
        # an event that both finishes one run and starts another (singleton)
        ([('ph', [P('p', ['0000', '0000'], [['eq:0'], ['eq:0']], singleton=True)])], [0, 0, 0, 0]),
        # history-dependent predicates, shared groups
        ([('ph', [P('p', ['0000', '0100', '1000'], [['any'], ['gtmax'], ['lt:2']], groups=['g', 'g', 'h'])])], [1, 2, 3, 3, 0, 5]),
        # two phenomena, two patterns: table and notification order
        ([('a', [P('p', ['0000', '0000'], [['eq:0'], ['eq:1']]), P('q', ['0000', '1000'], [['eq:0'], ['eq:1']])]),
          ('b', [P('r', ['0000'], [['eq:1']])])], [0, 0, 2, 1, 1]),
    ]
    # two patterns of ONE name in one phenomenon (nothing forbids it): they share a slot of the run table, each run keeps
    # the pattern it was started from; a one-block pattern (first block = last block) completes on the event it accepts
    # and never has a stored run -- singleton or not
    for sing1 in (False, True):
        for sing2 in (False, True):
            corpus.append(([('ph', [P('p', ['0000', '0000'], [['eq:0'], ['eq:1']], singleton=sing2), P('p', ['0000'], [['eq:2']], singleton=sing1)])],
                           [0, 2, 2, 1, 2]))
            corpus.append(([('ph', [P('p', ['0000'], [['eq:2']], singleton=sing1), P('p', ['0000', '0100', '0000'], [['eq:0'], ['eq:2'], ['eq:1']], singleton=sing2)])],
                           [2, 0, 2, 2, 1, 2]))
    for phens, stream in corpus:
        res.count('corpus')
        yield Case(phens, 0, ev_ops(stream), 'corpus')
    # ONE block object at several positions of a pattern, the last among them (`[first] + [reading] * 3`; door, motion,
    # window, motion): equal texts are one object in predlang, so whatever tells blocks apart by identity confuses them
    import itertools as _it
    rep = [
        P('p', ['0000', '0000', '0000', '0000'], [['eq:0'], ['eq:1'], ['eq:1'], ['eq:1']], ['a', 'b', 'b', 'b']),
        P('p', ['0000', '0000', '0000', '0000'], [['eq:0'], ['eq:1'], ['eq:2'], ['eq:1']], ['a', 'b', 'c', 'b']),
        P('p', ['0000', '1000', '1000', '1000'], [['eq:0'], ['ne:0'], ['ne:0'], ['ne:0']], ['a', 'b', 'b', 'b']),
        P('p', ['0000', '0000', '0001', '0100', '0000'], [['eq:0'], ['eq:1'], ['eq:2'], ['eq:0'], ['eq:1']], ['a', 'b', 'c', 'd', 'b']),
        P('p', ['0000', '0000', '0000'], [['eq:0'], ['eq:1'], ['eq:1']], ['a', 'b', 'b'], singleton=True),
    ]
    for pat in rep:
        for s_ in _it.product((0, 1, 2), repeat=5):
            if s_[0] != 0:
                continue
            res.count('repeated_block_object')
            yield Case([('ph', [pat])], 0, ev_ops(list(s_)), 'repeated-block')
    # bounded-exhaustive: every legal flag vector up to k blocks x all streams of length L
    kmax, L = (3, 5) if ctx.thorough else (3, 4)
    if ctx.thorough:
        pats = list(gp.exhaustive_patterns(4, True))
        # k=4 thorough family is large: keep every pattern but sample streams
    else:
        pats = list(gp.exhaustive_patterns(kmax, False))
    streams = list(gp.all_streams(L))
    for i, pat in enumerate(pats):
        k = len(pat['blocks'])
        ss = streams if (k <= 3 and not ctx.thorough) else ctx.rng.sample(streams, 40 if ctx.thorough else len(streams))
        if not ctx.thorough and k == 3:
            # 3-block quick family: all streams for a third of the patterns, sampled for the rest
            ss = streams if i % 3 == 0 else ctx.rng.sample(streams, 12)
        for j, s in enumerate(ss):
            res.count(f'exhaustive_k{k}')
            # the timestamps the events carry: arrival order, sources with skewed clocks (not monotone, ties), all equal
            yield Case([('ph', [pat])], 0, ev_ops(s, kind=('s', 's', 'mixed')[(i + 2 * j) % 3],
                                                  clock=('arrival', 'skewed', 'arrival', 'same')[(i + j) % 4]), 'exh')
    # long hauls: thousands of events on one decider (more than a thousand runs started and finished, identifier counters
    # past 10^3, the finished-run memory wrapped many times over, histories of hundreds of events)
    for cache, n in ((0, 2600), (8, 2600)) + (((3, 12000),) if ctx.thorough else ()):
        P2 = gp.pattern
        haul = [('ph', [P2('p', ['0000', '0000'], [['eq:0'], ['eq:1']]), P2('l', ['0000', '0100', '0000'], [['eq:2'], ['lt:2'], ['eq:3']]),
                        P2('s', ['0000', '1000'], [['eq:0'], ['eq:0']], singleton=True)])]
        stream = [(i * 7 + (i // 5)) % 4 if i % 211 else 3 for i in range(n)]
        res.count('long_haul')
        yield Case(haul, cache, ev_ops(stream, kind='mixed' if cache else 's'), 'long-haul')
    # seeded random: longer patterns, several patterns/phenomena, history-dependent predicates
    for _ in range(1500 if ctx.thorough else 250):
        phens = gp.random_phens(ctx.rng)
        if ctx.rng.random() < 0.15:           # a second pattern under the name of the first, sometimes with a single block
            ph, pats = phens[0]
            twin = gp.random_pattern(ctx.rng, pats[0]['name'], kmin=1, kmax=3)
            phens[0] = (ph, pats + [twin])
            res.count('same_name_in_one_phenomenon')
        res.count('random')
        res.count('shape:' + gp.shape_key(phens)[:40])
        yield Case(phens, ctx.rng.choice((0, 0, 3)), ev_ops(gp.random_stream(ctx.rng, ctx.rng.randint(5, 30)),
                                                            kind=ctx.rng.choice(('s', 'mixed')),
                                                            clock=ctx.rng.choice(('arrival', 'skewed', 'skewed', 'same'))),
                   # a third: numbers that are not `int` objects, typed predicates that cast them (predlang OPAQUE)
                   ('rnd+opaque' if ctx.rng.random() < 0.34 else 'rnd') + ('+bomb' if ctx.rng.random() < 0.25 else ''))


def run(ctx: Ctx) -> Result:
    res = Result()
    if ctx.replay is not None and ctx.replay['replay'].get('history_race'):
        from harness import history_race
        history_race.run(res, only=ctx.replay['replay'])
        return res
    if ctx.replay is not None:
        cs = [Case.from_json(ctx.replay['replay'])]
    else:
        cs = cases(ctx, res)

    def per_case(case, rd, outs, r):
        nontrivial = any(o.startswith('1') for o in outs)
        r.add_case({'phens': case.phens, 'ops': case.ops[:8]}, nontrivial)
        for o in outs:
            if ' C[' in o and ' C[]' not in o:
                r.count('steps_completing')
            if ' H[' in o and ' H[]' not in o:
                r.count('steps_halting')
            if o == 'X':
                r.count('steps_exception')

    run_cases(ctx, cs, res, per_case=per_case, use_ref=True, sig='block-semantics')
    # compress the shape histogram
    shapes = {k: v for k, v in res.distribution.items() if k.startswith('shape:')}
    for k in shapes:
        del res.distribution[k]
    res.distribution['distinct_random_shapes'] = len(shapes)
    # history-dependent predicates read the run's live history while other threads read it too (a monitor, the thread that
    # writes it out for a peer): what `first()` / `last()` / … answer must not depend on that
    if ctx.replay is None:
        from harness import history_race
        history_race.run(res)
    return res


def search(ctx: Ctx) -> Result:
    """deeper search on the implementation alone against the reference semantics."""
    res = Result()
    streams = list(gp.all_streams(5))
    cs = (Case([('ph', [p])], 0, ev_ops(s), 'search') for p in gp.exhaustive_patterns(3, True) for s in ctx.rng.sample(streams, 25))

    class NoModel(Ctx):
        pass
    ctx2 = Ctx(ctx.prop, ctx.tier, ctx.seed, ctx.rng, lean=None)
    run_cases(ctx2, cs, res, use_ref=True, sig='block-semantics')
    res.disagreements = []
    return res


SPEC = PropSpec(
    prop='C01', extra_props=['C01Decider'],
    translators=['patternrules', 'runwalk', 'deciderfrag'],
    run=run,
    search=search,
    rule='bounded-exhaustive: every legal (strict,loop,negated,optional) vector for patterns of 1..3 blocks (4 in thorough) with a family of '
         'predicate assignments, pre/haltcondition sets, singleton on/off, against all streams of length 4 (5) over {0,1,2} '
         '(sampled for part of the 3-block family in quick); plus seeded random 2-7 block patterns over 1-2 phenomena with '
         'history-dependent predicates and streams of 5-30 events; a case is non-trivial when at least one event changes a run; '
         'distinct = distinct (pattern set, stream)',
    trusted_base=['harness/oracle_runs.py is the executable transcription of the documented semantics (spec side of process_eq_spec)'],
    assumptions=['user predicates are pure functions of (event, history) returning bool'],
    model_covers='BoboRun.process/_process_loop/_process_not_loop/_move_forward/_add_event, BoboDecider.update/_process_event/'
                 '_check_against_runs/_check_against_patterns/_add_run/_remove_run/_maybe_cache, constructor legality rules',
)
