"""
C12 — Run lifecycle is monotone and terminal; published snapshots never change.

Histories: local event streams (C01 space) interleaved with arbitrary remote
updates (ahead, equal, behind, unknown pattern, stale, merged, duplicated),
generated adaptively from the real decider's state.  D-tie: `bobodrv decider`.
Oracle (on the real decider's outputs, independent of the model), after every
step: position monotone per run id; history changes only by appending (local:
exactly the event just offered; remote: only when the record is strictly ahead
in (index, history size), and then equal to the record); no halted/complete run
in the table; a run is announced finished by local processing at most once and
is gone afterwards; ids unique; and — the aliasing residue the pure model cannot
exhibit — every record / complex event ever handed to a subscriber serialises
to the same text at the end as at publication.
"""
from harness.core import PropSpec, Result, Ctx, Violation
from harness import gen_patterns as gp
from harness import predlang as pl
from harness.decider_suite import Case, run_cases, ev_ops
from harness.gen_remote import gen_history, _parse_table

from bobocep.cep.engine.producer.producer import BoboProducer
from bobocep.cep.engine.producer.pubsub import BoboProducerSubscriber
from bobocep.cep.gen.timestamp import BoboGenTimestamp


def parse_rec(s):
    rid, ph, pa, idx, h = s.rstrip('!').split('|')
    groups = [(g.split('=')[0], g.split('=')[1].split('.')) for g in h.split(';')] if h else []
    return {'id': rid, 'key': (ph, pa, rid), 'idx': int(idx), 'groups': groups,
            'size': sum(len(es) for _, es in groups), 'halted': s.endswith('!'), 'text': s.rstrip('!')}


def lists_of(out):
    d = {}
    for tag in ('C[', 'H[', 'U['):
        i = out.index(' ' + tag) + 3 if (' ' + tag) in out else out.index(tag) + 2
        j = out.index(']', i)
        d[tag[0]] = out[i:j].split()
    return d


def appended_one(old, new, ev_text):
    """new history = old history with exactly `ev_text` appended to one group (possibly a new last group)."""
    if len(new) == len(old):
        diff = [i for i in range(len(old)) if old[i] != new[i]]
        if len(diff) != 1:
            return False
        i = diff[0]
        return old[i][0] == new[i][0] and new[i][1] == old[i][1] + [ev_text]
    if len(new) == len(old) + 1:
        return new[:-1] == old and new[-1][1] == [ev_text]
    return False


def check_history(case, outs, res, nblocks, singletons=()):
    prev = {}            # key -> parsed rec
    announced = set()
    # clauses that rely on the finished-run memory (a stale record cannot re-create a finished run) are
    # checked only when the memory is enabled and larger than the history could fill
    memory = case.cache >= 1000
    # "once finished, out of the active set": every identifier finished here or named finished by a peer, as long as the
    # finished-run memory cannot have dropped any (each record named finished takes at most two slots: itself and, for a
    # singleton pattern, the local run it stands for)
    gone, slots = set(), 0
    for k, (op, out) in enumerate(zip(case.ops, outs)):
        if out == 'X':
            continue
        if op.split()[0] == 'rem':
            cl = None
            for x in op.split()[1:]:
                if x in ('C', 'H', 'U'):
                    cl = x
                elif cl in ('C', 'H'):
                    gone.add(x.split('|')[0])
                    slots += 2
        else:
            fin = lists_of(out)
            for rec in fin['C'] + fin['H']:
                gone.add(rec.split('|')[0])
                slots += 1
        if 0 < case.cache and slots <= case.cache:
            for r in _parse_table(out):
                if r.split('|')[0].rstrip('!') in gone:
                    return fail(res, case, k, 'finished-run-active-again',
                                f"run {r.split('|')[0]} was finished (here, or named completed / halted by a peer) and is in the active set "
                                f"after this step")
        cur = {}
        recs = [parse_rec(r) for r in _parse_table(out)]
        for r in recs:
            if r['key'] in cur:
                return fail(res, case, k, 'duplicate-run-id', f"two active runs share id {r['id']}")
            cur[r['key']] = r
            if r['halted'] or r['idx'] >= nblocks.get(r['key'][:2], 10 ** 9):
                return fail(res, case, k, 'finished-run-in-table', f"run {r['id']} is halted/complete but still active")
        w = op.split()
        ls = lists_of(out)
        if w[0] == 'ev':
            ev_text = f'{w[1]}:{w[2]}:{w[3]}:{w[4]}'
            for key, r in cur.items():
                if key in prev:
                    o = prev[key]
                    if r['idx'] < o['idx']:
                        return fail(res, case, k, 'position-decreased', f"run {r['id']} moved from {o['idx']} to {r['idx']}")
                    if r['groups'] != o['groups'] and not appended_one(o['groups'], r['groups'], ev_text):
                        return fail(res, case, k, 'history-not-appended', f"run {r['id']}: {o['text']} -> {r['text']} on {op}")
                    if r['groups'] == o['groups'] and r['idx'] != o['idx']:
                        return fail(res, case, k, 'history-not-appended', f"run {r['id']} moved without recording the event")
            for rec in ls['C'] + ls['H']:
                key = parse_rec(rec)['key']
                if key in announced and memory:
                    return fail(res, case, k, 'announced-twice', f"run {key[2]} announced finished twice by local processing")
                announced.add(key)
                if key in cur:
                    return fail(res, case, k, 'finished-run-in-table', f"run {key[2]} announced finished but still active")
        else:
            remote = {}
            for x in w[1:]:
                if x not in 'CHU':
                    pr = parse_rec(x)
                    remote.setdefault(pr['key'], []).append(pr)
            named_finished = {k2 for k2, xs in remote.items() for x in xs if False}
            finished_ids = set()
            cur_list = None
            for x in w[1:]:
                if x in ('C', 'H', 'U'):
                    cur_list = x
                elif cur_list in ('C', 'H'):
                    finished_ids.add(x.split('|')[0])
            for key, r in cur.items():
                # without memory a run may legitimately be removed and re-created by one message that also names it
                # finished; every other change of a run that exists before and after must come from a record strictly ahead
                if key in prev and (memory or (key[2] not in finished_ids and key[:2] not in singletons)):
                    o = prev[key]
                    if (r['idx'], r['groups']) != (o['idx'], o['groups']):
                        pool = remote.get(key, [])
                        if key[:2] in singletons:     # singleton: records with any id fold onto the one local run
                            pool = [x for kk, xs in remote.items() if kk[:2] == key[:2] for x in xs]
                        cands = [x for x in pool if (x['idx'], x['size']) > (o['idx'], o['size'])]
                        if not any((x['idx'], x['groups']) == (r['idx'], r['groups']) for x in cands):
                            return fail(res, case, k, 'remote-not-ahead-applied',
                                        f"run {r['id']} changed {o['text']} -> {r['text']} without a remote record strictly ahead")
                        if (r['idx'], r['size']) < (o['idx'], o['size']):
                            return fail(res, case, k, 'position-decreased', f"run {r['id']} moved backwards on a remote update")
                # a run that is still there after the message is not behind any record of the message that named it (the
                # records of one message are applied one after the other: a later, older record must not undo a newer one)
                if key in prev and (memory or key[2] not in finished_ids):
                    own = [x for x in remote.get(key, []) if x in [y for kk, xs in remote.items() for y in xs]]
                    upd_ids = set()
                    cl = None
                    for x in w[1:]:
                        if x in ('C', 'H', 'U'):
                            cl = x
                        elif cl == 'U':
                            upd_ids.add(x)
                    best = None
                    for x in w[1:]:
                        if x in upd_ids:
                            pr = parse_rec(x)
                            if pr['key'] == key and (best is None or (pr['idx'], pr['size']) > (best['idx'], best['size'])):
                                best = pr
                    if best is not None and key[:2] not in singletons and (r['idx'], r['size']) < (best['idx'], best['size']) \
                            and (best['idx'], best['size']) > (prev[key]['idx'], prev[key]['size']) \
                            and best['idx'] < nblocks.get(key[:2], 10 ** 9):
                        return fail(res, case, k, 'remote-newer-undone',
                                    f"run {r['id']} ends at {r['text']} although the same message carried the newer {best['text']}")
        prev = cur
    return True


def halted_by_api_cases(res):
    """"once a run has halted ... it ignores every further event": a run halted through the PUBLIC `BoboRun.halt()` (an
    application cancelling a partial match; nothing in the project calls it) stays halted and where it is, whatever comes
    next -- local events that would match its next block, a peer's update that is ahead of it, a peer's update behind it."""
    from harness.drive_decider import RealDecider
    P = gp.pattern
    phens = [('ph', [P('p', ['0000'] * 4, [['eq:0'], ['eq:1'], ['eq:2'], ['eq:3']]),
                     P('s', ['0000', '0100', '0000'], [['eq:0'], ['eq:1'], ['eq:2']], singleton=True)])]
    h = lambda n: ';'.join(f'g{i}=z{i}:{i}:s:{i}' for i in range(n))      # noqa
    for pat in ('p', 's'):
        for cache in (0, 1000):
            for later in (['ev e5 5 s 1', 'ev e6 6 s 2'], [f'rem U r0|ph|{pat}|2|{h(2)}', 'ev e5 5 s 2'],
                          [f'rem U r0|ph|{pat}|3|{h(3)}'], [f'rem U r0|ph|{pat}|1|{h(1)}', 'ev e5 5 s 1'],
                          [f'rem U fZ|ph|{pat}|2|{h(2)}', 'ev e5 5 s 2']):
                rd = RealDecider(phens, cache)
                rd.do('ev e0 0 s 0')
                runs = [r for r in rd.dec.all_runs() if r.pattern.name == pat]
                case = {'halted_by_api': True, 'pattern': pat, 'cache': cache, 'later': later}
                res.add_case(case, nontrivial=True)
                res.count('halted_by_api')
                if len(runs) != 1:
                    continue
                run = runs[0]
                run.halt()
                before = (run.block_index, pl.show_hist(run.history()))
                for op in later:
                    rd.do(op)
                    now = (run.block_index, pl.show_hist(run.history()))
                    if not run.is_halted():
                        res.violations.append(Violation('halted-run-live-again', f"a run halted through BoboRun.halt() is live again after {op[:70]}", case))
                        break
                    if now != before and op.startswith('ev '):
                        res.violations.append(Violation('halted-run-accepted-event', f"a run halted through BoboRun.halt() moved {before} -> {now} on {op}", case))
                        break
                    before = now          # (what a peer's record does to the stored position is not "an event")


def closing_subscriber_cases(res):
    """"announced exactly once by the instance that finished it" -- to EVERY subscriber -- when one of them ends the show from
    inside its callback: a monitor that stops the decider (or the whole engine) on the first finished run, subscribed BEFORE
    the replication link and the recorder.  The notification being delivered is delivered to the end; nothing is
    announced after the close."""
    from bobocep.cep.engine.decider.pubsub import BoboDeciderSubscriber
    from bobocep.cep.engine.decider.decider import BoboDecider
    from bobocep.cep.engine.engine import BoboEngine
    from bobocep.setup.simple import BoboSetupSimple
    from bobocep.cep.action import BoboActionHandlerBlocking
    from harness.drive_decider import CounterGen
    P = gp.pattern
    phens = [('ph', [P('p', ['0000', '0000'], [['eq:0'], ['eq:1']], halt=['eq:9']), P('q', ['0000', '0000'], [['eq:0'], ['eq:1']])])]
    h = 'g0=z0:0:s:0;g1=z1:1:s:1'

    class Keep(BoboDeciderSubscriber):
        def __init__(self):
            self.seen = []

        def on_decider_update(self, completed, halted, updated, local):
            self.seen.append((tuple(r.run_id for r in completed), tuple(r.run_id for r in halted), local))

    class Stopper(BoboDeciderSubscriber):
        def __init__(self, what):
            self.what, self.fired = what, False

        def on_decider_update(self, completed, halted, updated, local):
            if (completed or halted) and not self.fired:
                self.fired = True
                self.what()
    for closes in ('decider', 'engine'):
        for how in ('complete', 'halt', 'remote-complete', 'remote-halt'):
            case = {'closing_subscriber': True, 'closes': closes, 'how': how}
            res.add_case(case, nontrivial=True)
            res.count('closing_subscriber_cases')
            try:
                if closes == 'engine':
                    eng = BoboSetupSimple(phenomena=pl.mk_phenomena(phens), handler=BoboActionHandlerBlocking()).generate()
                    dec, shut = eng.decider, eng.close
                else:
                    dec = BoboDecider(pl.mk_phenomena(phens), CounterGen('e'), CounterGen('r'), max_cache=1000)
                    shut = dec.close
                first, last = Keep(), Keep()
                dec.subscribe(first)
                dec.subscribe(Stopper(shut))
                dec.subscribe(last)
                dec.on_receiver_update(pl.mk_event('e0', 0, 's', 0))
                dec.update()
                if how in ('complete', 'halt'):
                    dec.on_receiver_update(pl.mk_event('e1', 1, 's', 1 if how == 'complete' else 9))
                    dec.update()
                else:
                    rec = [pl.parse_rec(f'f0|ph|p|2|{h}')]
                    dec.on_distributed_update(rec if how == 'remote-complete' else [], rec if how == 'remote-halt' else [], [])
                # anything after the close changes nothing and announces nothing
                n_first, n_last = len(first.seen), len(last.seen)
                dec.on_receiver_update(pl.mk_event('e2', 2, 's', 0))
                dec.update()
            except Exception as e:   # noqa
                res.violations.append(Violation('exception-escaped', f"{case}: {type(e).__name__}: {e}", case))
                continue
            fin_first = [x for x in first.seen if x[0] or x[1]]
            fin_last = [x for x in last.seen if x[0] or x[1]]
            if not fin_first:
                continue          # (nothing finished: not the situation meant)
            if fin_last != fin_first:
                res.violations.append(Violation(
                    'announced-not-exactly-once',
                    f"a subscriber closed the {closes} from inside its callback when a run finished ({how}): the subscriber before it was told "
                    f"{fin_first}, the subscriber after it {fin_last or 'nothing'} -- the finished run left the active set without being "
                    f"announced to every subscriber", case))
            elif (len(first.seen), len(last.seen)) != (n_first, n_last):
                res.violations.append(Violation('announced-after-close', f"{case}: a notification was delivered after close()", case))


def fail(res, case, k, sig, what):
    res.violations.append(Violation(sig, f"{what} (step {k}: {case.ops[k][:80]})", {**case.to_json(), 'failing_step': k}))
    return False


class TS(BoboGenTimestamp):
    def __init__(self):
        self.n = 0

    def generate(self):
        self.n += 1
        return self.n


class CERec(BoboProducerSubscriber):
    def __init__(self):
        self.events = []

    def on_producer_update(self, event, local):
        self.events.append((event, event.to_json_str()))


def run(ctx: Ctx) -> Result:
    res = Result()
    from harness.drive_decider import RealDecider, CounterGen
    # patch: attach a producer to every RealDecider built by the suite so complex events are observed too
    producers = {}
    orig_init = RealDecider.__init__

    def init(self, phens, cache, phenomena=None):
        orig_init(self, phens, cache, phenomena)
        prod = BoboProducer(self.phenomena, CounterGen('c'), TS())
        cer = CERec()
        prod.subscribe(cer)
        self.dec.subscribe(prod)
        self.producer, self.cerec = prod, cer

    RealDecider.__init__ = init
    try:
        def cases():
            if ctx.replay is not None:
                if 'names' not in ctx.replay['replay']:
                    yield Case.from_json(ctx.replay['replay'])
                return
            P = gp.pattern
            loopy = [('ph', [P('p', ['0000', '0100', '0001', '0000'], [['eq:0'], ['eq:1'], ['eq:2'], ['eq:3']]),
                              P('s', ['0000', '1000', '0000'], [['eq:0'], ['ne:4'], ['eq:3']], singleton=True)])]
            # long histories: a looping block accepting hundreds of events in one group (history bounds, windows, copies)
            for m in ((300, 1100) if ctx.thorough else (300,)):
                yield Case([('ph', [P('p', ['0000', '0100', '0000'], [['eq:0'], ['eq:1'], ['eq:2']])])], 0,
                           ev_ops([0] + [1] * m + [2]), 'long-loop')
            # one message naming the same run twice, the newer state first (a backlog resent behind a newer change; two peers'
            # names for one singleton run)
            five = [('ph', [P('p', ['0000'] * 5, [['eq:0'], ['eq:1'], ['eq:2'], ['eq:3'], ['eq:4']]),
                            P('s', ['0000'] * 5, [['eq:0'], ['eq:1'], ['eq:2'], ['eq:3'], ['eq:4']], singleton=True)])]
            h = lambda n: ';'.join(f'g{i}=z{i}:{i}:s:{i}' for i in range(n))      # noqa
            for cache in (0, 1000):
                yield Case(five, cache, ['ev e0 0 s 0', 'ev e1 1 s 1',
                                         f'rem U r0|ph|p|4|g0=e0:0:s:0;g1=e1:1:s:1;g2=y:7:s:2;g3=y:8:s:3 r0|ph|p|3|g0=e0:0:s:0;g1=e1:1:s:1;g2=y:7:s:2',
                                         'ev e2 2 s 4'], 'twice-newer-first')
                yield Case(five, cache, ['ev e0 0 s 0',
                                         f'rem U fX|ph|s|4|{h(4)} fY|ph|s|3|{h(3)}', 'ev e2 2 s 4'], 'twice-newer-first')
                yield Case(five, cache, [f'rem U f0|ph|p|1|{h(1)}', f'rem U f0|ph|p|3|{h(3)} f0|ph|p|2|{h(2)} f0|ph|p|4|{h(4)} f0|ph|p|2|{h(2)}'],
                           'twice-newer-first')
            # a SYNC merged with a backlog, met by an instance whose own run of the (singleton / plain) pattern has another
            # identifier: the peer's run named finished and, with an older state, updated in ONE message; then the same stale
            # update once more on its own; then local events (a finished identifier never comes back, a new run may start)
            for cache in (4, 8, 1000):
                for pat in ('s', 'p'):
                    for fin in ('C', 'H'):
                        for local_first in (True, False):
                            ops = (['ev e0 0 s 0'] if local_first else []) + [
                                f'rem {fin} f0|ph|{pat}|{5 if fin == "C" else 3}|{h(5 if fin == "C" else 3)} U f0|ph|{pat}|2|{h(2)}',
                                f'rem U f0|ph|{pat}|2|{h(2)}', 'ev e1 1 s 0', 'ev e2 2 s 1', f'rem U f0|ph|{pat}|3|{h(3)}']
                            yield Case(five, cache, ops, 'merged-backlog')
            # long hauls with a small memory: hundreds of local and remote steps on one decider (the memory wraps many times)
            for k in range(6 if ctx.thorough else 2):
                yield gen_history(ctx.rng, loopy if k % 2 else gp.random_phens(ctx.rng), (8, 4)[k % 2], 500)
            n = 1200 if ctx.thorough else 220
            for i in range(n):
                phens = loopy if i % 4 == 0 else gp.random_phens(ctx.rng)
                yield gen_history(ctx.rng, phens, ctx.rng.choice((0, 8, 1000, 1000)), ctx.rng.randint(8, 40))
            # pure local streams: the exhaustive C01 family (sampled)
            streams = list(gp.all_streams(4))
            for pat in gp.exhaustive_patterns(3, False):
                for s in ctx.rng.sample(streams, 3 if not ctx.thorough else 12):
                    yield Case([('ph', [pat])], 0, ev_ops(s), 'exh')

        def per_case(case, rd, outs, r):
            kinds = set()
            for op in case.ops:
                kinds.add(op.split()[0])
            r.add_case({'phens': case.phens, 'ops': case.ops[:6]}, nontrivial=any(o.startswith('1') or ' U[' in o for o in outs))
            r.count('ops_local', sum(1 for o in case.ops if o.startswith('ev')))
            r.count('ops_remote', sum(1 for o in case.ops if o.startswith('rem')))
            nblocks = {(ph, p['name']): len(p['blocks']) for ph, ps in case.phens for p in ps}
            singletons = {(ph, p['name']) for ph, ps in case.phens for p in ps if p.get('singleton')}
            check_history(case, outs, r, nblocks, singletons)
            # drain the producer, then re-serialise everything that was ever published
            try:
                while rd.producer.update():
                    pass
            except Exception as e:   # the producer only sees what the decider published
                r.violations.append(Violation(
                    'subscriber-rejected-published-record',
                    f"the producer raised {e.__class__.__name__}: {e} on a run the decider published as completed "
                    f"(a record of a phenomenon/pattern this instance does not know must be dropped, not published)",
                    case.to_json()))
                return
            for batch in rd.rec.published:
                for obj, text in batch:
                    if obj.to_json_str() != text:
                        r.violations.append(Violation('published-snapshot-changed',
                                                      f"a run record handed to a subscriber later changed: {text[:80]} -> {obj.to_json_str()[:80]}",
                                                      case.to_json()))
                        return
            for obj, text in rd.cerec.events:
                if obj.to_json_str() != text:
                    r.violations.append(Violation('published-snapshot-changed', 'a complex event changed after publication', case.to_json()))
                    return
            r.count('published_records_rechecked', sum(len(b) for b in rd.rec.published))
            r.count('complex_events_rechecked', len(rd.cerec.events))

        kept = []

        def tee(gen):
            for c in gen:
                kept.append(c)
                yield c
        run_cases(ctx, tee(cases()), res, per_case=per_case, use_ref=False)
        # the same histories once more WITHOUT looking at the decider between the steps (the observation above serialises
        # every run after every step, and a look is not always harmless): what was published must still read the same
        for case in kept:
            if res.violations:
                break
            rd = RealDecider(case.phens, case.cache)
            rd.rec.dec = None               # (quiet: the subscriber does not look at the decider from inside its callback either)
            for op in case.ops:
                rd.do_quiet(op)
            res.count('quiet_replays')
            bad = None
            for batch in rd.rec.published:
                for obj, text in batch:
                    if obj.to_json_str() != text:
                        bad = (text, obj.to_json_str())
                        break
                if bad:
                    break
            if bad:
                res.violations.append(Violation(
                    'published-snapshot-changed',
                    f"without any look at the decider between the steps, a run record handed to a subscriber later changed: "
                    f"{bad[0][:90]} -> {bad[1][:90]}", {**case.to_json(), 'quiet': True}))
    finally:
        RealDecider.__init__ = orig_init
    if ctx.replay is None or ctx.replay.get('replay', {}).get('halted_by_api'):
        halted_by_api_cases(res)
    if ctx.replay is None or ctx.replay.get('replay', {}).get('closing_subscriber'):
        closing_subscriber_cases(res)
    # "announced exactly once by the instance that finished it" when the SAME run is finished by a peer and locally at the same
    # moment: the peer's notification is applied by the distributed thread while the engine thread processes the datum
    # that finishes the local copy (real engines + replication, the engine's cycle injected where the distributed thread
    # reaches for the decider's lock)
    if ctx.replay is None or 'names' in ctx.replay.get('replay', {}):
        from harness import gen_cluster as gc
        from harness.props.c04 import run_scenarios
        import itertools
        # (… and "every notification handed to a subscriber is a frozen snapshot" while the replication layer queues, retries
        # and merges what the notifications carried: sends that fail again and again, outages, backlogs)
        scs = [ctx.replay['replay']] if ctx.replay is not None else itertools.chain(
            gc.racing_engine_family(), gc.repeated_failure_family(), gc.merged_backlog_family(),
            (gc.fault_scenario(ctx.rng) for _ in range(400 if ctx.thorough else 60)))
        if not (ctx.replay is not None and ctx.replay['replay'].get('race')):
            run_scenarios(ctx, scs, res, {'completed-twice', 'finished-run-resurrected', 'action-executed-twice', 'published-snapshot-changed'})
    from harness import decider_race
    decider_race.attach(ctx, res)
    return res


def search(ctx: Ctx) -> Result:
    c2 = Ctx(ctx.prop, 'thorough', ctx.seed, ctx.rng)
    r = run(c2)
    r.disagreements = []
    return r


SPEC = PropSpec(
    prop='C12', extra_props=['C12All'], translators=['deciderfrag'], run=run, search=search,
    rule='adaptive histories of 8-40 operations on one real decider mixing local events with remote updates derived from its '
         'current table (ahead / equal / behind / finished / stale / merged / duplicated / unknown pattern / foreign id), over random '
         'and loop/optional/singleton pattern sets with finished-run memory 0/8/1000 (memory-dependent clauses checked with 1000), plus sampled exhaustive C01 local streams; '
         'non-trivial = some run changed; every published record and complex event is re-serialised at the end of the history; '
         'on clusters (racing, repeated-failure, merged-backlog and random fault families) the decider subscriber keeps the notification LIST OBJECTS and compares them after every step',
    trusted_base=['the frozen-snapshot clause is monitored on the real objects (aliasing is outside the pure model)'],
    assumptions=['user predicates are pure'],
    model_covers='BoboRun.process (monotone index, append-only history, absorbing halt), BoboDecider.on_distributed_update '
                 '(forward-only application, unknown patterns), _add_run/_remove_run (unique ids, finished runs leave the table)',
)
