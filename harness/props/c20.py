"""
C20 — Every action execution is reported once, with its own outcome.

D-tie (model driver `bobodrv actions`):
  * the real BoboActionMultiSequential on every outcome vector of 1..6 sub-actions x stop_on_fail
    on/off (exhaustive), compared with the model's `multiExecute`;
  * the real blocking handler under random handle / get_handler_response interleavings (bounded and
    unbounded queue), compared call by call;
  * the real multithreading handler (1..8 threads) with *gated* actions: the harness decides which
    running action finishes next, so the completion order is scripted and the response order is
    compared with the model's pool under the same schedule;
  * the real BoboForwarder over a blocking handler (phenomena with / without action, unknown
    phenomenon), action events compared field by field.
Exercised with the oracle only (real scheduling, not modelled): the multithreading handler with
sleeping actions, the multiprocessing handler (1..2 processes quick, up to 4 thorough; pickled
actions / events), nested and event-dependent multi-actions.

Oracle (independent of the model): exactly one response per submitted (action, event) — matched by
the complex event's id, unique per submission —, naming that action, carrying that event, with the
success flag and data that action returns for that event; blocking handler: submission order.
Multi-action: success iff every executed sub-action succeeded; data = outputs of the executed
sub-actions in order; executed = all, or with stop_on_fail the prefix ending at the first failure
(taken from a log the sub-actions write themselves).
"""
import itertools
import threading
import time

from harness.core import PropSpec, Result, Violation, Ctx, run_model

from bobocep.cep.action.action import BoboAction
from bobocep.cep.action.common.multi import BoboActionMultiSequential
from bobocep.cep.action.handler import (BoboActionHandlerBlocking, BoboActionHandlerMultithreading,
                                        BoboActionHandlerMultiprocessing, BoboActionHandlerError)
from bobocep.cep.engine.forwarder.forwarder import BoboForwarder
from bobocep.cep.engine.forwarder.pubsub import BoboForwarderSubscriber
from bobocep.cep.event import BoboEventComplex, BoboEventAction, BoboHistory
from bobocep.cep.gen.event_id import BoboGenEventID
from bobocep.cep.gen.timestamp import BoboGenTimestamp
from bobocep.cep.phenom.phenom import BoboPhenomenon


# --------------------------------------------------------------------------
# actions (top-level classes: the multiprocessing handler pickles them)
# --------------------------------------------------------------------------

class TableAction(BoboAction):
    """returns table[event id] = (success, data), after an optional sleep"""

    def __init__(self, name, table, delays=None):
        super().__init__(name)
        self.table = dict(table)
        self.delays = dict(delays or {})

    def execute(self, event):
        d = self.delays.get(event.event_id, 0)
        if d:
            time.sleep(d)
        return self.table[event.event_id]

    def __bool__(self):        # an action object Python counts as false is still an action
        return False


class GatedAction(BoboAction):
    """blocks until the harness opens the gate of the event it was given"""

    def __init__(self, name, table):
        super().__init__(name)
        self.table = dict(table)
        self.started = {k: threading.Event() for k in table}
        self.gate = {k: threading.Event() for k in table}

    def execute(self, event):
        self.started[event.event_id].set()
        if not self.gate[event.event_id].wait(20):
            raise RuntimeError('gate never opened')
        return self.table[event.event_id]


class SubAction(BoboAction):
    """sub-action of a multi-action: logs its own execution"""

    def __init__(self, idx, fn, log):
        super().__init__(f's{idx}')
        self.idx, self.fn, self.log = idx, fn, log

    def execute(self, event):
        self.log.append(self.idx)
        return self.fn(event)


def cev(evid, phen=None, pat=None):
    return BoboEventComplex(evid, 7, {'k': evid}, phen or ('ph_' + evid), pat or ('pt_' + evid), BoboHistory({}))


def wait_until(cond, timeout=10.0):
    t0 = time.time()
    while not cond():
        if time.time() - t0 > timeout:
            return False
        time.sleep(0.0003)
    return True


def resp_str(r):
    return f"{r.action_name} {r.complex_event.event_id} {1 if r.success else 0} {r.data}"


# --------------------------------------------------------------------------
# A. sequential multi-action
# --------------------------------------------------------------------------

def multi_spec(outs, stop):
    """the property statement: (success, data, executed indices) from the outcome list of the sub-actions"""
    executed = []
    for i, (ok, _) in enumerate(outs):
        executed.append(i)
        if stop and not ok:
            break
    return all(outs[i][0] for i in executed), [outs[i] for i in executed], executed


def multi_cases(res, lines, impl_out, maxn, only=None):
    ev = cev('m')
    for n in range(1, maxn + 1):
        for bits in itertools.product((1, 0), repeat=n):
            for stop in (True, False):
                case = {'kind': 'multi', 'stop': stop, 'outcomes': list(bits)}
                if only is not None and only != case:
                    continue
                log = []
                subs = [SubAction(i, (lambda e, b=b, i=i: (bool(b), i)), log) for i, b in enumerate(bits)]
                m = BoboActionMultiSequential('m', subs, stop)
                success, data = m.execute(ev)
                res.add_case(case, nontrivial=(0 in bits))
                res.count(f'multi_n{n}')
                res.count('multi_stop' if stop else 'multi_nostop')
                exp_s, exp_d, exp_x = multi_spec([(bool(b), i) for i, b in enumerate(bits)], stop)
                if log != exp_x:
                    res.violations.append(Violation('multi-executed-set', f"outcomes {bits}, stop_on_fail={stop}: executed {log}, expected {exp_x}", case))
                elif list(data) != exp_d:
                    res.violations.append(Violation('multi-data', f"outcomes {bits}, stop_on_fail={stop}: reported {data}, the executed sub-actions returned {exp_d}", case))
                elif success is not exp_s:
                    res.violations.append(Violation('multi-success', f"outcomes {bits}, stop_on_fail={stop}: success={success}, expected {exp_s}", case))
                lines.append(f"multi {int(stop)} {''.join(map(str, bits))}")
                impl_out.append(f"{1 if success else 0} " + (','.join(f"{1 if s else 0}:{d}" for s, d in data) or '-'))


def multi_grown_cases(res):
    """the list handed to the constructor is changed by its owner AFTERWARDS (a sub-action registered late, one retired),
    then the multi-action runs.  Whether the multi-action follows the list or keeps its own copy is its business; what it
    reports must follow from what it executed: data = the results of the executed sub-actions in order, success = all of
    their flags."""
    ev = cev('mg')
    for n in (1, 2, 3):
        for bits in itertools.product((1, 0), repeat=n):
            for stop in (True, False):
                for change in ('append-ok', 'append-fail', 'pop', 'insert-ok', 'clear-refill'):
                    if change == 'pop' and n < 2:
                        continue
                    log = []
                    mk = lambda i, b: SubAction(i, (lambda e, b=b, i=i: (bool(b), i)), log)     # noqa
                    subs = [mk(i, b) for i, b in enumerate(bits)]
                    m = BoboActionMultiSequential('mg', subs, stop)
                    if change == 'append-ok':
                        subs.append(mk(n, 1))
                    elif change == 'append-fail':
                        subs.append(mk(n, 0))
                    elif change == 'pop':
                        subs.pop()
                    elif change == 'insert-ok':
                        subs.insert(0, mk(n, 1))
                    else:
                        keep = list(subs)
                        subs.clear()
                        subs.extend(keep)
                    case = {'kind': 'multi-grown', 'stop': stop, 'outcomes': list(bits), 'change': change}
                    res.add_case(case, nontrivial=True)
                    res.count('multi_grown')
                    try:
                        success, data = m.execute(ev)
                    except Exception as e:   # noqa
                        res.violations.append(Violation('multi-raised', f"{case}: execute raised {type(e).__name__}", case))
                        continue
                    outs = {i: (bool(b), i) for i, b in enumerate(bits)}
                    outs[n] = (change != 'append-fail', n)
                    exp_d = [outs[i] for i in log]
                    if list(data) != exp_d:
                        res.violations.append(Violation('multi-data', f"{case}: reported {data}, the executed sub-actions {log} returned {exp_d}", case))
                    elif success is not all(o[0] for o in exp_d):
                        res.violations.append(Violation('multi-success', f"{case}: executed {log}, results {exp_d}, reported success={success}", case))
                    elif stop and any(not o[0] for o in exp_d[:-1]):
                        res.violations.append(Violation('multi-executed-set', f"{case}: went on after a failed sub-action although stop_on_fail", case))


class CountingSub(BoboAction):
    """sub-action object that may occupy several slots of one multi-action: its k-th call returns script[k]"""

    def __init__(self, name, tag, script, log):
        super().__init__(name)
        self.tag, self.script, self.log, self.calls = tag, script, log, 0

    def execute(self, event):
        k = self.calls
        self.calls += 1
        self.log.append((self.tag, k))
        return self.script[k], (self.tag, k)


def multi_shared_cases(res, rng, count, only=None):
    """the SAME action object (or distinct objects with the same name) in several slots of one multi-action: every
    executed slot is reported, in order, with the outcome of ITS call (retry lists, [send, wait, send])."""
    combos = []
    for n in (2, 3, 4):
        for slots in itertools.product(range(n), repeat=n):
            if len(set(slots)) < n:          # at least one object occupies two slots
                combos.append(slots)
    picks = combos if count is None else [rng.choice(combos) for _ in range(count)]
    for slots in picks:
        n = len(slots)
        for bits in (itertools.product((True, False), repeat=n) if n <= 3 else [tuple(rng.random() < 0.6 for _ in range(n)) for _ in range(4)]):
            for stop in (True, False):
                for same_name in (False, True):
                    case = {'kind': 'multi-shared', 'slots': list(slots), 'outcomes': [bool(b) for b in bits], 'stop': stop, 'same_name': same_name}
                    if only is not None and only != case:
                        continue
                    log = []
                    # per-object scripts: the k-th call of object j is the k-th slot holding j
                    scripts = {j: [bits[i] for i in range(n) if slots[i] == j] for j in set(slots)}
                    objs = {j: CountingSub('same' if same_name else f'o{j}', j, scripts[j], log) for j in set(slots)}
                    subs = [objs[j] for j in slots]
                    seen = {}
                    outs = []
                    for i, j in enumerate(slots):
                        k = seen.get(j, 0)
                        seen[j] = k + 1
                        outs.append((bool(bits[i]), (j, k)))
                    try:
                        success, data = BoboActionMultiSequential('ms', subs, stop).execute(cev('ms'))
                    except Exception as e:     # noqa
                        res.violations.append(Violation('multi-shared', f"multi-action with slots {slots} raised {e!r}", case))
                        continue
                    exp_s, exp_d, exp_x = multi_spec(outs, stop)
                    res.add_case(case, nontrivial=True)
                    res.count('multi_shared')
                    got_x = [next(i for i in range(n) if slots[i] == j and sum(1 for q in range(i) if slots[q] == j) == k) for j, k in log]
                    if got_x != exp_x or list(data) != exp_d or success is not exp_s:
                        res.violations.append(Violation(
                            'multi-shared',
                            f"multi-action whose slots hold action objects {list(slots)} ({'same' if same_name else 'distinct'} names), "
                            f"outcomes {case['outcomes']}, stop_on_fail={stop}: returned ({success}, {list(data)}), executed slots {got_x}; "
                            f"the executed sub-actions gave ({exp_s}, {exp_d}), slots {exp_x}", case))


def multi_nested_cases(res, rng, count):
    """event-dependent outcomes and nested multi-actions: oracle only"""
    for k in range(count):
        log = []
        n = rng.randint(1, 5)
        thresholds = [rng.randint(0, 3) for _ in range(n)]
        evn = rng.randint(0, 3)
        ev = cev(f'n{evn}')
        stop = rng.random() < 0.5
        inner_at = rng.randrange(n) if rng.random() < 0.6 else None
        inner_stop = rng.random() < 0.5
        inner_bits = [rng.random() < 0.6 for _ in range(rng.randint(1, 3))]
        subs, outs = [], []
        for i in range(n):
            if i == inner_at:
                ilog = []
                isubs = [SubAction(100 + j, (lambda e, b=b, j=j: (b, ('in', j))), ilog) for j, b in enumerate(inner_bits)]
                inner = BoboActionMultiSequential('inner', isubs, inner_stop)
                s_in, d_in, _ = multi_spec([(b, ('in', j)) for j, b in enumerate(inner_bits)], inner_stop)
                subs.append(SubAction(i, inner.execute, log))
                outs.append((s_in, d_in))
            else:
                th = thresholds[i]
                subs.append(SubAction(i, (lambda e, th=th, i=i: (int(e.event_id[1:]) >= th, (i, e.event_id))), log))
                outs.append((evn >= th, (i, ev.event_id)))
        case = {'kind': 'multi-nested', 'thresholds': thresholds, 'event': evn, 'stop': stop, 'inner_at': inner_at,
                'inner_stop': inner_stop, 'inner_bits': inner_bits}
        success, data = BoboActionMultiSequential('outer', subs, stop).execute(ev)
        exp_s, exp_d, exp_x = multi_spec(outs, stop)
        res.add_case(case, nontrivial=True)
        res.count('multi_nested')
        if log != exp_x or list(data) != exp_d or success is not exp_s:
            res.violations.append(Violation('multi-nested', f"nested / event-dependent multi-action: got ({success}, {data}) executed {log}; expected ({exp_s}, {exp_d}) executed {exp_x}", case))


# --------------------------------------------------------------------------
# B. blocking handler
# --------------------------------------------------------------------------

def check_responses(res, case, submitted, responses, ordered, handler_name, same_object=True):
    """oracle: `submitted` = [(action, event)] accepted by handle(); `responses` = everything obtained."""
    by_id = {}
    for r in responses:
        by_id.setdefault(r.complex_event.event_id, []).append(r)
    for a, e in submitted:
        rs = by_id.pop(e.event_id, [])
        if len(rs) == 0:
            res.violations.append(Violation(f'response-missing:{handler_name}', f"no response for action {a.name!r} on event {e.event_id!r}", case))
            return False
        if len(rs) > 1:
            res.violations.append(Violation(f'response-duplicated:{handler_name}', f"{len(rs)} responses for action {a.name!r} on event {e.event_id!r}", case))
            return False
        r = rs[0]
        exp = a.table[e.event_id]
        if r.action_name != a.name:
            res.violations.append(Violation(f'response-wrong-action-name:{handler_name}', f"response for event {e.event_id!r} names {r.action_name!r}, the action was {a.name!r}", case))
            return False
        if (r.success, r.data) != exp or type(r.success) is not bool:
            res.violations.append(Violation(f'response-wrong-outcome:{handler_name}', f"response for ({a.name!r}, {e.event_id!r}) carries ({r.success!r}, {r.data!r}); the action returned {exp!r}", case))
            return False
        if same_object and r.complex_event is not e:
            res.violations.append(Violation(f'response-wrong-event:{handler_name}', f"response for ({a.name!r}, {e.event_id!r}) does not carry the triggering event object", case))
            return False
        if not same_object and (r.complex_event.phenomenon_name, r.complex_event.pattern_name) != (e.phenomenon_name, e.pattern_name):
            res.violations.append(Violation(f'response-wrong-event:{handler_name}', f"response for ({a.name!r}, {e.event_id!r}) carries another complex event", case))
            return False
    if by_id:
        k = sorted(by_id)[0]
        res.violations.append(Violation(f'response-unrequested:{handler_name}', f"response for event {k!r} that was never handed over (or was refused)", case))
        return False
    if ordered and [r.complex_event.event_id for r in responses] != [e.event_id for _, e in submitted]:
        res.violations.append(Violation(f'response-order:{handler_name}', "blocking handler responses are not in submission order", case))
        return False
    return True


def make_batch(rng, n, tag, cls=TableAction, nactions=None):
    """n submissions over a few action objects (one action object serves several events with different outcomes);
    data values are unique per submission."""
    na = nactions or rng.randint(1, max(1, min(4, n)))
    names = [f'A{tag}_{i}' for i in range(na)]
    owner = [rng.randrange(na) for _ in range(n)]
    tables = [dict() for _ in range(na)]
    evs = []
    for k in range(n):
        evid = f'c{tag}_{k}'
        tables[owner[k]][evid] = (rng.random() < 0.5, 1000 * (int(tag) % 1000 + 1) + k)
        evs.append(evid)
    actions = [cls(names[i], tables[i]) for i in range(na)]
    return [(actions[owner[k]], cev(evs[k])) for k in range(n)]


def wrap_some_in_multi(rng, batch, p=0.4, force_first=True):
    """some of the batch's actions handed over inside a BoboActionMultiSequential (the action twice, or with a companion
    that always succeeds): whatever the handler does with an action object -- copy, pickle, name, time -- it does with
    composite ones too.  The wrapper carries the expected outcome per event in `.table` like the plain ones."""
    wrapped = {}
    out = []
    for a, e in batch:
        if id(a) not in wrapped:
            if rng.random() < p or (force_first and not wrapped):
                stop = rng.random() < 0.5
                subs = [a, a] if rng.random() < 0.5 else [a, TableAction(a.name + '_ok', {}, {})]
                m = BoboActionMultiSequential('M' + a.name, subs, stop)
                m.table, m.delays = {}, a.delays
                wrapped[id(a)] = (m, subs, stop)
            else:
                wrapped[id(a)] = None
        w = wrapped[id(a)]
        if w is None:
            out.append((a, e))
            continue
        m, subs, stop = w
        first = a.table[e.event_id]
        if subs[1] is not a:
            subs[1].table[e.event_id] = (True, 'ok')
        second = subs[1].table[e.event_id]
        outs = [first] if (stop and not first[0]) else [first, second]
        m.table[e.event_id] = (all(o[0] for o in outs), outs)
        out.append((m, e))
    return out


def blocking_cases(res, rng, lines, impl_out, count, tag0):
    for b in range(count):
        n = rng.randint(1, 10)
        max_size = rng.choice([0, 0, 0, 1, 3])
        batch = make_batch(rng, n, tag0 + b)
        h = BoboActionHandlerBlocking(max_size)
        lines.append(f'bnew {max_size}')
        impl_out.append('ok')
        script, accepted, got = [], [], []
        todo = list(batch)
        while todo or rng.random() < 0.8:
            if todo and rng.random() < 0.6:
                a, e = todo.pop(0)
                s, d = a.table[e.event_id]
                lines.append(f'bh {a.name} {e.event_id} {int(s)} {d}')
                script.append(['handle', a.name, e.event_id])
                try:
                    ret = h.handle(a, e)
                    impl_out.append('ok')
                    accepted.append((a, e))
                except BoboActionHandlerError:
                    impl_out.append('full')
                    res.count('blocking_queue_full')
            else:
                r = h.get_handler_response()
                lines.append('bget')
                script.append(['get'])
                impl_out.append('none' if r is None else resp_str(r))
                if r is not None:
                    got.append(r)
            if len(script) > 60:
                break
        while True:
            r = h.get_handler_response()
            lines.append('bget')
            impl_out.append('none' if r is None else resp_str(r))
            if r is None:
                break
            got.append(r)
        h.close()
        case = {'kind': 'blocking', 'max_size': max_size, 'script': script}
        res.add_case(case, nontrivial=True)
        res.count('blocking_batches')
        check_responses(res, case, accepted, got, True, 'blocking')


def blocking_two_submitters(res):
    """two threads hand actions to ONE blocking handler, the second started at every lock boundary of the first
    (harness/interleave.py): the responses must come out in the order in which the actions were EXECUTED, one per action,
    each with its own outcome — i.e. what one of the two serial orders gives."""
    from harness import interleave as il

    class Sys:
        pass

    def build():
        s = Sys()
        s.h = BoboActionHandlerBlocking(0)
        s.log = []

        def mk(name, ok):
            class A(BoboAction):
                def execute(self, event, name=name, ok=ok):
                    s.log.append(name)
                    return ok, name + '-data'
            return A(name)
        s.a, s.b = mk('A', True), mk('B', False)
        return s

    def obs(s):
        out = []
        while True:
            r = s.h.get_handler_response()
            if r is None:
                break
            out.append((r.action_name, r.complex_event.event_id, r.success, r.data))
        return (tuple(s.log), tuple(out))
    v, st = il.explore(build, lambda s: s.h.handle(s.a, cev('ea')), lambda s: s.h.handle(s.b, cev('eb')), obs,
                       locks_of=lambda s: [s.h], max_runs=300)
    res.add_case({'kind': 'blocking-two-submitters', 'points': st['points']}, nontrivial=True)
    res.count('blocking_interleavings', st['runs'])
    if v is not None:
        res.violations.append(Violation(
            'blocking-order', f"two threads submitting to one blocking handler, the second started at scheduling point {v['k']} of the "
            f"first{(' and stopped at its own point %d' % v['k2']) if v.get('k2') else ''}: executions and responses {v['got']}; a "
            f"serial order gives one of {v['allowed']}", {'kind': 'blocking-two-submitters', 'k': v['k'], 'k2': v.get('k2')}))


# --------------------------------------------------------------------------
# C. multithreading handler
# --------------------------------------------------------------------------

def threads_gated(res, rng, lines, impl_out, count, tag0):
    """completion order scripted by the harness; compared with the model's pool under the same schedule"""
    for b in range(count):
        w = rng.randint(1, 8)
        n = rng.randint(1, 12)
        max_size = rng.choice([0, 0, 0, 2])
        batch = make_batch(rng, n, tag0 + b, cls=GatedAction)
        h = BoboActionHandlerMultithreading(threads=w, max_size=max_size)
        lines.append(f'pnew {w} {max_size}')
        impl_out.append('ok')
        accepted, got, released, script = [], [], set(), []
        todo = list(batch)
        ok = True

        def started_unreleased():
            return [(a, e) for a, e in accepted if a.started[e.event_id].is_set() and e.event_id not in released]

        def stat():
            outstanding = [x for x in accepted if x[1].event_id not in released]
            exp_running = min(w, len(outstanding))
            wait_until(lambda: len(started_unreleased()) >= exp_running, 5.0)
            run_now = len(started_unreleased())
            return f'{len(outstanding) - run_now} {run_now} {h.size()}'
        try:
            steps = 0
            while (todo or len(released) < len(accepted)) and steps < 200:
                steps += 1
                r = rng.random()
                running = started_unreleased()
                if todo and (r < 0.5 or not running):
                    a, e = todo.pop(0)
                    s, d = a.table[e.event_id]
                    lines.append(f'psub {a.name} {e.event_id} {int(s)} {d}')
                    script.append(['submit', a.name, e.event_id])
                    try:
                        h.handle(a, e)
                        impl_out.append('ok')
                        accepted.append((a, e))
                    except BoboActionHandlerError:
                        impl_out.append('full')
                        res.count('threads_queue_full')
                elif running and r < 0.85:
                    a, e = rng.choice(running)
                    size0 = h.size()
                    a.gate[e.event_id].set()
                    released.add(e.event_id)
                    lines.append(f'pfin {e.event_id}')
                    script.append(['finish', e.event_id])
                    if wait_until(lambda: h.size() == size0 + 1, 3.0):
                        impl_out.append('ok')
                    else:
                        impl_out.append('no-response')
                        ok = False
                        break
                else:
                    rr = h.get_handler_response()
                    lines.append('pget')
                    script.append(['get'])
                    impl_out.append('none' if rr is None else resp_str(rr))
                    if rr is not None:
                        got.append(rr)
                lines.append('pstat')
                impl_out.append(stat())
            while True:
                rr = h.get_handler_response()
                lines.append('pget')
                impl_out.append('none' if rr is None else resp_str(rr))
                if rr is None:
                    break
                got.append(rr)
        finally:
            for a, e in batch:
                a.gate[e.event_id].set()
            h.close()
            h.join()
        case = {'kind': 'threads-gated', 'threads': w, 'max_size': max_size, 'script': script}
        res.add_case(case, nontrivial=True)
        res.count('threads_gated_batches')
        res.count(f'threads_w{w}')
        if ok:
            check_responses(res, case, accepted, got, False, 'multithreading')
        else:
            res.violations.append(Violation('response-missing:multithreading', 'a finished action produced no response within 3 s', case))


class MeetSub(BoboAction):
    """sub-action of a multi-action that returns only when `parties` executions have reached it (or after a timeout):
    forces executions of the SAME multi-action object to overlap between two of its sub-actions."""

    def __init__(self, name, parties):
        super().__init__(name)
        self.parties = parties
        self.lock = threading.Lock()
        self.arrived = 0
        self.all_in = threading.Event()

    def execute(self, event):
        with self.lock:
            self.arrived += 1
            if self.arrived >= self.parties:
                self.all_in.set()
        self.all_in.wait(3.0)
        return True, ('meet', event.event_id)


class EchoSub(BoboAction):
    def __init__(self, name, fail_for=()):
        super().__init__(name)
        self.fail_for = set(fail_for)

    def execute(self, event):
        return (event.event_id not in self.fail_for), (self.name, event.event_id)


def multi_overlap(res, rng, count, tag0):
    """one multi-action object (the action of one phenomenon) executed for several complex events at the same time on
    the thread-pool handler, the executions made to overlap between two sub-actions: every response carries the outcome
    list of ITS OWN execution (own event, own sub-action outcomes, in order), as the sequential semantics give it."""
    for b in range(count):
        k = rng.choice((2, 2, 3))
        stop = rng.random() < 0.5
        evs = [cev(f'o{tag0 + b}_{i}') for i in range(k)]
        fail_for = {e.event_id for e in evs if rng.random() < 0.3}
        subs = [EchoSub('first'), MeetSub('meet', k), EchoSub('mid', fail_for), EchoSub('last')]
        multi = BoboActionMultiSequential('mo', subs, stop)
        h = BoboActionHandlerMultithreading(threads=k)
        got = []
        try:
            for e in evs:
                h.handle(multi, e)
            wait_until(lambda: h.size() >= k, 8.0)
            while True:
                rr = h.get_handler_response()
                if rr is None:
                    break
                got.append(rr)
        finally:
            h.close()
            h.join()
        case = {'kind': 'multi-overlap', 'events': [e.event_id for e in evs], 'fail_for': sorted(fail_for), 'stop_on_fail': stop}
        res.add_case(case, nontrivial=True)
        res.count('multi_overlap_batches')
        if len(got) != k:
            res.violations.append(Violation('response-missing:multi-overlap', f"{k} overlapping executions of one multi-action, {len(got)} responses", case))
            continue
        for rr in got:
            eid = rr.complex_event.event_id
            outs = [(True, ('first', eid)), (True, ('meet', eid)), ((eid not in fail_for), ('mid', eid)), (True, ('last', eid))]
            exp_ok, exp_data, _ = multi_spec(outs, stop)
            if rr.success != exp_ok or list(rr.data) != list(exp_data):
                res.violations.append(Violation(
                    'response-mismatch:multi-overlap',
                    f"response for complex event {eid} of multi-action 'mo' (stop_on_fail={stop}) is ({rr.success}, {list(rr.data)}); "
                    f"its own execution gives ({exp_ok}, {exp_data})", case))
                break


def pool_free_running(res, rng, make_handler, name, workers, n, tag, same_object, timeout=30.0):
    """sleeping actions, real scheduling: oracle only"""
    batch = make_batch(rng, n, tag)
    for a, e in batch:
        a.delays[e.event_id] = rng.choice([0, 0, 0.001, 0.003, 0.006])
    batch = wrap_some_in_multi(rng, batch)
    h = make_handler(workers)
    got = []
    try:
        for a, e in batch:
            h.handle(a, e)
            if rng.random() < 0.3:
                r = h.get_handler_response()
                if r is not None:
                    got.append(r)
        t0 = time.time()
        while len(got) < len(batch) and time.time() - t0 < timeout:
            r = h.get_handler_response()
            if r is None:
                time.sleep(0.001)
            else:
                got.append(r)
        time.sleep(0.01)
        while True:   # anything beyond one per request?
            r = h.get_handler_response()
            if r is None:
                break
            got.append(r)
    finally:
        h.close()
        h.join()
        m = getattr(h, '_manager', None)
        if m is not None:
            m.shutdown()
    case = {'kind': name, 'workers': workers, 'n': n,
            'batch': [[a.name, e.event_id, list(a.table[e.event_id]), a.delays[e.event_id]] for a, e in batch]}
    res.add_case(case, nontrivial=True)
    res.count(f'{name}_batches')
    res.count(f'{name}_w{workers}')
    check_responses(res, case, batch, got, False, name, same_object=same_object)


# --------------------------------------------------------------------------
# D. forwarder
# --------------------------------------------------------------------------

class IdGen(BoboGenEventID):
    def __init__(self):
        self.n = 0

    def generate(self):
        self.n += 1
        return f'id{self.n - 1}'


class TsGen(BoboGenTimestamp):
    def __init__(self):
        self.n = 0

    def generate(self):
        self.n += 1
        return 1000 + self.n - 1


class FRec(BoboForwarderSubscriber):
    def __init__(self):
        self.seen = []

    def on_forwarder_update(self, event):
        self.seen.append(event)


def forwarder_cases(res, rng, lines, impl_out, count, tag0):
    for b in range(count):
        nph = rng.randint(1, 4)
        phs = [f'ph{i}' for i in range(nph)]
        has_action = [rng.random() < 0.75 for _ in range(nph)]
        n = rng.randint(1, 10)
        evs = []
        tables = [dict() for _ in range(nph)]
        for k in range(n):
            pi = rng.randrange(nph + 1)        # nph = a phenomenon the forwarder does not know
            evid = f'f{tag0 + b}_{k}'
            ph = phs[pi] if pi < nph else 'unknown'
            outcome = (rng.random() < 0.5, 5000 + 100 * b + k)
            if pi < nph:
                tables[pi][evid] = outcome
            evs.append((cev(evid, ph, f'pat{rng.randint(0, 2)}'), outcome))
        actions = [TableAction(f'Act{i}', tables[i]) if has_action[i] else None for i in range(nph)]
        phen = [BoboPhenomenon(phs[i], [], action=actions[i]) for i in range(nph)]
        rec = FRec()
        f = BoboForwarder(phen, BoboActionHandlerBlocking(), IdGen(), TsGen())
        f.subscribe(rec)
        lines.append('fnew')
        impl_out.append('ok')
        for i in range(nph):
            lines.append(f"fph {phs[i]} {actions[i].name if actions[i] is not None else '-'}")
            impl_out.append('ok')
        todo = list(evs)
        script = []
        expected = []
        steps = 0
        try:
          while (todo or steps < 3) and steps < 60:
              if todo and rng.random() < 0.5:
                  e, (s, d) = todo.pop(0)
                  f.on_producer_update(e, True)
                  lines.append(f'fev {e.event_id} {e.phenomenon_name} {e.pattern_name} {int(s)} {d}')
                  impl_out.append('ok')
                  script.append(['event', e.event_id, e.phenomenon_name])
                  if e.phenomenon_name in phs and actions[phs.index(e.phenomenon_name)] is not None:
                      expected.append((actions[phs.index(e.phenomenon_name)], e))
              else:
                  steps += 1 if not todo else 0
                  n0 = len(rec.seen)
                  ret = f.update()
                  new = rec.seen[n0:]
                  lines.append('fupd')
                  script.append(['update'])
                  if not new:
                      pub = '-'
                  elif len(new) == 1:
                      x = new[0]
                      pub = f"{x.event_id} {x.timestamp} {x.data} {x.phenomenon_name} {x.pattern_name} {x.action_name} {1 if x.success else 0}"
                  else:
                      pub = 'more-than-one'
                  impl_out.append(f"{1 if ret else 0} {pub}")
          for _ in range(len(evs) + 2):   # drain
              n0 = len(rec.seen)
              ret = f.update()
              new = rec.seen[n0:]
              lines.append('fupd')
              x = new[0] if new else None
              impl_out.append(f"{1 if ret else 0} " + ('-' if x is None else f"{x.event_id} {x.timestamp} {x.data} {x.phenomenon_name} {x.pattern_name} {x.action_name} {1 if x.success else 0}"))
        except Exception as ex:   # noqa  an exception escaping the forwarder / handler / action is a finding
            case = {'kind': 'forwarder', 'phenomena': [[phs[i], has_action[i]] for i in range(nph)], 'script': script}
            res.add_case(case, nontrivial=True)
            res.violations.append(Violation('forwarder-raised', f"forwarder.update() raised {ex.__class__.__name__}: {ex} "
                                            f"(an action was executed with a complex event it was not triggered by?)", case))
            impl_out.append('raised')
            lines.append('fupd')
            continue
        case = {'kind': 'forwarder', 'phenomena': [[phs[i], has_action[i]] for i in range(nph)], 'script': script}
        res.add_case(case, nontrivial=True)
        res.count('forwarder_batches')
        # oracle: one action event per (action, event) handed to the handler, in order, with its fields
        seen = rec.seen
        if len(seen) != len(expected):
            res.violations.append(Violation('action-event-count', f"{len(expected)} actions were triggered, {len(seen)} action events were published", case))
            continue
        for i, ((a, e), x) in enumerate(zip(expected, seen)):
            exp = a.table[e.event_id]
            if type(x) is not BoboEventAction or (x.action_name, x.success, x.data, x.phenomenon_name, x.pattern_name) != \
                    (a.name, exp[0], exp[1], e.phenomenon_name, e.pattern_name) or x.event_id != f'id{i}' or x.timestamp != 1000 + i:
                res.violations.append(Violation('action-event-fields', f"action event #{i} is ({x.action_name!r}, {x.success!r}, {x.data!r}, {x.phenomenon_name!r}, {x.pattern_name!r}); action {a.name!r} returned {exp!r} for event {e.event_id!r} of {e.phenomenon_name!r}/{e.pattern_name!r}", case))
                break


def forwarder_pool_cases(res, rng, count, tag0):
    """the forwarder over the thread-pool handler with SEVERAL responses ready before one `update()`: after draining,
    exactly one action event per executed action, each with its own action name / outcome / complex event."""
    for b in range(count):
        n = rng.randint(2, 6)
        table = {}
        evs = []
        for k in range(n):
            evid = f'fp{tag0 + b}_{k}'
            table[evid] = (rng.random() < 0.6, 8000 + 10 * b + k)
            evs.append(cev(evid, 'php', f'pat{k % 2}'))
        act = TableAction('ActP', table)
        rec = FRec()
        h = BoboActionHandlerMultithreading(threads=rng.randint(1, 3))
        f = BoboForwarder([BoboPhenomenon('php', [], action=act)], h, IdGen(), TsGen())
        f.subscribe(rec)
        try:
            for e in evs:
                f.on_producer_update(e, True)
            for _ in range(n):                       # every complex event is handed to the handler
                f.update()
            wait_until(lambda: h.size() >= n - len(rec.seen), 5.0)      # all remaining responses are ready at once
            for _ in range(3 * n + 3):
                f.update()
        finally:
            h.close()
            h.join()
        case = {'kind': 'forwarder-pool', 'events': [e.event_id for e in evs], 'table': {k: list(v) for k, v in table.items()}}
        res.add_case(case, nontrivial=True)
        res.count('forwarder_pool_batches')
        got = sorted(((x.data, x.success, x.action_name, x.pattern_name) for x in rec.seen), key=repr)
        exp = sorted(((table[e.event_id][1], table[e.event_id][0], 'ActP', e.pattern_name) for e in evs), key=repr)
        if got != exp:
            res.violations.append(Violation(
                'action-event-count' if len(got) != len(exp) else 'action-event-fields',
                f"forwarder over the thread-pool handler, {n} actions executed with several responses ready before one update(): "
                f"{len(got)} action events published {got[:4]}, expected {len(exp)} {exp[:4]}", case))


# --------------------------------------------------------------------------

def run(ctx: Ctx) -> Result:
    res = Result()
    rng = ctx.rng
    lines, impl_out = [], []
    T = ctx.thorough
    only = ctx.replay['replay'] if ctx.replay is not None else None
    if only is not None and only.get('kind') == 'multi':
        multi_cases(res, lines, impl_out, 6, only)
    elif only is not None and only.get('kind') == 'multi-grown':
        multi_grown_cases(res)
    elif only is not None and only.get('kind') == 'multi-shared':
        multi_shared_cases(res, rng, None, only)
    elif only is not None and only.get('kind') == 'blocking-two-submitters':
        blocking_two_submitters(res)
    else:
        # process pools first: no harness threads exist yet when they fork
        for procs in ([1, 2, 3, 4, 8] if T else [1, 2]):
            for k in range(4 if T else 2):
                pool_free_running(res, rng, lambda p: BoboActionHandlerMultiprocessing(processes=p), 'multiprocessing',
                                  procs, rng.randint(1, 10 if T else 6), 900 + 10 * procs + k, same_object=False)
        multi_cases(res, lines, impl_out, 6)
        multi_grown_cases(res)
        multi_nested_cases(res, rng, 20000 if T else 600)
        multi_shared_cases(res, rng, None if T else 60)
        blocking_two_submitters(res)
        blocking_cases(res, rng, lines, impl_out, 6000 if T else 300, 100)
        forwarder_cases(res, rng, lines, impl_out, 5000 if T else 200, 500)
        threads_gated(res, rng, lines, impl_out, 2500 if T else 100, 2000)
        multi_overlap(res, rng, 200 if T else 12, 7000)
        forwarder_pool_cases(res, rng, 300 if T else 20, 7500)
        for w in range(1, 9):
            for k in range(30 if T else 4):
                pool_free_running(res, rng, lambda p: BoboActionHandlerMultithreading(threads=p), 'multithreading',
                                  w, rng.randint(1, 24), 3000 + 10 * w + k, same_object=True)
    if ctx.model_available():
        model_out = run_model('actions', lines)
        res.traces_validated = res.distribution.get('multi_stop', 0) + res.distribution.get('multi_nostop', 0) + \
            res.distribution.get('blocking_batches', 0) + res.distribution.get('forwarder_batches', 0) + \
            res.distribution.get('threads_gated_batches', 0)
        for k, (a, b) in enumerate(zip(model_out, impl_out)):
            if a != b:
                res.disagreements.append({'op_index': k, 'op': lines[k], 'context': lines[max(0, k - 6):k], 'model': a, 'impl': b})
                if len(res.disagreements) > 5:
                    break
    else:
        res.notes.append('model driver unavailable: correspondence not run')
        res.disagreements.append({'correspondence': 'actions', 'error': 'model driver did not build'})
    res.exhaustive = True
    res.notes.append('multi-action outcome vectors: exhaustive for 1..6 sub-actions x stop_on_fail on/off (252 cases)')
    return res


def search(ctx: Ctx) -> Result:
    """failing-input search on the implementation alone (oracle only): longer batches on every handler."""
    res = Result()
    rng = ctx.rng
    lines, impl_out = [], []
    multi_cases(res, lines, impl_out, 8)
    multi_nested_cases(res, rng, 2000)
    multi_shared_cases(res, rng, None)
    blocking_cases(res, rng, lines, impl_out, 300, 100)
    forwarder_cases(res, rng, lines, impl_out, 200, 500)
    if not res.violations:
        threads_gated(res, rng, lines, impl_out, 40, 2000)
        multi_overlap(res, rng, 30, 7000)
        forwarder_pool_cases(res, rng, 40, 7500)
        for w in (1, 2, 4, 8):
            pool_free_running(res, rng, lambda p: BoboActionHandlerMultithreading(threads=p), 'multithreading', w, 30, 3000 + w, True)
        pool_free_running(res, rng, lambda p: BoboActionHandlerMultiprocessing(processes=p), 'multiprocessing', 2, 8, 990, False)
    return res


SPEC = PropSpec(
    prop='C20',
    translators=['actions'],
    run=run,
    search=search,
    rule='multi-action: every outcome vector of 1..6 sub-actions x stop_on_fail on/off (exhaustive, 252 cases) + 600/20000 seeded '
         'nested / event-dependent multi-actions; blocking handler: 300/6000 random handle/get scripts of 1..10 actions (queue bound 0,1,3); '
         'forwarder over the blocking handler: 200/5000 scripts of 1..10 complex events over 1..4 phenomena (with / without action, unknown); '
         'one multi-action object executed for 2-3 complex events at once with the executions forced to overlap between two sub-actions (12/200 batches); multithreading handler: 100/2500 gated batches of 1..12 actions on 1..8 threads with a scripted completion order, plus 32/240 '
         'free-running batches of 1..24 sleeping actions on 1..8 threads; multiprocessing handler: batches of 1..6 (1..10) pickled actions '
         'on 1..2 (1..4, 8) processes. One action object serves several events with different outcomes; data values are unique per '
         'submission; responses are matched back by complex-event id. A multi case is non-trivial when some sub-action fails; all others are.',
    trusted_base=['the harness gates (threading.Event) decide the completion order of the real thread pool; process-pool scheduling and '
                  'pickling are exercised with the oracle only'],
    assumptions=['an action\'s execute() returns a (bool, data) pair and does not raise (a raising action: the blocking handler '
                 'propagates the exception, the pools log it and produce no response)',
                 'the response queue is unbounded (max_size = 0) for the "exactly one response" claim; with a bound, handle() raises '
                 '"queue is full" — the pools refuse before executing, the blocking handler after the action has run (modelled; see '
                 'Demo.blocking_overflow_drops)',
                 'queue.Queue / Manager().Queue are FIFO; the pool runs each submitted task exactly once'],
    model_covers='BoboActionMultiSequential.execute (loop generated from the source and proved equal to the model), the '
                 'BoboHandlerResponse built in _execute_action / _pool_execute_action and the BoboEventAction built in '
                 '_update_responses (generated, proved equal), blocking handler FIFO, abstract worker pool with arbitrary completion '
                 'order, forwarder update',
)
