"""
C03 — Replication is transparent and survivors take over (failover equivalence).

A cluster of real instances whose input stream is split among them, with all
replication messages delivered between consecutive inputs (`sync`), against ONE
real engine fed the whole stream.  Oracle: after every input, every live
instance has reported exactly the complex events (pattern, history of events
compared by kind and data) the single engine has reported; each completed
run's action ran on exactly one instance.  Crash: any proper subset of the
instances is lost at any stream position; the survivors, fed the remainder,
must still report exactly the single engine's complex events.
Per-component D-tie: every decider call replayed on the Lean decider model.

Known finding F2 (open): complex/action events are fed back on EVERY instance, so
a pattern whose first block accepts a non-simple event starts one run per
instance where a single engine starts one.  Scenarios in which the single
engine itself starts a run from a fed-back event are classified
`feedback-duplication`.
"""
from collections import Counter

from harness.core import PropSpec, Result, Ctx, Violation
from harness import gen_patterns as gp
from harness import gen_cluster as gc
from harness.cluster import Cluster, hist_key
from harness import predlang as pl
from harness.cluster_suite import Runner, model_check_traces

P = gp.pattern
S = gc.S


def inert_patterns(rng):
    """patterns whose predicates accept simple events only (loops, optional, negated, strict, singleton, history-dependent)."""
    pool = ['eq:0', 'eq:1', 'eq:2', 'eq:3', 'ne:0', 'lt:2', 'gtmax', 'sizelt:4', 'grplt:g1:2', 'any']
    phens = []
    shared_names = rng.random() < 0.4
    for i in range(rng.choice((1, 2, 2) if shared_names else (1, 1, 2))):
        pats = []
        for j in range(rng.choice((1, 1, 2))):
            k = rng.randint(2, 5)
            # relaxed, non-negated blocks only: a strict or negated block reacts to ANY event, hence to the fed-back
            # complex/action events (one copy per instance) — that is finding F2, exercised by `reactive_patterns`
            flags = ['0000'] + [rng.choice(['0000', '0001', '0100']) for _ in range(k - 2)] + ['0000']
            preds = [[S(rng.choice(pool)) for _ in range(rng.choice((1, 1, 2)))] for _ in range(k)]
            groups = [rng.choice(['g1', 'g2', f'g{x}']) for x in range(k)]
            halt = [S(rng.choice(['eq:9', 'gt:3']))] if rng.random() < 0.3 else []
            # pattern names may repeat ACROSS phenomena (a pattern is identified by phenomenon + name)
            pname = f'p{j}' if shared_names else f'p{i}{j}'
            pats.append(P(pname, flags, preds, groups, (), halt, rng.random() < 0.25))
        phens.append((f'ph{i}', pats))
    # names that read the same once (phenomenon, pattern) are joined with a separator: ('a.b', 'c') and ('a', 'b.c')
    if len(phens) == 2 and rng.random() < 0.5:
        sep = rng.choice('._-')
        (n0, p0), (n1, p1) = phens
        first, second = ('a' + sep + 'b', 'c'), ('a', 'b' + sep + 'c')
        if rng.random() < 0.5:
            first, second = second, first
        p0[0] = dict(p0[0], name=first[1])
        p1[0] = dict(p1[0], name=second[1])
        phens = [(first[0], p0[:1] + [q for q in p0[1:] if q['name'] != first[1]]),
                 (second[0], p1[:1] + [q for q in p1[1:] if q['name'] != second[1]])]
    return phens


def reactive_patterns(rng):
    """patterns that react to fed-back events (exhibit F2): hierarchical (a pattern over the complex events of
    another), or with strict / negated blocks, which react to any event."""
    if rng.random() < 0.4:
        return [('ph', [P('p', ['0000', '0000'], [[S('eq:0')], [S('eq:1')]])]),
                ('qh', [P('q', ['0000', '0000'], [['kind:c'], [S('eq:2')]])])]
    k = rng.randint(3, 4)
    flags = ['0000'] + [rng.choice(['1000', '0010', '1010', '1100']) for _ in range(k - 2)] + [rng.choice(gp.PLAIN_FLAGS)]
    return [('ph', [P('p', flags, [[S(rng.choice(['eq:0', 'eq:1', 'eq:2', 'lt:2']))] for _ in range(k)])])]


LOOPY_INERT = [('ph', [P('p', ['0000', '0100', '0100', '0000'], [[S('eq:0')], [S('eq:1')], [S('eq:2')], [S('eq:3')]])])]


def scenario(rng, reactive=False, crash=True):
    names = ['A', 'B', 'C'][:rng.choice((2, 2, 3))]
    phens = reactive_patterns(rng) if reactive else inert_patterns(rng)
    n = rng.randint(3, 12)
    stream = [rng.choice([0, 0, 1, 1, 2, 2, 3, 9, 4]) for _ in range(n)]
    assign = [rng.choice(names) for _ in range(n)]
    crash_at, crashed = None, []
    if crash and rng.random() < 0.6:
        crash_at = rng.randint(0, n)
        crashed = rng.sample(names, rng.randint(1, len(names) - 1))
    return {'names': names, 'phens': phens, 'cache': rng.choice((0, 1000)), 'stream': stream, 'assign': assign,
            'crash_at': crash_at, 'crashed': crashed, 'made': rng.choice((None, None, 'dup', 'uniq', 'frac')), 'boxed': rng.random() < 0.3}


def hist_key_ts(hist_text: str) -> str:
    """history compared by (group, timestamp, kind, data)"""
    out = []
    for g in hist_text.split(';'):
        if not g:
            continue
        name, evs = g.split('=')
        out.append(name + '=' + '.'.join(':'.join(e.split(':')[1:]) for e in evs.split('.')))
    return ';'.join(out)


def run_one(sc):
    """returns (violation or None, runner-like holder for traces, feedback_sensitive)."""
    c = Cluster(sc['names'], sc['phens'], cache=sc['cache'], via_setup=sc.get('via_setup', False))
    s = Cluster(['S'], sc['phens'], cache=sc['cache'], via_setup=sc.get('via_setup', False))
    single = s.insts['S']
    alive = list(sc['names'])
    holder = type('H', (), {})()
    holder.c, holder.sc = c, sc
    bad = None
    for k, d in enumerate(sc['stream']):
        if sc['crash_at'] == k:
            for n in sc['crashed']:
                c.crash(n)
                alive.remove(n)
        tgt = sc['assign'][k]
        if tgt not in alive:
            tgt = alive[k % len(alive)]
        try:
            # `made`: the data arrive as ready-made events (the receiver passes those through unchanged) whose identifiers
            # and timestamps the SOURCES chose: identifiers unique per source only (so two different events may share
            # one), clocks out of step.  Cluster and single engine get equal events (distinct objects).
            if sc.get('made'):
                from bobocep.cep.event import BoboEventSimple
                # ('frac': the sources stamp in fractions of a second -- time.time() -- which the engine carries as given)
                mk = lambda: BoboEventSimple(event_id='x%d' % (k % 3 if sc['made'] == 'dup' else k),     # noqa
                                             timestamp=100 + (k * 7919) % 7 + (0.25 * (k % 4 + 1) if sc['made'] == 'frac' else 0), data=d)
                c.input(tgt, mk())
                c.sync()
                single.input(mk())
            elif sc.get('boxed') and k % 3 != 1:
                # the source sends records (reading first): cluster and single engine get equal records, distinct objects
                c.input(tgt, pl.box(d, k))
                c.sync()
                single.input(pl.box(d, k))
            else:
                c.input(tgt, d)
                c.sync()
                single.input(d)
        except Exception as e:
            bad = ('component-raised', f"{e.__class__.__name__}: {e}", k)
            break
        # survivors hold exactly the single engine's partially completed runs (pattern, position, history content)
        # (where the SOURCES stamped the events, cluster and single engine were given equal timestamps: compared too)
        hkey = hist_key_ts if sc.get('made') else hist_key

        def partial(inst):
            out = Counter()
            for r in inst.decider.all_runs():
                f = pl.show_rec(r.serialize()).split('|')        # id|phen|pat|idx|hist
                out[(f[1], f[2], f[3], hkey(f[4]))] += 1
            return out
        pref = partial(single)
        for n in alive:
            pgot = partial(c.insts[n])
            if pgot != pref:
                bad = ('failover-divergence',
                       f"after input {k} ({d} at {tgt}) instance {n} holds partial runs {sorted((pgot - pref).elements())[:2] or '-'} the single "
                       f"engine does not hold, and misses {sorted((pref - pgot).elements())[:2] or '-'}", k)
                break
        if bad:
            break
        ref = Counter((e[1], hkey(e[2])) for e in single.cerec.events)
        for n in alive:
            got = Counter((e[1], hkey(e[2])) for e in c.insts[n].cerec.events)
            if got != ref:
                extra = list((got - ref).elements())[:2]
                miss = list((ref - got).elements())[:2]
                bad = ('failover-divergence',
                       f"after input {k} ({d} at {tgt}) instance {n} reported complex events {extra or '-'} the single engine did not, "
                       f"and misses {miss or '-'}", k)
                break
        if bad:
            break
    if bad is None:
        # the action of each completed run is executed by exactly one instance (survivors + instances lost later)
        # (survivors and instances lost later all count; two different runs may have equal histories, so compare with
        #  the single engine's multiset rather than demanding multiplicity one)
        ref = Counter((e[1], hist_key(e[2])) for e in single.exec_log)
        got = Counter()
        for n in sc['names']:
            got += Counter((e[1], hist_key(e[2])) for e in c.insts[n].exec_log)
        if got != ref:
            bad = ('action-not-exactly-once',
                   f"action executions over all instances {dict(got - ref) or ''} more / {dict(ref - got) or ''} fewer than one per completed run",
                   len(sc['stream']))
    # feedback-sensitive: the single engine started a run from a fed-back (non-simple) event
    # (FeedbackInert on this stream: no complex/action event changed any run of the single engine)
    fb = any(op.split()[3] in ('c', 'a') and out.startswith('1') for (op, out) in single.trace if op.startswith('ev '))
    return bad, holder, fb


def run(ctx: Ctx) -> Result:
    res = Result()
    holders = []
    if ctx.replay is not None:
        scs = [ctx.replay['replay']]
    else:
        n = 2500 if ctx.thorough else 260
        # corpus first: the F2 witness (hierarchical pattern, 2 instances) and the F1 witness (loop progress, survivor completes)
        hier = [('ph', [P('p', ['0000', '0000'], [[S('eq:0')], [S('eq:1')]])]), ('qh', [P('q', ['0000', '0000'], [['kind:c'], [S('eq:2')]])])]
        scs = [{'names': ['A', 'B'], 'phens': hier, 'cache': 1000, 'stream': [0, 1, 2], 'assign': ['A', 'A', 'A'], 'crash_at': None, 'crashed': []},
               {'names': ['A', 'B'], 'phens': LOOPY_INERT, 'cache': 1000, 'stream': [0, 1, 1, 2, 3], 'assign': ['A', 'A', 'A', 'A', 'B'],
                'crash_at': 4, 'crashed': ['A']}]
        scs += [scenario(ctx.rng) for _ in range(n)] + [scenario(ctx.rng, reactive=True, crash=False) for _ in range(12)]
        # exhaustive splits and crash points for short streams on the loop/halt pattern set
        import itertools
        streams = [[0, 1, 1, 3], [0, 2, 3], [0, 1, 9], [0, 0, 2, 3]] if not ctx.thorough else \
            [list(s) for s in itertools.product([0, 1, 2, 3, 9], repeat=4) if s[0] == 0][:60]
        for st in streams:
            for assign in itertools.product('AB', repeat=len(st)):
                for crash_at in [None] + list(range(len(st) + 1)):
                    for crashed in ([[]] if crash_at is None else [['A'], ['B']]):
                        scs.append({'names': ['A', 'B'], 'phens': LOOPY_INERT if st[1] == 1 else gc.CONFLICT, 'cache': 1000,
                                    'stream': st, 'assign': list(assign), 'crash_at': crash_at, 'crashed': crashed,
                                    'made': (None, 'dup', None, 'uniq', None, 'frac')[(len(scs)) % 6], 'boxed': len(scs) % 8 == 2})
        # three instances without finished-run memory: one instance processes the whole stream, another one is lost at
        # every point (its backlog grows on the processing instance while the third one keeps being served)
        for proc in 'ABC':
            for lost in 'ABC':
                if lost == proc:
                    continue
                for crash_at in (0, 1, 2, 3):
                    scs.append({'names': ['A', 'B', 'C'], 'phens': gc.CONFLICT, 'cache': 0, 'stream': [0, 1, 2, 3],
                                'assign': [proc] * 4, 'crash_at': crash_at, 'crashed': [lost]})
        # engines and distributed components exactly as BoboSetupSimple / BoboSetupSimpleDistributed build them (their own
        # identifier generators, validator, default memory and subscriptions): every split of short streams, one crash
        for st in ([0, 0, 1, 2, 3], [0, 1, 1, 2, 3]):
            for assign in itertools.product('AB', repeat=len(st)):
                for crash_at, crashed in ((None, []), (2, ['A']), (3, ['B'])):
                    scs.append({'names': ['A', 'B'], 'phens': gc.CONFLICT, 'cache': 0, 'stream': st, 'assign': list(assign),
                                'crash_at': crash_at, 'crashed': crashed, 'via_setup': True})
    for sc in scs:
        bad, holder, fb = run_one(sc)
        if not sc.get('via_setup') and sc.get('made') != 'frac':        # (setup-built engines draw time-based identifiers, the model's clock counts whole seconds: oracle only, no model replay)
            holders.append(holder)
        res.add_case({k: sc[k] for k in ('names', 'stream', 'assign', 'crash_at', 'crashed')}, nontrivial=True)
        res.count('crash_scenarios' if sc['crash_at'] is not None else 'no_crash_scenarios')
        res.count('feedback_sensitive' if fb else 'feedback_inert')
        res.count(f"instances_{len(sc['names'])}")
        if bad:
            sig, what, step = bad
            # (deterministic scenario: what it shows, it shows again -- see c04.run_scenarios)
            bad2, _h2, _fb2 = run_one(sc)
            if bad2 is None or bad2[0] != sig:
                res.notes.append(f"NOT REPRODUCED (no violation reported): {sig}: {what[:200]} -- the same scenario run again shows nothing")
                res.count('observations_not_reproduced')
                continue
            if fb and sig in ('failover-divergence', 'action-not-exactly-once'):
                sig = 'feedback-duplication'
            res.violations.append(Violation(sig, what, {**sc, 'failing_step': step}))
    model_check_traces(ctx, holders, res)
    return res


def search(ctx: Ctx) -> Result:
    c2 = Ctx(ctx.prop, 'thorough', ctx.seed, ctx.rng, lean=None)
    r = run(c2)
    r.disagreements = []
    return r


SPEC = PropSpec(
    prop='C03', translators=['deciderfrag'], run=run, search=search,
    rule='seeded (pattern set, stream of 3-12 data, assignment of stream positions to 2-3 instances, crash point, crashed proper subset, '
         'finished-run memory 0/1000) with loop/optional/negated/strict/singleton/history-dependent patterns over simple events, plus '
         'all splits and all crash points of short streams on the loop and halt pattern sets for 2 instances, plus a few hierarchical '
         '(complex-event-reactive) scenarios that exhibit the recorded finding F2',
    trusted_base=['harness/cluster.py in-memory network double'],
    assumptions=['replication messages are delivered between consecutive inputs (the property\'s premise)'],
    model_covers='decider local/remote steps on every instance; producer/forwarder local-only dispatch observed on the real classes',
)
