"""
C06 — Link failures lose nothing: backlog or full resync restores consistency.

Fault sequences over {input, outgoing pass, deliver, link down/up, send fails
after delivery, clock advance 1/5/10/31/61 s} on 2-3 real instances (default and
short period configurations), followed by healing every link and letting the
protocol run.  Oracles on the real code: after healing all live instances hold
the same runs at the same positions (nothing stale, missing or resurrected); a
successful send after an outage of at least the resync period is a RESYNC.
Per-component D-tie: decider calls replayed on the Lean decider model (the
outgoing loop itself is tied by C15's correspondence).
"""
from harness.core import PropSpec, Result, Ctx
from harness import gen_cluster as gc
from harness.props.c04 import run_scenarios

SIGS = {'not-converged', 'completion-not-reported-everywhere', 'incremental-after-outage', 'no-quiescence', 'finished-run-resurrected'}


def outage_family():
    warm = ['in A 0', 'pass A', 'pass A', 'del A B', 'del A B', 'pass B', 'del B A', 'del B A']
    for gap in (5, 29, 31, 59, 60, 61, 120):
        for work in (['in A 1'], ['in A 1', 'in A 2'], []):
            ops = list(warm) + ['down A B'] + work + ['pass A', f'tick {gap}', 'pass A', 'up A B', 'pass A', 'pass A', 'del A B',
                                                      'del A B', 'in B 3', 'heal']
            yield {'names': ['A', 'B'], 'phens': gc.CONFLICT, 'cache': 1000, 'ops': ops}
    # the resync period configured BELOW the ping period: the silence that calls for a snapshot is the one configured
    for gap in (3, 5, 6, 7, 11, 12, 13, 30):
        for work in (['in A 1'], ['in A 1', 'in A 2'], []):
            ops = list(warm) + ['down A B'] + work + ['pass A', f'tick {gap}', 'pass A', 'up A B', 'tick 2', 'pass A', 'pass A', 'del A B',
                                                      'del A B', 'in B 3', 'heal']
            yield {'names': ['A', 'B'], 'phens': gc.CONFLICT, 'cache': 1000, 'periods': dict(gc.EAGER_RESYNC), 'ops': ops}


def scenarios(ctx: Ctx, res: Result):
    for sc in outage_family():
        res.count('outage_family')
        yield sc
    for sc in gc.finish_only_backlog_family():
        res.count('finish_only_backlog_family')
        yield sc
    for sc in gc.newer_first_family():
        res.count('newer_first_family')
        yield sc
    for sc in gc.repeated_failure_family():
        res.count('repeated_failure_family')
        yield sc
    for sc in gc.merged_backlog_family():
        res.count('merged_backlog_family')
        yield sc
    for sc in gc.double_outage_family():
        res.count('double_outage_family')
        yield sc
    for sc in gc.big_backlog_family():
        res.count('big_backlog_family')
        yield sc
    for sc in gc.long_run_family():
        res.count('long_run_family')
        yield sc
    for sc in gc.stale_snapshot_in_pass_family():
        res.count('stale_snapshot_in_pass_family')
        yield sc
    for sc in gc.change_during_backlog_retry_family():
        res.count('change_during_backlog_retry_family')
        yield sc
    for sc in gc.change_during_resync_family():
        res.count('change_during_resync_family')
        yield sc
    for sc in gc.resync_retry_family():
        res.count('resync_retry_family')
        yield sc
    for sc in gc.readdress_family():
        res.count('readdress_family')
        yield sc
    for _ in range(4000 if ctx.thorough else 450):
        res.count('random_faults')
        yield gc.fault_scenario(ctx.rng)


def run(ctx: Ctx) -> Result:
    res = Result()
    scs = [ctx.replay['replay']] if ctx.replay is not None else scenarios(ctx, res)
    run_scenarios(ctx, scs, res, SIGS)
    return res


def search(ctx: Ctx) -> Result:
    res = Result()
    run_scenarios(Ctx(ctx.prop, ctx.tier, ctx.seed, ctx.rng), (gc.fault_scenario(ctx.rng) for _ in range(500)), res, SIGS)
    res.disagreements = []
    return res


SPEC = PropSpec(
    prop='C06', translators=['modes'], run=run, search=search,
    rule='repeated-failure family (2-3 consecutive failed or unacknowledged SYNCs to one peer with successive states of one run), outage family (a link down for 5..120 s around the ping/resync thresholds with 0-2 changes pending), merged-backlog family, '
         'and seeded random fault sequences of 8-40 operations over {input, pass, deliver, down, up, fail-after-delivery, '
         'tick 1/5/10/31/61} for 2-3 instances with default, short and resync-below-ping periods (`EAGER_RESYNC`; also in the outage family), each followed by healing all links and running '
         'the protocol to quiescence',
    trusted_base=['harness/cluster.py in-memory network double: the three return codes of _tcp_send are the only way socket behaviour '
                  'reaches the protocol'],
    assumptions=['all instances stay up', 'finished-run memory enabled and large enough', 'each step of the schedule is atomic'],
    model_covers='BoboDistributedTCP._tcp_outgoing (queue/backlog/snapshot accounting, via C15 model), decider snapshot and remote updates',
)
