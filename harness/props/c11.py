"""
C11 — Only authenticated peers can influence an instance.

Same rig as C10 (harness/props/c10.py): the REAL `_tcp_incoming_handle_client` is
driven through scripted socket / clock doubles, with the real
BoboDistributedCryptoAES and real BoboDevice / BoboDeviceManager objects, and the
same connections are piped to the Lean model (`bobodrv frame`), whose cipher is
the *ideal* AEAD "exactly the byte strings sealed by encrypt() under the
instance's key open" — so every forged byte string is also a test of the real
AES-GCM against that assumption.  A part of the cases goes through the REAL
accept loop `_tcp_incoming` (scripted listening socket), so that its `except`
clauses are exercised, not only read.

Every case = one or more hostile / broken / odd connections, then a valid
message that must be accepted.

Oracle (independent of the model), per connection:
  * not authentic (not sealed under the AES key, or unknown urn, or wrong device
    key)  =>  not accepted, and peer table (addr, last_comms, last_attempt,
    flag_reset, stash size of every peer) and incoming queue unchanged;
  * whatever it is: not accepted  =>  peer table and queue unchanged;
  * the handler returns or raises a subclass of Exception (never blocks, never
    outlives the first clock reading at accept + timeout), closes the socket once;
  * the subscribers (decider side) are called only for accepted SYNC/RESYNC;
  * the follow-up valid message is accepted with exactly its documented effect.
"""
import json

from harness.core import PropSpec, Result, Violation, Ctx
from harness.props import c10
from harness.props.c10 import (ACCEPTED, T_RECV, AES_KEY, OTHER_AES_KEY, PEERS, Rig, seal, rng_nonce, cut, calm_clock,
                               expected_reads, mk_conn, payload_json, run_cases, first_reach)

KNOWN = {p[0]: p for p in PEERS}


def parse_header(pt):
    """independent reading of 'urn key type flags json' (None when it does not have four spaces)."""
    parts = pt.split(' ', 4)
    if len(parts) != 5:
        return None
    return parts


def classify(pt, sealed_ok):
    """(authentic, header) by construction of the case — not by asking the code."""
    if not sealed_ok or pt is None:
        return False, None
    h = parse_header(pt)
    if h is None:
        return False, None          # no urn/key to speak of: treated as not authentic (must be rejected)
    urn, key = h[0], h[1]
    return (urn in KNOWN and KNOWN[urn][1] == key), h


def bad_conn(script, clock, addr, pt=None, sealed_ok=False, label=''):
    authentic, h = classify(pt, sealed_ok)
    return mk_conn(script, clock, addr, expect={'kind': 'hostile', 'authentic': authentic, 'label': label})


def valid_conn(rng, msg, m, recv_bytes, addr=None, ncuts=None):
    name, pt, urn, ty, fl, js = msg
    k = rng.randrange(0, 3) if ncuts is None else ncuts
    cuts = sorted(set(rng.randrange(1, len(m)) for _ in range(k)))
    script = cut(m, cuts)
    n = expected_reads(script, recv_bytes)
    addr = addr or rng.choice(['10.0.0.2', '10.0.0.3', '172.16.0.%d' % rng.randrange(1, 250)])
    return mk_conn(script, calm_clock(rng, n + 1), addr,
                   expect={'kind': 'valid', 'urn': urn, 'type': ty, 'flags': fl, 'json': js, 'reads': n})


class Gen:
    def __init__(self, ctx):
        self.rng = ctx.rng
        self.ctx = ctx
        self.valid = [(msg, seal(msg[1], rng_nonce(self.rng))) for msg in c10.valid_plaintexts()]
        # follow-ups: a PING from b, a SYNC with reset flag from c, a RESYNC with runs from b
        self.follow = [self.valid[0], self.valid[-2], self.valid[-1], self.valid[2]]

    def followup(self, recv_bytes):
        msg, m = self.rng.choice(self.follow)
        return msg, m, valid_conn(self.rng, msg, m, recv_bytes)

    def case(self, kind, bads, recv_bytes=64, queue_cap=0, extra_sealed=(), extra_json=(), via_loop=False, nofollow=False):
        conns = list(bads)
        sealed, jsons = list(extra_sealed), list(extra_json)
        if not nofollow:
            msg, m, vc = self.followup(recv_bytes)
            conns.append(vc)
            sealed.append([m.hex(), msg[1]])
            jsons.append(msg[5])
        c = {'kind': kind, 'recv_bytes': recv_bytes, 'queue_cap': queue_cap, 'sealed': sealed, 'jsons': sorted(set(jsons)),
             'conns': conns, 'drain': True}
        if via_loop:
            c['via_accept_loop'] = True
        return c

    def one_chunk(self, data, recv_bytes, tail='eof'):
        """the bytes, then the peer closes / stays silent; clock long enough for the busy loop on b''."""
        script = cut(data, []) + ([['s']] if tail == 'silent' else [])
        n = expected_reads(script[:1] if data else [], recv_bytes)
        return script, calm_clock(self.rng, n + 1 + self.rng.randrange(4))

    def sealed_case(self, kind, pt, aes_key=AES_KEY, addr='6.6.6.6', recv_bytes=64, queue_cap=0, via_loop=False, pre=()):
        """a message sealed by the real encrypt (under the right or a wrong AES key) with an arbitrary plaintext."""
        m = seal(pt, rng_nonce(self.rng), aes_key)
        script, clock = self.one_chunk(m, recv_bytes)
        ok = aes_key == AES_KEY
        bc = bad_conn(script, clock, addr, pt=pt, sealed_ok=ok, label=kind)
        h = parse_header(pt)
        extra_sealed = [[m.hex(), Rig(64).crypto.decrypt(m)]] if ok else []
        extra_json = [h[4]] if h else []
        return self.case(kind, list(pre) + [bc], recv_bytes, queue_cap, extra_sealed, extra_json, via_loop)


def cases(ctx: Ctx):
    g = Gen(ctx)
    rng = ctx.rng
    ping, sync100 = g.valid[0], g.valid[1]
    sync_runs = g.valid[-2]
    # ---- corpus: F14 witness (authentic, payload does not parse, new address), F8 witness, F15 observation
    yield g.sealed_case('corpus-f14-bad-json-new-addr', 'b kb 0 1 {not json', addr='6.6.6.6')
    yield g.case('corpus-f8-silent', [bad_conn([['s']], calm_clock(rng, 2), '6.6.6.6', label='silent')])
    yield g.case('corpus-f8-silent', [bad_conn([['s']], calm_clock(rng, 2), '6.6.6.6', label='silent')], via_loop=True)
    yield g.sealed_case('f15-authentic-sync-without-keys', 'b kb 0 0 {}')
    # ---- every single-bit flip
    flip_msgs = [ping, sync100] + ([sync_runs] if ctx.thorough else [])
    for msg, m in flip_msgs:
        for bit in range(8 * len(m)):
            b = bytearray(m)
            b[bit // 8] ^= 1 << (bit % 8)
            script, clock = g.one_chunk(bytes(b), 64)
            yield g.case('bitflip', [bad_conn(script, clock, '6.6.6.6', label='bit %d' % bit)], extra_sealed=[[m.hex(), msg[1]]],
                         extra_json=[msg[5]])
    if not ctx.thorough:
        msg, m = sync_runs
        for bit in sorted(rng.sample(range(8 * len(m)), 400)):
            b = bytearray(m)
            b[bit // 8] ^= 1 << (bit % 8)
            script, clock = g.one_chunk(bytes(b), 2048)
            yield g.case('bitflip', [bad_conn(script, clock, '6.6.6.6', label='bit %d' % bit)], recv_bytes=2048,
                         extra_sealed=[[m.hex(), msg[1]]], extra_json=[msg[5]])
    # ---- every truncation (closed, and half of them left open and silent)
    for msg, m in flip_msgs:
        for j in range(0, len(m)):
            tail = 'silent' if j % 2 else 'eof'
            script, clock = g.one_chunk(m[:j], 64, tail)
            yield g.case('truncation-' + tail, [bad_conn(script, clock, '6.6.6.6', label='cut at %d' % j)],
                         extra_sealed=[[m.hex(), msg[1]]], extra_json=[msg[5]], via_loop=(j % 5 == 0))
        # the message plus trailing garbage
        for extra in (b'\x00', b'BOBO', m[-8:]):
            script, clock = g.one_chunk(m + extra, 2048)
            yield g.case('extended', [bad_conn(script, clock, '6.6.6.6', label='extended')], recv_bytes=2048,
                         extra_sealed=[[m.hex(), msg[1]]], extra_json=[msg[5]])
    # ---- wrong AES key
    for msg, m in g.valid:
        yield g.sealed_case('wrong-aes-key', msg[1], aes_key=OTHER_AES_KEY, via_loop=True)
    # ---- AES secrets outside ASCII (as many bytes as the cipher takes, not as many as they have characters): a secret
    # that shares its first characters -- and so its first bytes -- with the right one is a WRONG secret
    for rig_key, other in (('\u043a\u043b\u044e\u0447' * 4, '\u043a\u043b\u044e\u0447' * 2 + '-edge-02'),
                           ('\u043a\u043b\u044e\u0447' * 2 + '-edge-02', '\u043a\u043b\u044e\u0447' * 4),
                           ('\u00e9' * 16, '\u00e9' * 8 + 'abcdefgh' * 2), ('\u00e9' * 8 + 'abcdefgh' * 2, '\u00e9' * 16)):
        from bobocep.dist.crypto.aes import BoboDistributedCryptoAES
        try:
            BoboDistributedCryptoAES(rig_key), BoboDistributedCryptoAES(other)
        except Exception as e:   # noqa  (a secret the cipher refuses is no case)
            if not isinstance(e, ValueError) and type(e).__name__ != 'BoboDistributedCryptoError':
                raise
            continue
        for msg, m in g.valid[:3]:
            # the message under the OTHER secret, then the same plaintext under the right one (which must be served)
            wrong = seal(msg[1], rng_nonce(rng), other)
            good = seal(msg[1], rng_nonce(rng), rig_key)
            script, clock = g.one_chunk(wrong, 2048)
            bc = bad_conn(script, clock, '6.6.6.6', pt=msg[1], sealed_ok=False, label='secret with the same leading bytes')
            c = g.case('wrong-aes-key-same-leading-bytes', [bc, valid_conn(rng, msg, good, 2048)], recv_bytes=2048,
                       extra_sealed=[[good.hex(), msg[1]]], extra_json=[msg[5]], nofollow=True)
            c['rig_key'] = rig_key
            yield c

    js_ok = payload_json(1, 0)
    # (names and keys outside ASCII too: a key that differs from the right one only in characters some normalisation drops or
    # folds -- an accent, an invisible separator, a full-width twin -- is a wrong key)
    # (and names / keys that a format string, a template or a regular expression would read as syntax: whatever text an
    # unauthenticated sender puts there ends up in rejection messages and log lines)
    for urn in ('b', 'c', 'a', 'zz', 'B', 'b\t', '', 'bk', 'bkx', 'z\u00fc', 'zu', 'z', 'b\u00fc',
                'urn:{edge}', 'e{7}', 'x}', '{0}', '%s', '%(x)s', 'b{', '$b', 'b\\1', '(b', 'b*'):
        for key in ('kb', 'kc', 'ka', 'kx', 'KB', 'kb\x00', '', 'x', 'k', 'b', 'kbkb', 'kbx',
                    'k\u00df\u20ac', 'k\u00df', 'kss\u20ac', 'kb\u00e9', '\u2063kb', '\uff4b\uff42', 'k\u0062\u0301',
                    # the right key of 'z\u00fc' with OTHER characters outside ASCII in the same places (a comparison after a lossy
                    # encoding -- errors='replace' / 'ignore', ascii(), casefolding -- takes them for the right one)
                    'k\u00fc\u20ac', 'k\u20ac\u00df', 'k??', 'k\ufffd\ufffd', 'k\u00df\u00a3', 'k'):
            for ty, fl in ((0, 1), (1, 1), (2, 0)):
                pt = '%s %s %d %d %s' % (urn, key, ty, fl, js_ok if ty != 1 else '{}')
                yield g.sealed_case('urn-key-matrix', pt, addr=rng.choice(['6.6.6.6', '10.0.0.2']), via_loop=(ty == 2))
    # ---- malformed headers (sealed under the right AES key; right device key where there is one)
    heads = ['', 'b', 'b kb', 'b kb 0', 'b kb 0 0', 'bkb00{}', ' b kb 0 0 {}', 'b  kb 0 0 {}', 'b kb  0 {}', 'b kb 0  {}',
             'b kb x 0 {}', 'b kb 0 y {}', 'b kb 1.5 0 {}', 'b kb 0x1 0 {}', 'b kb 1e3 0 {}', 'b kb None 1 {}',
             'b kb 99999999999999999999 1 {}', 'b kb 1 99999999999999999999999999999999 {}', 'b kb -1 -1 {}', 'b kb 7 1 zzz',
             'b kb +1 +1 {}', 'b kb 1_0 1_1 {}', 'b kb _1 0 {}', 'b kb 1_ 0 {}', 'b kb 1__0 0 {}', 'b kb \t1\n \x0b3\x0c {}',
             'b kb 1 -0 {}', 'b kb 001 003 {}', 'b kb 1 ' + '9' * 4300 + ' {}', 'b kb 1 ' + '9' * 4301 + ' {}', 'b kb - 0 {}',
             'b kb + 0 {}', 'b kb 1 1\x00 {}', 'b\x00 kb 1 1 {}', 'b kb 3 3 {}', 'b kb 2 2 ' + js_ok, 'b kb 0 3 ' + js_ok]
    for pt in heads:
        yield g.sealed_case('malformed-header', pt, addr=rng.choice(['6.6.6.6', '10.0.0.2']), via_loop=rng.random() < 0.3)
    # ---- malformed payloads (authentic; from a new address, reset flag set)
    payloads = ['', '{', '{x', 'null', '[]', '0', '"s"', '{}', '{"completed": []}', '{"completed": [1]}', '{"completed": ["x"]}',
                '{"completed": "abc", "halted": [], "updated": []}', '{"completed": [], "halted": [], "updated": [{}]}',
                '{"completed": null, "halted": [], "updated": []}', js_ok[:-1], js_ok + '}', js_ok.replace('run0', 'run\\u0000'),
                '[' * 100000, '{"a":' * 50000 + '1' + '}' * 50000, 'NaN', js_ok + ' ', ' ' + js_ok]
    for js in payloads:
        for ty in (0, 2):
            yield g.sealed_case('malformed-payload', 'b kb %d 1 %s' % (ty, js), addr='6.6.6.6', recv_bytes=2048,
                                via_loop=(ty == 2))
    # ---- random bytes
    for i in range(400 if ctx.thorough else 120):
        n = rng.choice([0, 1, 3, 4, 35, 48, 51, 52, 53, 64, 100, 200, 300])
        data = bytes(rng.randrange(256) for _ in range(n))
        if i % 3 == 0 and n >= 4:
            data = data[:-4] + b'BOBO'
        tail = rng.choice(['eof', 'eof', 'silent'])
        script, clock = g.one_chunk(data, 64, tail)
        yield g.case('random-bytes', [bad_conn(script, clock, '6.6.6.6', label='random %d' % n)], via_loop=(i % 4 == 0))
    # ---- silent and half-open connections, accept timeouts
    for i in range(20):
        msg, m = rng.choice(g.valid)
        j = rng.randrange(0, len(m))
        script = cut(m[:j], sorted(set(rng.randrange(1, max(2, j)) for _ in range(2)))) if j > 1 else cut(m[:j], [])
        script = [x for x in script] + [['s']]
        bc = bad_conn(script, calm_clock(rng, len(script) + 3 + j // 64), '6.6.6.6', label='half-open at %d' % j)
        yield g.case('half-open', [bc, None] if i % 2 else [None, bc], extra_sealed=[[m.hex(), msg[1]]], extra_json=[msg[5]],
                     via_loop=True)
    # ---- replayed valid message from another address (it is authentic: accepted; here only as a sequence element)
    # ---- queue full: an authentic SYNC that finds the queue full is rejected and changes nothing
    for _ in range(6):
        msg, m = sync100
        first = valid_conn(rng, msg, m, 64, addr='10.0.0.2', ncuts=1)
        pt2 = 'b kb %d 1 %s' % (rng.choice((0, 2)), payload_json(1, 1))
        m2 = seal(pt2, rng_nonce(rng))
        script, clock = g.one_chunk(m2, 2048)
        full = bad_conn(script, clock, '6.6.6.6', pt=pt2, sealed_ok=True, label='queue full')
        pingmsg, pm = ping
        c = g.case('queue-full', [first, full, valid_conn(rng, pingmsg, pm, 2048)], recv_bytes=2048, queue_cap=1,
                   extra_sealed=[[m.hex(), msg[1]], [m2.hex(), pt2], [pm.hex(), pingmsg[1]]],
                   extra_json=[msg[5], parse_header(pt2)[4], pingmsg[5]], nofollow=True)
        c['drain'] = False
        yield c
    # ---- sequences of connections through the real accept loop
    for _ in range(150 if ctx.thorough else 40):
        bads, sealed, jsons = [], [], []
        for _k in range(rng.randrange(2, 7)):
            r = rng.random()
            if r < 0.15:
                bads.append(None)
            elif r < 0.35:
                bads.append(bad_conn([['s']] if rng.random() < 0.5 else [], calm_clock(rng, 1 + rng.randrange(5)), '6.6.6.6'))
            elif r < 0.6:
                msg, m = rng.choice(g.valid)
                b = bytearray(m)
                bit = rng.randrange(8 * len(m))
                b[bit // 8] ^= 1 << (bit % 8)
                script, clock = g.one_chunk(bytes(b), 64, rng.choice(['eof', 'silent']))
                bads.append(bad_conn(script, clock, '6.6.6.6'))
                sealed.append([m.hex(), msg[1]])
                jsons.append(msg[5])
            elif r < 0.8:
                pt = rng.choice(['b kx 0 1 {}', 'zz kb 1 1 {}', 'b kb x 1 {}', 'b kb 0 1 {x', 'c kb 2 1 ' + js_ok])
                m = seal(pt, rng_nonce(rng), rng.choice([AES_KEY, AES_KEY, OTHER_AES_KEY]))
                try:
                    dec = Rig(64).crypto.decrypt(m)
                    sealed.append([m.hex(), dec])
                    ok = True
                except ValueError:
                    ok = False
                script, clock = g.one_chunk(m, 64)
                bads.append(bad_conn(script, clock, '6.6.6.6', pt=pt, sealed_ok=ok))
                jsons.append(parse_header(pt)[4])
            else:
                msg, m = rng.choice(g.valid)
                bads.append(valid_conn(rng, msg, m, 64))
                sealed.append([m.hex(), msg[1]])
                jsons.append(msg[5])
        yield g.case('sequence', bads, extra_sealed=sealed, extra_json=jsons, via_loop=True)


# --------------------------------------------------------------------------
# oracle
# --------------------------------------------------------------------------

def expected_table(before_table, urn, addr, flags):
    rows = []
    for row in before_table.split(';'):
        u, a, lc, la, fr, sl = row.split(':')
        if u == urn:
            a = addr
            if flags & 1:
                lc, la = '0', '0'
        rows.append(':'.join([u, a, lc, la, fr, sl]))
    return ';'.join(rows)


def oracle_conn(case, conn, obs, rig, items_before):
    v = []
    ex = conn['expect'] or {}
    rep = dict(case)

    def bad(sig, what):
        v.append(Violation(sig, '%s [%s / %s]' % (what, case['kind'], ex.get('label', ex.get('kind'))), rep))
    if obs['closed'] != 1:
        bad('socket-not-closed-once', 'client socket closed %d times' % obs['closed'])
    if obs['out'] == 'blocked':
        bad('silent-peer-blocks-listener',
            'recv on a silent peer with no receive timeout on the accepted socket (settimeout calls: %r): the listener blocks forever'
            % (obs['settimeouts'],))
        return v
    if obs['out'] == 'clockout':
        bad('no-give-up', 'the handler kept reading past the first clock reading at accept+timeout')
        return v
    if obs['out'] == 'rejected-base':
        bad('uncatchable-exception', 'the handler raised something that is not an Exception')
    changed = obs['after'] != obs['before']
    if ex.get('kind') == 'hostile':
        if not ex['authentic']:
            if obs['out'] == 'accepted':
                bad('unauthenticated-accepted', 'a connection that is not authentic was accepted')
            if changed:
                bad('unauthenticated-changed-state', 'peer table / queue changed by a connection that is not authentic: %s -> %s'
                    % (obs['before'], obs['after']))
        elif obs['out'] != 'accepted' and changed:
            bad('rejected-message-changed-state', 'a message rejected with %s changed the peer table / queue: %s -> %s'
                % (obs['out'], obs['before'], obs['after']))
        fr = first_reach(conn['clock'], conn['accepted'])
        if fr is not None and obs['clock_used'] > fr + 1:
            bad('give-up-too-late', 'handler consumed %d clock readings, the timeout was reached at reading %d' % (obs['clock_used'], fr + 1))
    elif ex.get('kind') == 'valid':
        if obs['out'] != 'accepted':
            bad('valid-message-rejected', 'a valid message (after %d other connections) was not accepted: %s'
                % (case['conns'].index(conn), obs['out']))
            if changed:
                bad('rejected-message-changed-state', 'a rejected message changed the peer table / queue')
            return v
        want_t = expected_table(obs['before'][0], ex['urn'], conn['addr'], ex['flags'])
        want_q = obs['before'][1] + (1 if ex['type'] in (0, 2) else 0)
        if (want_t, want_q) != obs['after']:
            bad('valid-message-wrong-effect', 'after a valid message: %r, expected %r' % (obs['after'], (want_t, want_q)))
    return v


def run(ctx: Ctx) -> Result:
    res = Result()
    if ctx.replay is not None and ctx.replay['replay'].get('kind') == 'reset-storm':
        reset_storm(res, ctx.rng)
        return res
    if ctx.replay is not None:
        return run_cases(ctx, [ctx.replay['replay']], res, oracle_conn)
    run_cases(ctx, cases(ctx), res, oracle_conn)
    reset_storm(res, ctx.rng)
    return res


def reset_storm(res, rng):
    """"the listener keeps serving later connections": strangers open connections and RESET them half-way (an OS-level
    error of the accepted socket, not of the listening one), more often than any integer the listener is configured with
    (max_listen, harvested from the constructor's defaults; twice that and then some), with nothing valid in between; then a
    peer sends a valid message.  The accept loop is the real one; every connection must be served, nothing applied for the
    strangers, the valid message accepted."""
    import inspect
    from bobocep.dist.tcp import BoboDistributedTCP
    ints = [p.default for p in inspect.signature(BoboDistributedTCP.__init__).parameters.values()
            if type(p.default) is int and 1 <= p.default <= 200]
    msg = c10.valid_plaintexts()[1]
    m = seal(msg[1], rng_nonce(rng))
    for n in sorted({3, 8} | {k + 2 for k in ints} | {2 * k + 3 for k in ints if k <= 40}):
        for how in ('reset-at-once', 'reset-half-way'):
            case = {'kind': 'reset-storm', 'resets': n, 'how': how}
            res.add_case(case, nontrivial=True)
            res.count('reset_storm_cases')
            conns = []
            for k in range(n):
                script = [['r']] if how == 'reset-at-once' else [['c', m[:20 + k % 9].hex()], ['r']]
                conns.append(mk_conn(script, calm_clock(rng, 4), '6.6.6.%d' % (k % 200 + 1), expect={'kind': 'hostile'}))
            conns.append(valid_conn(rng, msg, m, 64))
            rig = Rig(64, 0)
            before = rig.table()
            try:
                obs_list, end, info = rig.serve(conns)
            except Exception as e:   # noqa
                res.violations.append(Violation('listener-thread-ended', f"{case}: driving the accept loop raised {type(e).__name__}: {e}", case))
                continue
            served = [o for o in obs_list if o is not None]
            if end != 'returned' or info['unserved'] or len(served) != len(conns):
                res.violations.append(Violation(
                    'listener-thread-ended',
                    f"after {len(served)} connections reset by strangers ({how}) the real accept loop ended with {end!r}: "
                    f"{info['unserved']} of {len(conns)} connections were never accepted, the peer's valid message among them", case))
                continue
            if served[-1]['out'] != 'accepted':
                res.violations.append(Violation('valid-message-rejected', f"{case}: the valid message after the resets ended with {served[-1]['out']}", case))
            elif any(o['out'] == 'accepted' or o['after'][1] != o['before'][1] or o['after'][0] != o['before'][0] for o in served[:-1]):
                res.violations.append(Violation('unauthentic-accepted', f"{case}: a connection reset by a stranger changed the peer table or the incoming queue", case))


def search(ctx: Ctx) -> Result:
    """failing-input search on the real code alone (no model): the urn/key matrix, malformed payloads from a new address,
    truncations closed and silent, bit flips — each followed by a valid message."""
    res = Result()
    found = set()
    n = 0
    for case in cases(ctx):
        if case['kind'] in ('bitflip',) and n % 7:
            n += 1
            continue
        n += 1
        rig = Rig(case['recv_bytes'], case.get('queue_cap', 0), aes_key=case.get('rig_key', AES_KEY))
        for conn in case['conns']:
            if conn is None:
                continue
            obs = rig.call(conn)
            res.evaluations += 1
            for viol in oracle_conn(case, conn, obs, rig, None):
                if viol.sig not in found:
                    found.add(viol.sig)
                    res.violations.append(viol)
        if len(found) >= 3:
            break
    return res


SPEC = PropSpec(
    prop='C11',
    translators=['frame'],
    run=run,
    search=search,
    rule='each case = hostile/broken connections, then a valid message (PING, SYNC, RESYNC; random cuts; known or new address): every '
         'single-bit flip of a 52- and a 100-byte message (plus 400 sampled flips of a 1.1 kB one; all in thorough), every truncation '
         '(closed / left open and silent) and 3 extensions, messages sealed under another AES key, 7 urns x 7 device keys x 3 types '
         'sealed under the right AES key, 37 malformed headers, 22 malformed payloads x 2 types from a new address with RESET set, random '
         'bytes (a third ending in the marker), half-open connections and accept timeouts, queue-full, and random sequences of 2-6 '
         'connections; about a third of the cases run through the real accept loop _tcp_incoming with a scripted listening socket; '
         'non-trivial = every case (each has a rejected connection or more than one read)',
    trusted_base=['the scripted socket / listening-socket / clock doubles of harness/props/c10.py stand for the kernel',
                  'accepted_only_sealed / forgery_rejected rest on the AEAD hypothesis open_some_only_sealed (a byte string opens only if '
                  'it was sealed under the same key): AES-GCM unforgeability is assumed, and sampled here (every forged string is compared '
                  'with the ideal cipher of the model)'],
    assumptions=['AES-GCM (pycryptodome) is an ideal AEAD; the payload decoder raises only subclasses of Exception',
                 'client_addr is what accept() returned: non-empty, no whitespace (BoboDevice.addr would raise otherwise)',
                 'int(str) is modelled for ASCII input (sign, underscores, whitespace, 4300-digit limit); non-ASCII digits are not generated',
                 'incoming queue unbounded (max_size_incoming = 0, the default) for listener_survives; the bounded queue is covered by '
                 'reject_changes_nothing and the queue-full cases',
                 'an authenticated message with an unknown type, or a PING with any payload, is accepted by the code (address and RESET '
                 'honoured): it holds both keys, so this is outside the property; likewise F15 ({} as SYNC payload ends run())'],
    model_covers='_tcp_incoming_handle_client after the frame test: decrypt verdict, _split_plaintext incl. int(), urn lookup, key '
                 'comparison, payload parse, queue check, the three writes — as a statement list generated from /repo and proved equal '
                 'to the model\'s; the except clauses of _tcp_incoming (generated, proved equal)',
)
