"""
C10 — Message delivery does not depend on how TCP splits the bytes.

D-tie: the REAL `BoboDistributedTCP._tcp_incoming_handle_client` is called with a
scripted socket (`recv(n)` returns the next scripted chunk capped to n, `b""` for
a closed peer, raises `socket.timeout` for a silent peer when a timeout was set
on the socket — and reports "would block forever" when none was) and a scripted
`time.time` (module global `bobocep.dist.tcp.time`).  The TCP object is built
with a stub decider, the real BoboDistributedCryptoAES and real BoboDevice
objects; valid messages are produced by the real `encrypt`.  The same
connections are piped to the Lean model (`bobodrv frame`) and the outcome, the
number of reads, the peer table and the queue length are compared.

Oracle (independent of the model): a connection whose chunks concatenate to a
complete valid message is accepted and its payload is queued exactly once; a
connection that carries only a proper prefix (then closes or stays silent)
is given up with the timeout error at the first clock reading at or past
accept + timeout_receive (or one socket timeout after an earlier reading), i.e.
less than 2 * timeout_receive after the accept, with nothing queued and the peer
table untouched; the client socket is closed exactly once.

This module also holds the rig shared with C11 (harness/props/c11.py).
"""
import json
import logging
import socket

from harness.core import PropSpec, Result, Violation, Ctx, run_model, CORPUS

import bobocep.dist.tcp as tcp_mod
import bobocep.dist.crypto.aes as aes_mod
from bobocep.cep.engine.decider.runserial import BoboRunSerial
from bobocep.cep.event import BoboHistory, BoboEventSimple
from bobocep.dist.crypto.aes import BoboDistributedCryptoAES
from bobocep.dist.device import BoboDevice
from bobocep.dist.dist import BoboDistributedError, BoboDistributedSystemError, BoboDistributedTimeoutError
from bobocep.dist.pubsub import BoboDistributedSubscriber
from bobocep.dist.tcp import BoboDistributedTCP, _OutgoingJSONEncoder

logging.disable(logging.CRITICAL)      # the accept loop logs every rejected client

AES_KEY = '0123456789abcdef'
OTHER_AES_KEY = 'fedcba9876543210'
T_RECV = 3
ACCEPTED = 100
# (urn, key, addr, port, last_comms, last_attempt, flag_reset, stash_len); the first one is the instance itself
PEERS = [
    ('a', 'ka', '10.0.0.1', 9001, 0, 0, True, 0),
    ('b', 'kb', '10.0.0.2', 9002, 71, 72, False, 2),
    ('c', 'kc', '10.0.0.3', 9003, 55, 0, True, 0),
    # a device whose name extends another's: 'b' + 'kx' and 'bk' + 'x' read the same once joined without a separator
    ('bk', 'x', '10.0.0.4', 9004, 13, 14, False, 1),
    # a device named outside ASCII: header fields of more bytes than characters (padding counts characters, the cipher bytes)
    ('z\u00fc', 'k\u00df\u20ac', '10.0.0.5', 9005, 33, 34, False, 0),
    # a device whose name and key contain white space that is not the ASCII space (ideographic space, tab, no-break space:
    # BoboDevice refuses ' ' only): the header fields are separated by ' ' and by nothing else
    ('w\u3000w', 'k\tw\u00a0x', '10.0.0.6', 9006, 21, 22, False, 0),
]


class Blocked(BaseException):
    """recv on a silent peer with no timeout on the socket: would block forever."""


class ClockOut(BaseException):
    """the scripted clock ran out of readings: the handler did not stop when it had to."""


class ScriptSock:
    on_recv = None

    def __init__(self, script):
        # script: list of ['c', bytes] | ['e'] | ['s']
        self.script = [list(x) for x in script]
        self.timeout = None
        self.settimeouts = []
        self.closed = 0
        self.reads = 0
        self.ended_silent = False

    def settimeout(self, t):
        self.settimeouts.append(t)
        self.timeout = t

    def recv(self, n):
        self.reads += 1
        if ScriptSock.on_recv is not None:
            ScriptSock.on_recv()          # a scheduling point for harness/interleave.py (two_receivers)
        if not self.script:
            return b''
        head = self.script[0]
        if head[0] == 'c':
            b = head[1]
            if len(b) <= n:
                self.script.pop(0)
                return b
            self.script[0] = ['c', b[n:]]
            return b[:n]
        if head[0] == 'e':
            self.script.pop(0)
            return b''
        if head[0] == 'r':              # the peer resets the connection (an OS-level error of the CLIENT socket)
            self.script.pop(0)
            raise ConnectionResetError(104, 'Connection reset by peer')
        # silent
        self.script.pop(0)
        if self.timeout is None or self.timeout <= 0:
            raise Blocked()
        self.ended_silent = True
        raise socket.timeout('timed out')

    def close(self):
        self.closed += 1


class ScriptClock:
    def __init__(self, readings):
        self.readings = list(readings)
        self.i = 0

    between = None      # set while NO connection is being served: what the wall clock shows then (not consumed)

    def time(self):
        if self.between is not None:
            return self.between() + 0.5
        if self.i >= len(self.readings):
            raise ClockOut()
        v = self.readings[self.i]
        self.i += 1
        return v + 0.5      # int(time.time()) truncates


class StubDecider:
    def snapshot(self):
        return [], [], []


class Recorder(BoboDistributedSubscriber):
    def __init__(self):
        self.calls = []

    def on_distributed_update(self, completed, halted, updated):
        self.calls.append(([r.run_id for r in completed], [r.run_id for r in halted], [r.run_id for r in updated]))


def run_serial(i, n=1):
    evs = [BoboEventSimple(event_id='e%d_%d' % (i, k), timestamp=1000 + k, data={'v': k}) for k in range(n)]
    return BoboRunSerial('run%d' % i, 'ph', 'pat', 1, BoboHistory(events={'g': evs}))


def payload_json(n_completed=0, n_updated=0, pad=0):
    d = {'completed': [run_serial(i) for i in range(n_completed)], 'halted': [],
         'updated': [run_serial(100 + i, 2) for i in range(n_updated)]}
    if pad:
        d['pad'] = 'x' * pad
    return json.dumps(d, cls=_OutgoingJSONEncoder)


def seal(pt, nonce, aes_key=AES_KEY):
    """the real encrypt with a scripted nonce (get_random_bytes of the aes module replaced)."""
    old = getattr(aes_mod, 'get_random_bytes', None)
    aes_mod.get_random_bytes = lambda n: (nonce * (n // len(nonce) + 1))[:n]
    try:
        return bytes(BoboDistributedCryptoAES(aes_key).encrypt(pt))
    finally:
        aes_mod.get_random_bytes = old


def rng_nonce(rng):
    return bytes(rng.randrange(256) for _ in range(16))


def exc_enum(e):
    if isinstance(e, Blocked):
        return 'blocked'
    if isinstance(e, ClockOut):
        return 'clockout'
    if isinstance(e, BoboDistributedTimeoutError):
        return 'rejected-timeout'
    if isinstance(e, BoboDistributedSystemError):
        return 'rejected-system'
    if isinstance(e, BoboDistributedError):
        return 'rejected-dist'
    if isinstance(e, ValueError):
        return 'rejected-value'
    if isinstance(e, Exception):
        return 'rejected-other'
    return 'rejected-base'


def hexs(b):
    return b.hex() if b else '-'


class Rig:
    """one BoboDistributedTCP under test, with the peer table put into a known non-trivial state."""

    def __init__(self, recv_bytes=64, queue_cap=0, peers=PEERS, aes_key=AES_KEY):
        self.recv_bytes = recv_bytes
        self.queue_cap = queue_cap
        devs = [BoboDevice(addr=p[2], port=p[3], urn=p[0], id_key=p[1]) for p in peers]
        self.crypto = BoboDistributedCryptoAES(aes_key)
        self.t = BoboDistributedTCP(peers[0][0], StubDecider(), devs, self.crypto, max_size_incoming=queue_cap,
                                    timeout_receive=T_RECV, recv_bytes=recv_bytes)
        for p in peers:
            d = self.t._devices[p[0]]
            d.last_comms = p[4]
            d.last_attempt = p[5]
            d.flag_reset = p[6]
            d.append_stash([run_serial(900 + k) for k in range(p[7])], [], [])
        self.rec = Recorder()
        self.t.subscribe(self.rec)
        self.peers = peers
        self.drained = 0

    def table(self):
        return ';'.join('%s:%s:%d:%d:%d:%d' % (d.urn, d.addr, d.last_comms, d.last_attempt, int(d.flag_reset), d.size_stash())
                        for d in self.t._devices.values())

    def qlen(self):
        return self.drained + self.t._queue_incoming.qsize()

    def queue_items(self):
        return list(self.t._queue_incoming.queue)

    def setup_lines(self):
        ls = ['reset', 'cfg %d %s %d %d %d' % (self.crypto.min_length(), self.crypto.end_bytes().hex(), T_RECV,
                                               self.recv_bytes, self.queue_cap)]
        for p in self.peers:
            ls.append('peer %s %s %s %d %d %d %d' % (p[0], p[1], p[2], p[4], p[5], int(p[6]), p[7]))
        return ls

    def json_verdict(self, js):
        try:
            self.t._incoming_from_json(js)
            return 'ok'
        except BaseException as e:
            return {'rejected-system': 'system', 'rejected-dist': 'dist', 'rejected-value': 'value'}.get(exc_enum(e), 'other')

    def call(self, conn):
        """one call of the real handler; returns the observation dict."""
        script = [['c', bytes.fromhex(x[1])] if x[0] == 'c' else [x[0]] for x in conn['script']]
        s = ScriptSock(script)
        clock = ScriptClock(conn['clock'])
        before = (self.table(), self.qlen())
        old = tcp_mod.time
        tcp_mod.time = clock
        try:
            try:
                self.t._tcp_incoming_handle_client(s, conn['addr'], conn['accepted'])
                out = 'accepted'
            except BaseException as e:   # noqa: everything is an observation here
                out = exc_enum(e)
        finally:
            tcp_mod.time = old
        return {'out': out, 'reads': s.reads, 'closed': s.closed, 'settimeouts': s.settimeouts, 'ended_silent': s.ended_silent,
                'clock_used': clock.i, 'before': before, 'after': (self.table(), self.qlen())}

    def serve(self, conns):
        """drive the REAL accept loop `_tcp_incoming` over scripted accept() results (a conn dict, or None for an
        accept timeout); the loop ends through `_thread_closed` once the script is exhausted.  Returns the per-connection
        observations (recorded by a wrapper around the real handler) and how the loop ended."""
        rig = self
        clock = ScriptClock([])
        obs_list = []
        pending = list(conns)

        # the listener waits inside accept(): a connection arrives `idle` seconds (default 2, below the accept timeout)
        # after the loop went to wait for it.  Whatever reads the clock between two connections -- at the top of the
        # loop, before accept() -- sees the time the wait BEGAN, not the time the connection was accepted.
        def wall_between():
            nxt = next((c for c in pending if c is not None), None)
            return (nxt['accepted'] - nxt.get('idle', 2)) if nxt is not None else 0
        clock.between = wall_between

        class Listener:
            def __init__(self):
                self.closed = 0
                self.timeouts = []

            def bind(self, a):
                pass

            def listen(self, n):
                pass

            def settimeout(self, t):
                self.timeouts.append(t)

            def accept(self):
                if not pending:
                    rig.t._thread_closed = True
                    raise socket.timeout('timed out')
                c = pending.pop(0)
                if c is None:
                    obs_list.append(None)
                    raise socket.timeout('timed out')
                script = [['c', bytes.fromhex(x[1])] if x[0] == 'c' else [x[0]] for x in c['script']]
                cs = ScriptSock(script)
                clock.readings = [c['accepted']] + list(c['clock'])
                clock.i = 0
                clock.between = None
                self.current = (c, cs)
                return cs, (c['addr'], 40000)

            def close(self):
                self.closed += 1

        listener = Listener()

        class FakeSocketModule:
            AF_INET = socket.AF_INET
            SOCK_STREAM = socket.SOCK_STREAM
            timeout = socket.timeout

            @staticmethod
            def socket(*a):
                return listener

        orig = self.t._tcp_incoming_handle_client

        def wrapper(client_s, client_addr, client_accepted):
            before = (rig.table(), rig.qlen())
            items_before = rig.queue_items()
            out = 'accepted'
            try:
                orig(client_s, client_addr, client_accepted)
            except BaseException as e:
                out = exc_enum(e)
                raise
            finally:
                clock.between = wall_between
                obs_list.append({'out': out, 'reads': client_s.reads, 'closed': client_s.closed,
                                 'settimeouts': client_s.settimeouts, 'ended_silent': client_s.ended_silent,
                                 'clock_used': clock.i - 1, 'before': before, 'after': (rig.table(), rig.qlen()),
                                 'items_before': items_before, 'items_after': rig.queue_items()})

        self.t._tcp_incoming_handle_client = wrapper
        old_time, old_sock = tcp_mod.time, tcp_mod.socket
        tcp_mod.time, tcp_mod.socket = clock, FakeSocketModule
        try:
            try:
                self.t._tcp_incoming()
                end = 'returned'
            except BaseException as e:
                end = exc_enum(e)
        finally:
            tcp_mod.time, tcp_mod.socket = old_time, old_sock
            del self.t._tcp_incoming_handle_client
            self.t._thread_closed = False
        return obs_list, end, {'listener_closed': listener.closed, 'unserved': len(pending)}

    def drain(self):
        """hand the queued items to the subscribers with the real _update()."""
        n = self.t._queue_incoming.qsize()
        err = None
        try:
            self.t._update()
        except Exception as e:          # F15: an authenticated message lacking a key ends the main loop
            err = e.__class__.__name__
            while not self.t._queue_incoming.empty():
                self.t._queue_incoming.get_nowait()
        self.drained += n
        return err


def conn_line(conn):
    toks = []
    for x in conn['script']:
        toks.append('c' + x[1] if x[0] == 'c' else x[0])
    return 'conn new %d %s %s %s' % (conn['accepted'], conn['addr'], ','.join(str(c) for c in conn['clock']) or '-',
                                     ','.join(toks) or '-')


def text_hex(s):
    return s.encode('utf-8').hex() if s else '-'


def model_lines_for_case(rig, case):
    """op lines for one case: setup, the ideal-AEAD table, payload verdicts, the connections."""
    ls = rig.setup_lines()
    for hx, pt in case.get('sealed', []):
        ls.append('seal %s %s' % (hx, text_hex(pt)))
    for js in case.get('jsons', []):
        ls.append('json %s %s' % (text_hex(js), rig.json_verdict(js)))
    n_setup = len(ls)
    for c in case['conns']:
        ls.append(conn_line(c) if c is not None else 'accepttimeout')
    return ls, n_setup


def impl_line(obs):
    caught = 0 if obs['out'] in ('blocked', 'clockout', 'rejected-base') else 1
    return '%s reads=%d caught=%d peers=%s queue=%d' % (obs['out'], obs['reads'], caught, obs['after'][0], obs['after'][1])


def cut(m, cuts):
    """cut the bytes m at the sorted positions `cuts` into script chunks."""
    ps = [0] + list(cuts) + [len(m)]
    return [['c', m[a:b].hex()] for a, b in zip(ps, ps[1:]) if b > a]


def expected_reads(chunks, recv_bytes):
    return sum((len(bytes.fromhex(c[1])) + recv_bytes - 1) // recv_bytes for c in chunks)


def calm_clock(rng, n, style=None):
    """n readings below the timeout (not necessarily monotone), then readings at and past it."""
    style = style if style is not None else rng.randrange(3)
    if style == 0:
        pre = [ACCEPTED] * n
    elif style == 1:
        pre = [ACCEPTED + min(T_RECV - 1, (i * T_RECV) // max(n, 1)) for i in range(n)]
    else:
        pre = [ACCEPTED + rng.randrange(-1, T_RECV) for _ in range(n)]
    return pre + [ACCEPTED + T_RECV, ACCEPTED + T_RECV + 1, ACCEPTED + T_RECV + 5]


# --------------------------------------------------------------------------
# messages
# --------------------------------------------------------------------------

def valid_plaintexts():
    """(name, plaintext, from_urn, type, flags, json) — lengths cover every residue of (len mod 64) and a few of 2048."""
    out = [('ping', 'b kb 1 0 {}', 'b', 1, 0, '{}')]
    for pad in (0, 9, 25, 41, 57, 73):          # 100, 116, … : every residue class of 16-byte blocks modulo 64
        js = payload_json(0, 0, pad)
        out.append(('sync_pad%d' % pad, 'b kb 0 0 ' + js, 'b', 0, 0, js))
    js = payload_json(1, 1)
    out.append(('sync_runs', 'c kc 0 1 ' + js, 'c', 0, 1, js))
    js = payload_json(2, 3)
    out.append(('resync_runs', 'b kb 2 1 ' + js, 'b', 2, 1, js))
    out.append(('ping_utf8', 'z\u00fc k\u00df\u20ac 1 0 {}', 'z\u00fc', 1, 0, '{}'))
    js = payload_json(1, 2, 7)
    out.append(('sync_utf8', 'z\u00fc k\u00df\u20ac 0 0 ' + js, 'z\u00fc', 0, 0, js))
    out.append(('ping_ws', 'w\u3000w k\tw\u00a0x 1 1 {}', 'w\u3000w', 1, 1, '{}'))
    js = payload_json(1, 1, 3)
    out.append(('sync_ws', 'w\u3000w k\tw\u00a0x 0 0 ' + js, 'w\u3000w', 0, 0, js))
    return out


def big_plaintexts():
    out = []
    for target in (2052, 2068, 2084, 4100):      # last read of 4, 20, 36, 4 bytes with recv_bytes = 2048
        base = 'b kb 0 0 '
        pad = target - 36 - len(base) - len(payload_json(0, 0, 1)) + 1
        js = payload_json(0, 0, pad)
        out.append(('sync_%d' % target, base + js, 'b', 0, 0, js))
    return out


def mk_conn(script, clock, addr='10.0.0.2', expect=None, **kw):
    c = {'script': script, 'clock': clock, 'accepted': ACCEPTED, 'addr': addr, 'expect': expect}
    c.update(kw)
    return c


def deliver_case(kind, recv_bytes, msg, m, cuts, rng, addr=None):
    name, pt, urn, ty, fl, js = msg
    script = cut(m, cuts)
    n = expected_reads(script, recv_bytes)
    addr = addr or {p[0]: p[2] for p in PEERS}[urn]
    conn = mk_conn(script, calm_clock(rng, n + 1), addr,
                   expect={'kind': 'deliver', 'urn': urn, 'type': ty, 'flags': fl, 'json': js, 'reads': n, 'len': len(m), 'cuts': list(cuts)})
    return {'kind': kind, 'recv_bytes': recv_bytes, 'queue_cap': 0, 'msg': name, 'len': len(m), 'cuts': list(cuts),
            'sealed': [[m.hex(), pt]], 'jsons': [js], 'conns': [conn]}


def truncated_case(recv_bytes, msg, m, j, tail, rng, cuts=()):
    name, pt, urn, ty, fl, js = msg
    script = cut(m[:j], [c for c in cuts if c < j])
    n = expected_reads(script, recv_bytes)
    if tail == 'silent':
        script = script + [['s']]
        clock = calm_clock(rng, n + 1 + rng.randrange(3))
    else:
        script = script + [['e']] * rng.randrange(0, 3)      # then the exhausted script keeps answering b""
        clock = calm_clock(rng, n + 1 + rng.randrange(12))
    conn = mk_conn(script, clock, '10.0.0.9', expect={'kind': 'giveup', 'tail': tail})
    return {'kind': 'truncated-' + tail, 'recv_bytes': recv_bytes, 'queue_cap': 0, 'msg': name, 'len': len(m), 'cut_at': j,
            'sealed': [[m.hex(), pt]], 'jsons': [js], 'conns': [conn]}


def sequence_case(parts):
    """several connections served one after the other by the SAME receiver (one long-lived instance): what an earlier
    connection left behind — in particular one that was given up half-way — must not influence a later one."""
    case = dict(parts[0])
    case['kind'] = 'sequence'
    case['sealed'] = [x for c in parts for x in c['sealed']]
    case['jsons'] = []
    for c in parts:
        for js in c['jsons']:
            if js not in case['jsons']:
                case['jsons'].append(js)
    case['conns'] = [x for c in parts for x in c['conns']]
    case['parts'] = [c['kind'] for c in parts]
    for k in ('msg', 'len', 'cuts', 'cut_at'):
        case.pop(k, None)
    return case


def sequence_cases(ctx, msgs, bigs, n):
    rng = ctx.rng
    for i in range(n):
        recv_bytes = rng.choice((64, 64, 2048))
        parts = []
        for _ in range(rng.randrange(2, 6)):
            msg, m = rng.choice(msgs + bigs[:1])
            r = rng.random()
            if r < 0.45:
                j = rng.choice((0, 1, rng.randrange(0, len(m)), len(m) - 1, max(0, len(m) - rng.randrange(1, 52))))
                parts.append(truncated_case(recv_bytes, msg, m, j, rng.choice(('eof', 'silent')), rng))
            else:
                k = rng.randrange(0, 4)
                cuts = sorted(set(rng.randrange(1, len(m)) for _ in range(k)))
                if rng.random() < 0.3 and len(m) > 60:
                    cuts = sorted(set(cuts + [len(m) - rng.randrange(1, 52)]))
                parts.append(deliver_case('random', recv_bytes, msg, m, cuts, rng))
        # every sequence ends with a complete message: it must be delivered whatever came before
        msg, m = rng.choice(msgs)
        parts.append(deliver_case('random', recv_bytes, msg, m, sorted(set(rng.randrange(1, len(m)) for _ in range(rng.randrange(0, 3)))), rng))
        c = sequence_case(parts)
        # every other sequence is served by the REAL accept loop (the listener waits `idle` seconds inside accept() before
        # each connection; see Rig.serve), the others by calling the handler directly
        c['via_accept_loop'] = (i % 2 == 0)
        yield c


def cases(ctx: Ctx):
    rng = ctx.rng
    msgs = [(msg, seal(msg[1], rng_nonce(rng))) for msg in valid_plaintexts()]
    bigs = [(msg, seal(msg[1], rng_nonce(rng))) for msg in big_plaintexts()]
    # hand-picked hard cases first: F7 witness (100 bytes read as 90 + 10), a single read, byte by byte
    m100 = next(mm for mm in msgs if len(mm[1]) == 100)
    yield deliver_case('corpus-f7', 2048, m100[0], m100[1], [90], rng)
    yield deliver_case('corpus-f7', 64, m100[0], m100[1], [], rng)            # 64 + 36 through the recv cap
    yield deliver_case('whole', 2048, msgs[0][0], msgs[0][1], [], rng)
    yield deliver_case('bytewise', 64, msgs[0][0], msgs[0][1], list(range(1, len(msgs[0][1]))), rng)
    yield truncated_case(64, m100[0], m100[1], 40, 'silent', rng)               # F8 witness
    yield truncated_case(64, m100[0], m100[1], 0, 'silent', rng)
    yield truncated_case(64, m100[0], m100[1], 0, 'eof', rng)
    # all two-way cuts
    for msg, m in msgs:
        if len(m) > 700 and not ctx.thorough:
            pts = sorted(set(list(range(1, 70)) + list(range(len(m) - 70, len(m))) + [len(m) // 2]))
        else:
            pts = range(1, len(m))
        for k in pts:
            yield deliver_case('cut2', 64, msg, m, [k], rng)
    for msg, m in bigs:
        if ctx.thorough:
            pts = range(1, len(m))
        else:
            pts = sorted(set(list(range(1, 8)) + list(range(len(m) - 60, len(m))) + [2047, 2048, 2049, len(m) // 2]))
        for k in pts:
            if 0 < k < len(m):
                yield deliver_case('cut2-big', 2048, msg, m, [k], rng)
        yield deliver_case('whole-big', 2048, msg, m, [], rng)
        yield deliver_case('whole-big', 64, msg, m, [], rng)
    # all three-way cuts of the two shortest
    for msg, m in sorted(msgs, key=lambda x: len(x[1]))[:2]:
        step = 1 if (ctx.thorough or len(m) <= 52) else 2
        for a in range(1, len(m) - 1, step):
            for b in range(a + 1, len(m)):
                yield deliver_case('cut3', 64, msg, m, [a, b], rng)
    # uniform read sizes
    for msg, m in msgs + bigs[:1]:
        for r in range(1, 65):
            if len(m) > 700 and r < 8 and not ctx.thorough:
                continue
            yield deliver_case('uniform', 64, msg, m, list(range(r, len(m), r)), rng)
    # seeded random cuts, random new sender address
    for _ in range(1500 if ctx.thorough else 200):
        msg, m = rng.choice(msgs + bigs)
        k = rng.randrange(1, 7)
        cuts = sorted(set(rng.randrange(1, len(m)) for _ in range(k)))
        yield deliver_case('random', rng.choice((64, 64, 2048, 17)), msg, m, cuts, rng,
                           addr=rng.choice([None, '10.7.7.7', '192.168.1.%d' % rng.randrange(256)]))
    # the end marker spelled INSIDE the message (here by the nonce, which travels in the clear near the end): a message is
    # complete when the bytes received so far END with the marker, not when the marker occurs somewhere.  Every two-way cut
    # behind the look-alike and every uniform read size -- except read boundaries directly behind the look-alike, where the
    # framing itself cannot tell (finding F9, `noEarlyFrame_forced`)
    for msg in valid_plaintexts()[1:4]:
        for off in (0, 5, 12):
            nonce = (b'\x11' * off + b'BOBO' + b'\x22' * 16)[:16]
            m = seal(msg[1], nonce)
            look_end = m.index(b'BOBO') + 4
            if look_end >= len(m):
                continue
            for k in range(1, len(m)):
                if k != look_end:
                    yield deliver_case('marker-lookalike', 2048, msg, m, [k], rng)
                    if k + 7 < len(m) and k + 7 != look_end and k % 5 == 0:
                        yield deliver_case('marker-lookalike', 2048, msg, m, [k, k + 7], rng)
    # sequences of connections on one long-lived receiver: given-up connections followed by complete messages
    yield from sequence_cases(ctx, msgs, bigs, 600 if ctx.thorough else 120)
    # truncation at every byte, closed and silent
    tmsgs = [msgs[3]] + ([msgs[-1], bigs[0]] if ctx.thorough else [])
    for msg, m in tmsgs:
        for j in range(0, len(m)):
            for tail in ('eof', 'silent'):
                cuts = sorted(set(rng.randrange(1, len(m)) for _ in range(rng.randrange(0, 3))))
                yield truncated_case(rng.choice((64, 2048)), msg, m, j, tail, rng, cuts)


# --------------------------------------------------------------------------
# F9: the marker inside the ciphertext at a read boundary
# --------------------------------------------------------------------------

F9_CORPUS = CORPUS / 'C10' / 'f9_witness.json'


def f9_search(budget_s, rng_seed=0):
    """encrypt with scripted nonces until the ciphertext contains BOBO ending at a position ≥ min_length (bounded effort)."""
    import time as _t
    t0 = _t.time()
    js = payload_json(0, 0, 60000)
    pt = 'b kb 0 0 ' + js
    i = rng_seed << 32
    while _t.time() - t0 < budget_s:
        nonce = i.to_bytes(16, 'big')
        m = seal(pt, nonce)
        k = m.find(b'BOBO', 48, len(m) - 4)
        if k >= 0 and k + 4 >= 52:
            return {'nonce': nonce.hex(), 'pad': 60000, 'boundary': k + 4, 'len': len(m)}
        i += 1
    return None


def f9_case(w):
    js = payload_json(0, 0, w['pad'])
    pt = 'b kb 0 0 ' + js
    m = seal(pt, bytes.fromhex(w['nonce']))
    k = w['boundary']
    assert m[k - 4:k] == b'BOBO' and len(m) == w['len']
    import random
    return deliver_case('f9-marker-at-boundary', 2048, ('f9', pt, 'b', 0, 0, js), m, [k], random.Random(9))


# --------------------------------------------------------------------------
# oracle
# --------------------------------------------------------------------------

def first_reach(clock, accepted):
    for i, r in enumerate(clock):
        if r - accepted >= T_RECV:
            return i
    return None


def oracle_conn(case, conn, obs, rig, items_before):
    """violations of the property statement on one connection (independent of the model)."""
    v = []
    ex = conn['expect'] or {}
    rep = {k: case[k] for k in case if k not in ('conns',)}
    rep['conns'] = case['conns']

    def bad(sig, what):
        v.append(Violation(sig, what + ' [%s, recv_bytes=%d, len=%s]' % (case['kind'], case['recv_bytes'], case.get('len')), rep))
    if obs['closed'] != 1:
        bad('socket-not-closed-once', 'client socket closed %d times' % obs['closed'])
    if obs['out'] == 'blocked':
        bad('silent-peer-blocks-listener',
            'recv on a silent peer with no receive timeout on the accepted socket (settimeout calls: %r): the listener blocks forever'
            % (obs['settimeouts'],))
        return v
    if obs['out'] == 'clockout':
        bad('no-give-up', 'the handler kept reading past the first clock reading at accept+timeout')
        return v
    if 'items_after' in obs:        # served by the accept loop: the queue as it was right before / after THIS connection
        new_items = obs['items_after'][len(obs['items_before']):]
    else:
        new_items = rig.queue_items()[len(items_before):]
    if ex.get('kind') == 'deliver':
        sig = 'marker-inside-ciphertext-at-read-boundary' if case['kind'].startswith('f9') else 'dropped-complete-message'
        if obs['out'] != 'accepted':
            nth = case['conns'].index(conn) if conn in case['conns'] else 0
            bad(sig, 'a complete valid %s-byte message cut at %s was not delivered: %s after %d reads%s'
                % (ex.get('len', case.get('len')), ex.get('cuts', case.get('cuts')), obs['out'], obs['reads'],
                   (' (connection %d of %d on the same receiver; earlier ones: %s)' % (nth + 1, len(case['conns']), case.get('parts', [])[:nth]))
                   if len(case['conns']) > 1 else ''))
            return v
        want_q = 1 if ex['type'] in (0, 2) else 0
        if len(new_items) != want_q:
            bad('delivered-not-exactly-once', 'message queued %d times, expected %d' % (len(new_items), want_q))
        elif want_q:
            want = rig.t._incoming_from_json(ex['json'])
            got = new_items[0]
            canon = lambda d: {k: [r.run_id for r in d[k]] for k in ('completed', 'halted', 'updated')}  # noqa
            if canon(want) != canon(got) or got.get('pad') != want.get('pad'):
                bad('delivered-wrong-payload', 'queued payload differs from the one sent')
        if obs['reads'] != ex['reads']:
            bad('reads-differ', 'delivered after %d reads, the bytes were available in %d' % (obs['reads'], ex['reads']))
    elif ex.get('kind') == 'giveup':
        if obs['out'] == 'accepted' or new_items:
            bad('delivered-truncated', 'a truncated message was accepted / queued')
        elif obs['out'] != 'rejected-timeout':
            bad('truncated-not-timeout', 'a truncated message ended with %s instead of the timeout error' % obs['out'])
        if obs['after'] != obs['before']:
            bad('truncated-changed-state', 'peer table / queue changed by a truncated message')
        fr = first_reach(conn['clock'], conn['accepted'])
        if fr is not None and obs['clock_used'] == fr + 1 and obs['reads'] > fr and not obs['ended_silent']:
            # the clock said "time is up" before the (fr+1)-th read: every read after that keeps the listener on a connection
            # it has already given up (and waits up to a whole read timeout each)
            bad('read-after-give-up', 'the timeout was reached after %d reads, yet the handler read %d times from the connection '
                                      'before leaving it' % (fr, obs['reads']))
        if fr is not None and obs['clock_used'] > fr + 1:
            bad('give-up-too-late', 'handler consumed %d clock readings, the timeout was reached at reading %d'
                % (obs['clock_used'], fr + 1))
        last = conn['clock'][obs['clock_used'] - 1] if obs['clock_used'] else conn['accepted']
        sock_to = obs['settimeouts'][-1] if obs['settimeouts'] else None
        gave_up = last + (sock_to if obs['ended_silent'] else 0)
        if obs['ended_silent'] and (sock_to is None or sock_to > T_RECV):
            bad('socket-timeout-too-long', 'receive timeout on the accepted socket is %r' % (sock_to,))
        # the bound: < 2 * timeout after the accept when consecutive readings are at most `timeout` apart
        steps_ok = all(b - a <= T_RECV for a, b in zip([conn['accepted']] + conn['clock'], conn['clock'][:obs['clock_used']]))
        if steps_ok and not (gave_up - conn['accepted'] < 2 * T_RECV):
            bad('give-up-bound-exceeded', 'gave up %d s after the accept (bound: < %d)' % (gave_up - conn['accepted'], 2 * T_RECV))
    return v


def rig_table_at(obs_list, ci, rig):
    """peer table / queue length at the time of the ci-th accept (an accept timeout changes nothing)."""
    for o in reversed(obs_list[:ci]):
        if o is not None:
            return o['after']
    for o in obs_list[ci + 1:]:
        if o is not None:
            return o['before']
    return (rig.table(), rig.qlen())


def run_cases(ctx: Ctx, case_iter, res: Result, oracle=oracle_conn):
    """drive the real handler and the model over the cases; shared by C10 and C11."""
    lines, impl_out, owners = [], [], []
    ncases = 0
    for case in case_iter:
        rig = Rig(case['recv_bytes'], case.get('queue_cap', 0), aes_key=case.get('rig_key', AES_KEY))
        ls, n_setup = model_lines_for_case(rig, case)
        for k, l in enumerate(ls[:n_setup]):
            lines.append(l)
            impl_out.append('ok')
            owners.append(ncases)
        nontrivial = False
        if case.get('via_accept_loop'):
            obs_list, end, info = rig.serve(case['conns'])
            res.count('accept_loop_' + end)
            if end != 'returned' or info['unserved'] or info['listener_closed'] != 1:
                rep = dict(case)
                sig = 'silent-peer-blocks-listener' if end == 'blocked' else 'listener-thread-ended'
                res.violations.append(Violation(sig, 'the real accept loop _tcp_incoming ended with %s after %d of %d accepts '
                                                '(listening socket closed %d times)' % (end, len(obs_list), len(case['conns']),
                                                                                       info['listener_closed']), rep))
            for ci, (conn, obs) in enumerate(zip(case['conns'], obs_list)):
                if conn is None:
                    lines.append('accepttimeout')
                    impl_out.append('rejected-socktimeout reads=0 caught=1 peers=%s queue=%d' % (rig_table_at(obs_list, ci, rig)))
                    owners.append(ncases)
                    continue
                lines.append(conn_line(conn))
                impl_out.append(impl_line(obs))
                owners.append(ncases)
                for viol in oracle(case, conn, obs, rig, None):
                    res.violations.append(viol)
                res.count('outcome_' + obs['out'])
                nontrivial = True
        else:
            for ci, conn in enumerate(case['conns']):
                items_before = rig.queue_items()
                obs = rig.call(conn)
                lines.append(ls[n_setup + ci])
                impl_out.append(impl_line(obs))
                owners.append(ncases)
                for viol in oracle(case, conn, obs, rig, items_before):
                    res.violations.append(viol)
                res.count('outcome_' + obs['out'])
                if len(conn['script']) > 1 or obs['out'] != 'accepted':
                    nontrivial = True
        if case.get('drain'):
            queued = rig.qlen()
            err = rig.drain()
            res.count('drain_' + (err or 'ok'))
            if len(rig.rec.calls) > queued:
                res.violations.append(Violation('decider-reached-without-accepted-message',
                                                '%d subscriber calls for %d accepted SYNC/RESYNC messages' % (len(rig.rec.calls), queued),
                                                dict(case)))
        slim = {k: v for k, v in case.items() if k not in ('sealed', 'jsons', 'conns')}
        slim['n_conns'] = len(case['conns'])
        slim['scripts'] = [[(x[0], len(x[1]) // 2) if x[0] == 'c' else x[0] for x in c['script']][:8]
                           for c in case['conns'] if c is not None][:3]
        res.add_case(slim, nontrivial=nontrivial)
        res.count('kind_' + case['kind'])
        res.count('recv_bytes_%d' % case['recv_bytes'])
        ncases += 1
        if len(res.violations) > 40:
            break
    if ctx.model_available():
        model_out = run_model('frame', lines)
        res.traces_validated += ncases
        for k, (a, b) in enumerate(zip(model_out, impl_out)):
            if a != b:
                res.disagreements.append({'op_index': k, 'op': lines[k][:300], 'model': a, 'impl': b, 'case_no': owners[k]})
                if len(res.disagreements) > 5:
                    break
    else:
        res.notes.append('model driver unavailable: correspondence not run')
        res.disagreements.append({'correspondence': 'frame', 'error': 'model driver did not build'})
    return res


def two_receivers(res, rng):
    """two instances in one process (two devices of a test bed, or an application hosting two) receive at the same time:
    the second connection is served on a second thread, started at every read of the first (harness/interleave.py) —
    both messages must be delivered whatever the cuts."""
    from harness import interleave as il
    msgs = [(msg, seal(msg[1], rng_nonce(rng))) for msg in valid_plaintexts()]
    picks = [(msgs[1], [40]), (msgs[3], [1]), (msgs[-1], [60, 300]), (msgs[2], [len(msgs[2][1]) - 3])]
    for (msg, m), cuts in picks:
        other_msg, other_m = msgs[-2]

        class Sys:
            pass

        def build():
            s = Sys()
            s.a, s.b = Rig(64, 0), Rig(2048, 0)
            s.out = {}
            return s
        ca = deliver_case('two-receivers', 64, msg, m, [c for c in cuts if 0 < c < len(m)], rng)['conns'][0]
        cb = deliver_case('two-receivers', 2048, other_msg, other_m, [len(other_m) // 2], rng)['conns'][0]
        holder = {}

        def opx(s):
            holder['sched'] = getattr(s, 'sched', None)
            s.out['a'] = s.a.call(ca)['out']

        def opy(s):
            s.out['b'] = s.b.call(cb)['out']

        def obs(s):
            return (s.out.get('a'), s.out.get('b'), s.a.t._queue_incoming.qsize(), s.b.t._queue_incoming.qsize())

        def set_sched_factory(s_obj):
            def set_sched(sc):
                me = __import__('threading').current_thread()
                ScriptSock.on_recv = lambda: sc.point()
            return set_sched

        def build2():
            s = build()
            s.set_sched = set_sched_factory(s)
            return s
        try:
            v, st = il.explore(build2, opx, opy, obs, two_preemptions=False, max_runs=60)
        finally:
            ScriptSock.on_recv = None
        res.add_case({'kind': 'two-receivers', 'len': len(m), 'cuts': cuts}, nontrivial=True)
        res.count('two_receivers_interleavings', st['runs'])
        if v is not None:
            res.violations.append(Violation(
                'dropped-complete-message',
                f"two instances receiving at the same time ({len(m)}-byte message cut at {cuts} on one, a {len(other_m)}-byte message in two "
                f"reads on the other, the second connection served at read #{v['k']} of the first): outcomes {v['got']}; served one after "
                f"the other: {v['allowed'][0]}", {'kind': 'two-receivers', 'k': v['k']}))
            return


def long_message_small_reads(res):
    """"for every message length": a megabyte-sized snapshot arriving in 32-byte reads.  The clock double shows the
    acceptance time plus the PROCESSOR time this thread has spent since (the network itself is infinitely fast here), so the
    only way the receive timeout can fire is the handler's own work per read growing with what has already arrived.
    Runtime behaviour, not a theorem: the work the unchanged handler does is a few per cent of the timeout, what a per-read
    copy of the whole buffer costs is several times the timeout."""
    import time as _time
    case = {'kind': 'long-message-small-reads', 'pad': 3_000_000, 'recv_bytes': 32}
    res.add_case(case, nontrivial=True)
    res.count('long_message_small_reads')
    m = seal('b kb 2 0 ' + payload_json(n_updated=1, pad=case['pad']), b'\x07' * 16)
    rig = Rig(32, 0)

    class Stream:
        def __init__(self, data):
            self.data, self.at, self.closed, self.reads = memoryview(data), 0, 0, 0

        def settimeout(self, t):
            pass

        def recv(self, n):
            self.reads += 1
            out = bytes(self.data[self.at:self.at + n])
            self.at += len(out)
            if not out:
                raise socket.timeout('timed out')
            return out

        def close(self):
            self.closed += 1

    class CpuClock:
        def __init__(self):
            self.t0 = _time.thread_time()

        def time(self):
            return ACCEPTED + 0.5 + (_time.thread_time() - self.t0)
    s = Stream(m)
    before = rig.t._queue_incoming.qsize()
    old = tcp_mod.time
    clock = CpuClock()
    tcp_mod.time = clock
    try:
        try:
            rig.t._tcp_incoming_handle_client(s, '10.0.0.2', ACCEPTED)
            out = 'accepted'
        except BaseException as e:   # noqa
            out = exc_enum(e)
    finally:
        tcp_mod.time = old
    spent = _time.thread_time() - clock.t0
    res.count('long_message_cpu_ms', int(spent * 1000))
    if rig.t._queue_incoming.qsize() != before + 1:
        res.violations.append(Violation(
            'dropped-complete-message',
            f"a {len(m)}-byte message delivered completely in 32-byte reads ({s.reads} reads, {s.at} bytes read) was not applied: the "
            f"handler ended with {out} after {spent:.1f} s of its own processor time (receive timeout {T_RECV} s; the same bytes in "
            f"large reads are applied)", case))


def run(ctx: Ctx) -> Result:
    res = Result()
    if ctx.replay is not None and ctx.replay['replay'].get('kind') == 'long-message-small-reads':
        long_message_small_reads(res)
        return res
    if ctx.replay is not None and ctx.replay['replay'].get('kind') == 'two-receivers':
        two_receivers(res, ctx.rng)
        return res
    if ctx.replay is not None:
        return run_cases(ctx, [ctx.replay['replay']], res)
    extra = []
    if F9_CORPUS.exists():
        extra.append(f9_case(json.loads(F9_CORPUS.read_text())))
        res.notes.append('F9 witness replayed from harness/corpus/C10/f9_witness.json')
    elif ctx.thorough:
        w = f9_search(120)
        if w is not None:
            extra.append(f9_case(w))
            res.notes.append('F9 witness found by nonce search: %r' % (w,))
        else:
            res.notes.append('F9: no ciphertext with the marker at a boundary found within the budget')
    run_cases(ctx, list(cases(ctx)) + extra, res)
    two_receivers(res, ctx.rng)
    long_message_small_reads(res)
    res.exhaustive = True
    return res


def search(ctx: Ctx) -> Result:
    """failing-input search on the real code alone: every cut of six message lengths with the last read of
    1 … min_length−1 bytes included (recv_bytes 64 and 2048), truncations closed and silent."""
    res = Result()
    rng = ctx.rng
    found = set()

    def go(case):
        rig = Rig(case['recv_bytes'])
        for conn in case['conns']:
            items_before = rig.queue_items()
            obs = rig.call(conn)
            res.evaluations += 1
            for viol in oracle_conn(case, conn, obs, rig, items_before):
                if viol.sig not in found:
                    found.add(viol.sig)
                    res.violations.append(viol)

    msgs = [(msg, seal(msg[1], rng_nonce(rng))) for msg in valid_plaintexts()[:6]]
    for msg, m in msgs:
        for rb in (64, 2048):
            for k in range(1, len(m)):
                go(deliver_case('search-cut2', rb, msg, m, [k], rng))
            go(deliver_case('search-whole', rb, msg, m, [], rng))
        for j in range(0, len(m), 7):
            for tail in ('eof', 'silent'):
                go(truncated_case(64, msg, m, j, tail, rng))
        if len(res.violations) >= 3:
            break
    return res


SPEC = PropSpec(
    prop='C10',
    translators=['frame'],
    run=run,
    search=search,
    rule='(runtime probe, not a theorem: a 3 MB message in 32-byte reads under a clock showing the handler thread\'s own processor time) '
         'valid messages produced by the real encrypt (13 lengths 52 … 4100: every residue of len mod 64, last reads of 4/20/36 bytes '
         'with recv_bytes 2048): all two-way cuts (windows around both ends and the read boundaries for messages > 700 bytes in quick), '
         'all three-way cuts of the two shortest, uniform read sizes 1..64, seeded random cuts (1-6 cut points, recv_bytes 17/64/2048, '
         'new sender addresses), truncation at every byte of one message (three in thorough) closed and silent, under non-monotone '
         'clocks below the timeout; non-trivial = more than one read or not accepted; distinct = distinct (message, cuts, tail, clock)',
    trusted_base=['the scripted socket/clock doubles of harness/props/c10.py stand for the kernel: recv(n) returns at most n bytes of what '
                  'has arrived, b"" once the peer closed, and raises socket.timeout after the timeout set with settimeout (blocks forever '
                  'if none was set)',
                  'silent_bounded takes "consecutive clock readings are at most timeout_receive apart" as hypothesis: it holds because '
                  'every recv on the accepted socket returns within the timeout set by settimeout (checked by translate/frame.py and by '
                  'the oracle on every silent case)'],
    assumptions=['NoEarlyFrame: no proper prefix of the message of length >= min_length ends in the marker BOBO at a read boundary '
                 '(finding F9: probability about 2^-32 per boundary; forced by the framing, shown by noEarlyFrame_forced)',
                 'time.time() is only read once per loop iteration; int() truncation makes all bounds accurate to one second',
                 'recv_bytes >= 1'],
    model_covers='_tcp_incoming_handle_client: the receive loop (elapsed test, recv with cap and remainder, accumulate, end-of-message '
                 'test, socket timeout) — expressions generated from /repo and proved equal to the model; outcome, number of reads, '
                 'peer table and queue length compared with the real handler on every case',
)
