"""
C16 — Generated identifiers never repeat.

D-tie: the real BoboGenEventIDUnique is driven with scripted clock readings
(the module-level `time` name of bobocep.cep.gen.event_id is replaced), the
same readings are piped to the Lean model (`bobodrv idgen`), and the returned
strings are compared.  Oracle (independent of the model): all ids returned by
one generator are pairwise distinct; ids of generators with different
prefixes are disjoint.
"""
import itertools
import threading

from harness.core import PropSpec, Result, Violation, Ctx, run_model

import bobocep.cep.gen.event_id as event_id_mod
from bobocep.cep.gen.event_id import BoboGenEventIDUnique


class Clock:
    def __init__(self):
        self.readings = []
        self.i = 0

    def __call__(self):
        v = self.readings[self.i]
        self.i += 1
        return float(v) + 0.25  # int(time()) truncates


def impl_ids(urn, readings):
    clock = Clock()
    clock.readings = list(readings)
    old = event_id_mod.time
    event_id_mod.time = clock
    try:
        g = BoboGenEventIDUnique(urn)
        return [g.generate() for _ in readings]
    finally:
        event_id_mod.time = old


def steps_to_readings(start, steps):
    out = []
    t = start
    for s in steps:
        t += s
        out.append(t)
    return out


def oracle(ids):
    return len(set(ids)) == len(ids)


def cases(ctx: Ctx):
    """(urn, readings) cases: corpus first, then exhaustive step sequences, then random."""
    yield ('u', [10, 10, 9, 10])            # F10 witness
    yield (None, [10, 10, 9, 10])
    yield ('a_1', [5, 4, 5, 4, 5])
    yield (None, [0, 0, -1, 0])
    # bursts: "any number of requests within the same second" -- counters past 10^k boundaries, then the next seconds
    for burst in (9, 10, 11, 99, 100, 101, 999, 1000, 1001, 1100):
        yield ('b', [7] * burst + [8, 8, 9])
        yield (None, [7] * burst + [8, 6, 8, 9])
    maxlen = 8 if ctx.thorough else 6
    for n in range(1, maxlen + 1):
        for steps in itertools.product((-2, -1, 0, 1, 2), repeat=n):
            yield ('d', steps_to_readings(100, steps))
    rng = ctx.rng
    for _ in range(3000 if ctx.thorough else 400):
        n = rng.randint(10, 60)
        steps = [rng.choice((-2, -1, 0, 0, 0, 1, 1, 2, -30, 40)) for _ in range(n)]
        urn = rng.choice([None, 'u', 'x_y', 'dev_1_2', '7', '_'])
        yield (urn, steps_to_readings(rng.randint(0, 10 ** 9), steps))


def run(ctx: Ctx) -> Result:
    res = Result()
    if ctx.replay is not None and 'rle' in ctx.replay['replay']:
        cs = [(ctx.replay['replay']['urn'], unrle(ctx.replay['replay']['rle']))]
    elif ctx.replay is not None:
        cs = [(ctx.replay['replay']['urn'], ctx.replay['replay']['readings'])]
    else:
        cs = list(cases(ctx))
    lines = []
    impl_out = []
    for urn, readings in cs:
        ids = impl_ids(urn, readings)
        case = {'urn': urn, 'readings': readings}
        back = any(b < a for a, b in zip(readings, readings[1:]))
        same = any(b == a for a, b in zip(readings, readings[1:]))
        res.add_case(case, nontrivial=back or same)
        res.count('clock_steps_back' if back else 'clock_monotone')
        if same:
            res.count('same_second_twice')
        res.count('prefix_' + ('none' if urn is None else 'some'))
        if not oracle(ids):
            dup = sorted({i for i in ids if ids.count(i) > 1})
            res.violations.append(Violation(
                sig='duplicate-id', what=f"generator returned {dup[0]!r} more than once under clock {readings[:12]}",
                replay={**case, 'ids': ids}))
        lines.append('new ' + ('-' if urn is None else urn))
        impl_out.append('ok')
        for t, i in zip(readings, ids):
            lines.append(f'gen {t}')
            impl_out.append(i)
    # prefix disjointness on the real generators, same clock
    # (prefixes that some normalisation would identify are DIFFERENT prefixes: letter case, surrounding blanks, composed /
    # decomposed accents, a trailing separator, an empty prefix against none)
    for (u1, u2) in [('a', 'a_1'), (None, 'a'), ('1', None), ('x_1', 'x'), ('urn:x:Lab:1', 'urn:x:lab:1'), ('Dev', 'dev'),
                     ('URN:x', 'urn:x'), (' a', 'a'), ('a ', 'a'), ('caf\u00e9', 'cafe\u0301'), ('a_', 'a'), ('', None),
                     ('a:b', 'a:B'), ('\uff41', 'a'), ('a\u200b', 'a'),
                     # prefixes that some templating would expand: the prefix is text, not a pattern
                     ('edge-{seq}', 'edge-0'), ('edge-{sec}', 'edge-1'), ('a{}', 'a1'), ('{{', '{'), ('a%d', 'a1'), ('%s', '1'),
                     ('{0}', '1'), ('a{count}', 'a0'), ('a{last}', 'a1'), ('$x', 'x'), ('a\\1', 'a1')] + _case_variants():
        r = steps_to_readings(1, [0, 1, 0, 0, 1, -1, 0, 11, 0])
        try:
            i1, i2 = impl_ids(u1, r), impl_ids(u2, r)
        except Exception as e:      # noqa
            res.add_case({'prefixes': [u1, u2], 'readings': r})
            res.violations.append(Violation('prefix-raises', f"generate() with prefix {u1!r} / {u2!r} raised {type(e).__name__}: {e}",
                                            {'prefixes': [u1, u2], 'readings': r}))
            continue
        res.add_case({'prefixes': [u1, u2], 'readings': r})
        if set(i1) & set(i2):
            res.violations.append(Violation('prefix-collision', f"prefixes {u1!r} and {u2!r} share {sorted(set(i1) & set(i2))[:2]}",
                                            {'prefixes': [u1, u2], 'readings': r}))
    # generators as the setup classes build them: every instance's event and run identifiers carry its own URN
    for v in setup_prefix_violations():
        res.violations.append(v)
    res.add_case({'setup': 'BoboSetupSimple / BoboSetupSimpleDistributed generators of two instances'})
    # busy seconds around the integer constants of the module (and, thorough, around 2^16 and 10^5)
    if ctx.replay is None:
        consts = sorted(set(source_constants() + ([65536, 100000] if ctx.thorough else [])))
        v = busy_violation(consts, res) or jump_violation(source_constants(big=True), res, 7 if ctx.thorough else 6)
        res.add_case({'busy_seconds_around': consts})
        res.count('busy_second_scripts', 7 * 2 * len(consts))
        if v is not None:
            res.violations.append(v)
    # concurrent callers on real threads under a jittering patched clock (monitored residue)
    if ctx.replay is None:
        ids = threaded_ids(8, 2000 if ctx.thorough else 300, ctx.rng)
        res.add_case({'threads': 8, 'calls': len(ids)})
        res.count('threaded_calls', len(ids))
        if not oracle(ids):
            res.violations.append(Violation('duplicate-id', 'duplicate id from concurrent callers', {'threads': 8}))
        for desc, ids in injected_ids():
            res.add_case({'injected': desc})
            res.count('injected_interleavings')
            if not oracle(ids):
                dup = sorted({i for i in ids if ids.count(i) > 1})[:3]
                res.violations.append(Violation('duplicate-id', f'duplicate identifiers {dup}: {desc}', {'injected': desc}))
                break
        v, st = explore_two_callers()
        res.add_case({'explored': 'two callers', 'points': st['points'], 'runs': st['runs']})
        res.count('explored_interleavings', st['runs'])
        if v is not None:
            res.violations.append(Violation('duplicate-id', f"two callers of one generator (urn={v['urn']!r}, {v['warm']} earlier requests, second "
                                            f"caller {v['dt']} s later) started at scheduling point {v['k']} of the first: identifiers "
                                            f"{v['ids']} ({v['note']})", {'explored': True, 'k': v['k'], 'urn': v['urn'], 'warm': v['warm'], 'dt': v['dt']}))
        # the same with the generator's integer fields turned into points where a thread gives way to the others
        ids = threaded_ids(4, 1200 if ctx.thorough else 120, ctx.rng, perturb=True)
        res.add_case({'threads': 4, 'calls': len(ids), 'perturbed': True})
        res.count('threaded_calls_perturbed', len(ids))
        if not oracle(ids):
            dup = sorted({i for i in ids if ids.count(i) > 1})[:3]
            res.violations.append(Violation('duplicate-id', f'duplicate identifiers {dup} from 4 concurrent callers (threads made to give way '
                                            f'at every access to the remembered second / counter): the read-modify-write is not '
                                            f'mutually exclusive', {'threads': 4, 'perturbed': True}))
    # correspondence with the model
    if ctx.model_available():
        model_out = run_model('idgen', lines)
        res.traces_validated = len(cs)
        for k, (a, b) in enumerate(zip(model_out, impl_out)):
            if a != b:
                res.disagreements.append({'op_index': k, 'op': lines[k], 'model': a, 'impl': b})
                if len(res.disagreements) > 5:
                    break
    else:
        res.notes.append('model driver unavailable: correspondence not run')
        res.disagreements.append({'correspondence': 'idgen', 'error': 'model driver did not build'})
    res.exhaustive = True
    return res


def setup_prefix_violations():
    """two engines built by the setup classes with different URNs, same (frozen) clock: no identifier of one instance
    (run identifiers of the decider, event identifiers of receiver / producer / forwarder) equals one of the other."""
    from bobocep.setup.simple import BoboSetupSimple, BoboSetupSimpleDistributed
    from bobocep.cep.action.handler import BoboActionHandlerBlocking
    from bobocep.cep.phenom import BoboPhenomenon
    from bobocep.cep.phenom.pattern.builder import BoboPatternBuilder
    from bobocep.dist.device import BoboDevice
    out = []

    def phen():
        pat = BoboPatternBuilder('p').followed_by(lambda e, h: e.data == 1).followed_by(lambda e, h: e.data == 2).generate()
        return [BoboPhenomenon(name='ph', patterns=[pat], action=None)]

    def gens_of(engine):
        found = {}
        for comp in (engine.receiver, engine.decider, engine.producer, engine.forwarder):
            for attr, val in vars(comp).items():
                if isinstance(val, BoboGenEventIDUnique):
                    found[f"{comp.__class__.__name__}.{attr}"] = val
        return found

    clock = Clock()
    clock.readings = [500] * 4000
    old = event_id_mod.time
    event_id_mod.time = clock
    try:
        devices = [BoboDevice('127.0.0.1', 9301, 'urn_a', 'k1'), BoboDevice('127.0.0.1', 9302, 'urn_b', 'k2')]
        builds = {
            'simple': [BoboSetupSimple(phenomena=phen(), handler=BoboActionHandlerBlocking(), urn=u).generate() for u in ('urn_a', 'urn_b')],
            'distributed': [BoboSetupSimpleDistributed(phenomena=phen(), handler=BoboActionHandlerBlocking(), urn=u, devices=devices,
                                                       aes_key='0123456789abcdef').generate()[0] for u in ('urn_a', 'urn_b')],
        }
        for kind, (ea, eb) in builds.items():
            ga, gb = gens_of(ea), gens_of(eb)
            if not ga or set(ga) != set(gb):
                out.append(Violation('setup-generators-not-found', f"{kind}: identifier generators found: {sorted(ga)} / {sorted(gb)}", {'setup': kind}))
                continue
            ids_a = {k: [g.generate() for _ in range(3)] for k, g in ga.items()}
            ids_b = {k: [g.generate() for _ in range(3)] for k, g in gb.items()}
            for ka, la in ids_a.items():
                for kb, lb in ids_b.items():
                    common = set(la) & set(lb)
                    if common:
                        out.append(Violation(
                            'prefix-collision',
                            f"{kind} setup: instance urn_a's {ka} and instance urn_b's {kb} both issued {sorted(common)[0]!r} in the same second "
                            f"(the generators of an instance must carry its URN)", {'setup': kind, 'a': ka, 'b': kb}))
                        return out
    finally:
        event_id_mod.time = old
    return out


def yielding(g):
    """make every integer field of the generator a point where the running thread gives way to the others (its reads
    and writes sleep for a moment): without mutual exclusion around the read-modify-write of the remembered second and
    the counter two callers then interleave inside it almost surely; with it they cannot (the others wait for the lock).
    The fields are found by inspection, whatever they are called."""
    import time as _t
    fields = [k for k, v in vars(g).items() if isinstance(v, int) and not isinstance(v, bool)]
    store = {k: vars(g).pop(k) for k in fields}
    ns = {}
    tick = [0]

    def nap():
        # naps of varying length (0 .. 0.9 ms, a fixed pseudo-random sequence): the order in which callers wake up varies
        tick[0] = (tick[0] * 1103515245 + 12345) % (1 << 31)
        return (tick[0] >> 16) % 10 * 0.0001
    for k in fields:
        def getter(self, k=k):
            _t.sleep(nap())           # before the read: what is read may already be another caller's update ...
            v = store[k]
            _t.sleep(nap())           # ... and after it: what was read may be stale when it is used
            return v

        def setter(self, v, k=k):
            store[k] = v
            _t.sleep(nap())
        ns[k] = property(getter, setter)
    g.__class__ = type(g.__class__.__name__ + 'Yielding', (g.__class__,), ns)
    return g


def injected_ids():
    """deterministic two-caller interleavings: a second caller's COMPLETE request (after the clock moved to the next second,
    or within the same second) is run exactly when the first caller is just about to take the generator's lock, and
    exactly when it has just released it — the two places where a caller that does part of its work outside the lock is
    exposed.  The lock is found by inspection (whatever it is called) and wrapped; the second request runs on the same
    thread, which is legitimate because the lock is not held at those two points.  Returns [(description, ids)]."""
    out = []
    for urn in (None, 'u'):
        for warm in (0, 1, 3):
            for where in ('before-acquire', 'after-release'):
                for dt in (1, 0):
                    state = {'t': 500.0, 'armed': False}
                    old = event_id_mod.time
                    event_id_mod.time = lambda: state['t']
                    try:
                        g = BoboGenEventIDUnique(urn) if urn is not None else BoboGenEventIDUnique()
                        lock_names = [k for k, v in vars(g).items() if hasattr(v, 'acquire') and hasattr(v, 'release')]
                        ids = [g.generate() for _ in range(warm)]
                        extra = []

                        def other():
                            if state['armed']:
                                state['armed'] = False
                                state['t'] += dt
                                extra.append(g.generate())
                                extra.append(g.generate())

                        class Wrapped:
                            def __init__(self, real):
                                self.real = real

                            def __enter__(self):
                                if where == 'before-acquire':
                                    other()
                                return self.real.__enter__()

                            def __exit__(self, *a):
                                r = self.real.__exit__(*a)
                                if where == 'after-release':
                                    other()
                                return r

                            def acquire(self, *a, **k):
                                if where == 'before-acquire':
                                    other()
                                return self.real.acquire(*a, **k)

                            def release(self):
                                self.real.release()
                                if where == 'after-release':
                                    other()
                        for k in lock_names:
                            setattr(g, k, Wrapped(getattr(g, k)))
                        state['armed'] = True
                        first = g.generate()
                        ids += extra + [first, g.generate()]
                        out.append((f"urn={urn!r}, {warm} earlier requests in the second, a second caller's two requests "
                                    f"{'one second later ' if dt else ''}{where.replace('-', ' ')} of the lock by the first", ids))
                    finally:
                        event_id_mod.time = old
    return out


def explore_two_callers():
    """two callers of ONE generator, the second started at every scheduling point of the first (harness/interleave.py:
    lock boundaries, creation of locks, every field access): the identifiers handed out must be those of one of the two
    serial orders.  Returns a violation dict or None, and statistics."""
    from harness import interleave as il
    out = None
    stats_all = {'points': 0, 'runs': 0}
    for urn in (None,):
        for warm in (0, 2):
            for dt in (0, 1):
                class Sys:
                    pass

                def build():
                    s = Sys()
                    s.t = [700.0]
                    s.g = BoboGenEventIDUnique(urn) if urn is not None else BoboGenEventIDUnique()
                    s.ids = []
                    return s

                def first(s):
                    for _ in range(warm):
                        s.g.generate()
                    s.ids.append(s.g.generate())

                def second(s):
                    s.t[0] += dt
                    s.ids.append(s.g.generate())
                    s.ids.append(s.g.generate())

                def observe(s):
                    return (len(set(s.ids)) == len(s.ids), len(s.ids))
                holder = {}
                old = event_id_mod.time
                event_id_mod.time = lambda: holder['s'].t[0]

                def build2():
                    holder['s'] = build()
                    return holder['s']
                try:
                    v, st = il.explore(build2, first, second, observe, locks_of=lambda s: [s.g], fields_of=lambda s: [s.g], modules=[event_id_mod],
                                       extra_allowed=[(True, 3)], max_runs=600)
                finally:
                    event_id_mod.time = old
                stats_all['runs'] += st['runs']
                stats_all['points'] = max(stats_all['points'], st['points'])
                if v is not None and out is None:
                    out = dict(v, urn=urn, warm=warm, dt=dt, ids=list(holder['s'].ids))
    return out, stats_all


def threaded_ids(nthreads, per, rng, perturb=False):
    lock = threading.Lock()
    state = {'t': 1000}

    def clock():
        with lock:
            state['t'] += rng.choice((-1, 0, 1, 0, 1) if perturb else (-1, 0, 0, 0, 1))    # more new seconds when perturbed
            return float(state['t'])
    old = event_id_mod.time
    event_id_mod.time = clock
    try:
        g = BoboGenEventIDUnique('thr')
        if perturb:
            g = yielding(g)
        out = [[] for _ in range(nthreads)]

        def work(k):
            for _ in range(per):
                out[k].append(g.generate())
        ts = [threading.Thread(target=work, args=(k,)) for k in range(nthreads)]
        [t.start() for t in ts]
        [t.join() for t in ts]
        return [i for o in out for i in o]
    finally:
        event_id_mod.time = old


def _case_variants():
    """URN-shaped prefixes that differ in the letter case of ONE OR MORE of their colon-separated fields (scheme, namespace,
    the rest): whatever "canonical form" a standard defines for part of a URN, two different strings are two prefixes"""
    import itertools
    out = []
    for base in ('URN:Plant:Node-1:X', 'Urn:BoboCEP:Device:7'):
        f = base.split(':')
        for mask in itertools.product((0, 1, 2), repeat=len(f)):
            v = ':'.join((x, x.lower(), x.upper())[m] for x, m in zip(f, mask))
            if v != base:
                out.append((base, v))
        out.append((base.lower(), base.upper()))
    return out


def source_constants(big=False):
    """integer literals of the generator's module (a bound on the counter, a modulus, a width …): the request counts at
    which the generator could start to behave differently"""
    import ast
    from harness import core
    try:
        tree = ast.parse((core.REPO / 'bobocep/cep/gen/event_id.py').read_text())
    except Exception:   # noqa
        return []
    def fold(n):
        """value of an integer expression written out of literals (12 * 60 * 60, 1 << 16, 10 ** 6 - 1 …), else None"""
        if isinstance(n, ast.Constant):
            return n.value if type(n.value) is int else None
        if isinstance(n, ast.UnaryOp) and isinstance(n.op, ast.USub):
            v = fold(n.operand)
            return None if v is None else -v
        if isinstance(n, ast.BinOp):
            a, b = fold(n.left), fold(n.right)
            if a is None or b is None:
                return None
            try:
                if isinstance(n.op, ast.Add):
                    return a + b
                if isinstance(n.op, ast.Sub):
                    return a - b
                if isinstance(n.op, ast.Mult):
                    return a * b
                if isinstance(n.op, ast.FloorDiv):
                    return a // b
                if isinstance(n.op, ast.LShift) and 0 <= b <= 40:
                    return a << b
                if isinstance(n.op, ast.Pow) and 0 <= b <= 12 and abs(a) <= 1000:
                    return a ** b
            except Exception:   # noqa
                return None
        return None
    out = set()
    for n in ast.walk(tree):
        v = fold(n) if isinstance(n, (ast.Constant, ast.BinOp)) else None
        if v is not None and 2 <= abs(v) <= 2_000_000:
            out.add(abs(v))
    # … and the numbers the IMPORTED module holds, however they were computed (timedelta(days=365).total_seconds(), a value
    # read from another module …): module globals, class attributes, attributes of a fresh generator
    try:
        import datetime
        import bobocep.cep.gen.event_id as mod
        holders = [vars(mod)] + [vars(c) for c in vars(mod).values() if isinstance(c, type) and c.__module__ == mod.__name__]
        for c in vars(mod).values():
            if isinstance(c, type) and c.__module__ == mod.__name__ and not getattr(c, '__abstractmethods__', None):
                try:
                    holders.append(vars(c()))
                except Exception:   # noqa
                    pass
        for h in holders:
            for v in h.values():
                if isinstance(v, datetime.timedelta):
                    v = v.total_seconds()
                if isinstance(v, (int, float)) and not isinstance(v, bool) and v == v and 2 <= abs(v) <= 10 ** 12:
                    out.add(int(abs(v)))
    except Exception:   # noqa
        pass
    return sorted(v for v in out if big or v <= 2_000_000)


def unrle(rle):
    out = []
    for v, k in rle:
        out += [v] * k
    return out


def busy_seconds(consts):
    """run-length coded clock scripts in which one logical second serves more requests than each constant, with the
    clock at, one behind, two behind and ahead of that second when the count passes it"""
    for n in consts:
        for back in (0, 1, 2):
            # the clock goes `back` seconds back, then stands still while n+3 requests arrive, then moves on
            yield [[1000, 1], [1000 - back, n + 3], [1001, 2], [1002, 1]]
            yield [[1000, 1], [1000 - back, 2 * n + 5], [1001, 1]]
        yield [[1000, n // 2 + 1], [999, n // 2 + 3], [1000, n + 2], [1001, 2]]
        yield [[1000, n + 2], [1001, n + 2], [1000, 3], [1002, 1]]


def jump_violation(consts, res, maxlen):
    """every clock step sequence up to `maxlen` over {-(N+1), -1, 0, +1, +(N+1)} for each integer constant N of the module: the
    clock jumping further than any distance the code compares against, there and back, with busy and quiet seconds"""
    for n in consts:
        if n < 3:
            continue
        for k in range(2, maxlen + 1):
            for steps in itertools.product((0, -(n + 1), n + 1, 1, -1), repeat=k):
                if (n + 1) not in steps and -(n + 1) not in steps:
                    continue
                r = steps_to_readings(10 * (n + 1), steps)
                ids = impl_ids('j', r)
                res.evaluations += 1
                if not oracle(ids):
                    dup = sorted({i for i in ids if ids.count(i) > 1})
                    return Violation('duplicate-id', f"identifier {dup[0]!r} issued twice under clock {r}", {'urn': 'j', 'readings': r, 'ids': ids})
    return None


def busy_violation(consts, res):
    for rle in busy_seconds(consts):
        for urn in ('s', None):
            ids = impl_ids(urn, unrle(rle))
            res.evaluations += 1
            if not oracle(ids):
                seen, dup, first = {}, None, None
                for k, i in enumerate(ids):
                    if i in seen:
                        dup, first = i, (seen[i], k)
                        break
                    seen[i] = k
                return Violation('duplicate-id', f"identifier {dup!r} issued twice (requests #{first[0] + 1} and #{first[1] + 1}) under the clock "
                                 f"script (second, number of requests) {rle}", {'urn': urn, 'rle': rle})
    return None


def search(ctx: Ctx) -> Result:
    """failing-input search on the real code alone: busy seconds around every integer constant of the module and around
    2^16 / 10^5, then all step sequences over {-2..2} up to length 8."""
    res = Result()
    v = busy_violation(sorted(set(source_constants() + [65536, 100000])), res) or jump_violation(source_constants(big=True), res, 8)
    if v is not None:
        res.violations.append(v)
        return res
    for burst in (10, 11, 100, 101, 1000, 1001, 1100, 10001):
        for tail in ([8, 8, 9], [8, 6, 8, 9]):
            r = [7] * burst + tail
            ids = impl_ids('s', r)
            res.evaluations += 1
            if not oracle(ids):
                dup = sorted({i for i in ids if ids.count(i) > 1})
                res.violations.append(Violation('duplicate-id', f"identifier {dup[0]!r} issued twice: {burst} requests in one second, then clock {tail}",
                                                {'urn': 's', 'readings': r}))
                return res
    for v in setup_prefix_violations():
        res.violations.append(v)
        return res
    for n in range(1, 9):
        for steps in itertools.product((-2, -1, 0, 1, 2), repeat=n):
            r = steps_to_readings(50, steps)
            ids = impl_ids('s', r)
            res.evaluations += 1
            if not oracle(ids):
                res.violations.append(Violation('duplicate-id', f"duplicate id under clock {r}", {'urn': 's', 'readings': r, 'ids': ids}))
                return res
    return res


SPEC = PropSpec(
    prop='C16',
    translators=['idgen', 'locks'],
    run=run,
    search=search,
    rule='every clock step sequence over {-2,-1,0,+1,+2} up to length 6 (quick) / 8 (thorough) exhaustively, plus seeded random '
         'sequences of length 10-60 with large jumps and 6 prefixes, plus 8 real threads under a jittering patched clock; '
         'a case is non-trivial when the clock repeats a second or steps back; distinct = distinct (prefix, readings)',
    trusted_base=['the whole body of generate() runs under the generator lock (checked by translate/idgen.py), so concurrent '
                  'calls are equivalent to some sequential list of clock readings, and ids_distinct quantifies over all lists'],
    assumptions=['int(time()) is the only clock access of generate()', 'str.format renders ints in decimal'],
    model_covers='BoboGenEventIDUnique.generate: state update (generated + proved equal to the model) and id formatting',
)
