"""
C18 — Validators gate the stream consistently.

D-tie: the real validator classes are applied to generated Python values (JSON
and non-JSON), bare and wrapped in each of the three event kinds; the library
facts about each value (does json.dumps succeed, the jsonschema verdict,
isinstance / type ==, on the bare value and on the event object) are measured
directly by the harness and fed to the Lean model (`bobodrv validator`), whose
verdict is compared with the implementation's.  The real BoboReceiver is driven
with scripted id / timestamp generators and a recording subscriber; the same
add / update / close calls go to the model's receiver.

Oracle (independent of the model, evaluated on the implementation):
  (1) verdict(wrapped in any event kind) == verdict(bare);
  (2) accepted by a JSON validator  =>  BoboEventSimple(.., data).to_json_str(),
      the wrapping event's own to_json_str() and the tcp outgoing encoder all succeed;
  (3) the verdict is the documented one (All: True; JSONable: dumps succeeds; Type: some
      listed type matches (isinstance / exact type); JSONSchema: the schema accepts the data);
  (4) a recording subscriber of the receiver sees exactly the accepted items, in order:
      events as the same object (`is`), anything else wrapped in exactly one BoboEventSimple
      whose `data` is the same object and whose id / timestamp are the generators' next values.

Assumption: the datum carried by an event is not itself a BoboEvent (one level of wrapping).
"""
import collections
import decimal
import enum
import json
import random

import jsonschema

from harness.core import PropSpec, Result, Violation, Ctx, run_model, CORPUS

from bobocep.cep.engine.receiver.validator import (BoboValidatorAll, BoboValidatorJSONable, BoboValidatorType,
                                                   BoboValidatorJSONSchema)
from bobocep.cep.engine.receiver.receiver import BoboReceiver, BoboReceiverError
from bobocep.cep.engine.receiver.pubsub import BoboReceiverSubscriber
from bobocep.cep.engine.decider.runserial import BoboRunSerial
from bobocep.cep.event import BoboEvent, BoboEventSimple, BoboEventComplex, BoboEventAction, BoboHistory
from bobocep.cep.gen.event_id import BoboGenEventID
from bobocep.cep.gen.timestamp import BoboGenTimestamp
from bobocep.dist.tcp import BoboDistributedTCP

WRAPS = ['b', 's', 'c', 'a']


# --------------------------------------------------------------------------
# values
# --------------------------------------------------------------------------

class Custom:
    def __init__(self, x=0):
        self.x = x


class CustomStr(str):
    pass


class Record:
    """a plain user value that happens to have attributes named like an event's (it is NOT an event)"""

    def __init__(self, data, event_id='rec', timestamp=7):
        self.data, self.event_id, self.timestamp = data, event_id, timestamp


class Jsonish:
    """a plain user value offering `to_json_str()` (plain `dumps` does not know it)"""

    def to_json_str(self):
        return '{"a": 1}'


class Colour(enum.IntEnum):
    RED = 1


class MyDict(dict):
    pass


def deep_list(n, leaf=0):
    x = leaf
    for _ in range(n):
        x = [x]
    return x


def deep_dict(n):
    x = 0
    for _ in range(n):
        x = {'k': x}
    return x


def _cyclic_list():
    x = [1]
    x.append(x)
    return x


def _cyclic_dict():
    x = {'a': 1}
    x['self'] = x
    return x


def fixed_values():
    """(label, value) — JSON, lossy-JSON and non-JSON."""
    return [
        # JSON
        ('none', None), ('true', True), ('false', False), ('int0', 0), ('int5', 5), ('neg', -7), ('big', 10 ** 30),
        ('float', 1.5), ('str_empty', ''), ('str', 'abc'), ('str_unicode', 'héllo ☃'), ('str_surrogate', '\ud800'),
        ('list_empty', []), ('list_mixed', [1, 'a', None, 2.5, True]), ('list_ints', [1, 2, 3]),
        ('dict_empty', {}), ('dict_a_int', {'a': 1}), ('dict_a_str', {'a': 'x'}), ('dict_b', {'b': 2}),
        ('dict_nested', {'a': 1, 'x': [1, 2.5, 3]}), ('dict_x_bad', {'a': 1, 'x': [1, 'no']}),
        ('list_of_dicts', [{'a': 1}, {'a': [None]}]),
        ('deep_list_1000', deep_list(1000)), ('deep_dict_1000', deep_dict(1000)),
        # accepted by dumps although not faithful JSON
        ('nan', float('nan')), ('inf', float('inf')), ('neg_inf', float('-inf')), ('list_nan', [1.0, float('nan')]),
        ('tuple', (1, 2)), ('tuple_nested', (1, ('a', (None,)))), ('dict_tuple_value', {'a': (1, 2)}),
        ('key_int', {1: 2}), ('key_none', {None: 1}), ('key_bool', {True: 1}), ('key_float', {1.5: 2}),
        ('key_mixed_collide', {1: 'i', '1': 's'}), ('int_enum', Colour.RED), ('str_subclass', CustomStr('s')),
        ('dict_subclass', MyDict(a=1)), ('key_int_enum', {Colour.RED: 1}),
        # twins: different Python values with the SAME JSON text as a value above (whatever is remembered by JSON text,
        # repr or hash confuses them): list/tuple, str/int/None/bool keys, int/float/bool
        ('tuple_ints3', (1, 2, 3)), ('list_1_2', [1, 2]), ('dict_list_value', {'a': [1, 2]}), ('key_str_1', {'1': 2}),
        ('key_str_null', {'null': 1}), ('key_str_true', {'true': 1}), ('key_str_1_5', {'1.5': 2}), ('float_5', 5.0),
        ('int1', 1), ('float_1', 1.0), ('dict_a_true', {'a': True}), ('dict_a_float', {'a': 1.0}),
        ('tuple_mixed', (1, 'a', None, 2.5, True)), ('dict_nested_tuple', {'a': 1, 'x': (1, 2.5, 3)}),
        # not serialisable
        ('bytes', b'x'), ('bytearray', bytearray(b'y')), ('set', {1, 2}), ('frozenset', frozenset([1])),
        ('key_tuple', {(1, 2): 3}), ('key_bytes', {b'k': 1}), ('object', object()), ('custom', Custom(3)),
        ('class', Custom), ('lambda', (lambda: 0)), ('complex_number', 1j), ('decimal', decimal.Decimal('1.5')),
        ('range', range(3)), ('huge_int', 10 ** 5000), ('list_with_set', [1, {2}]), ('dict_with_bytes', {'a': {'b': [b'z']}}),
        ('list_with_object', [[[[Custom()]]]]), ('cyclic_list', _cyclic_list()), ('cyclic_dict', _cyclic_dict()),
        ('deep_list_100000', deep_list(100000)), ('deep_dict_50000', deep_dict(50000)),
        ('deep_list_1000_bytes_leaf', deep_list(1000, b'x')), ('ellipsis', ...), ('memoryview', memoryview(b'ab')),
        # plain values that look a little like events: an attribute called `data` (collections.User*, a record class),
        # a `to_json_str` method -- judged as what they are, bare and inside an event alike
        ('userdict', collections.UserDict({'a': 1})), ('userlist', collections.UserList([1, 2])),
        ('userstring', collections.UserString('abc')), ('record_int', Record(5)), ('record_dict', Record({'a': 1})),
        ('record_bad', Record(b'x')), ('jsonish', Jsonish()), ('list_with_record', [Record(1)]),
    ]


def random_json(rng, depth=0):
    r = rng.random()
    if depth > 3 or r < 0.35:
        return rng.choice([None, True, False, rng.randint(-9, 9), rng.random(), 'a', 'b', '', 5, 1])
    if r < 0.65:
        return [random_json(rng, depth + 1) for _ in range(rng.randint(0, 3))]
    return {rng.choice(['a', 'b', 'x', 'k']): random_json(rng, depth + 1) for _ in range(rng.randint(0, 3))}


NON_JSON_LEAVES = [lambda: b'q', lambda: {1}, lambda: Custom(), lambda: (1, 2), lambda: float('nan'), lambda: 2j,
                   lambda: decimal.Decimal(1), lambda: object()]


def poison(rng, v, leaf):
    """replace one random position of a JSON value by `leaf`."""
    if isinstance(v, list) and v and rng.random() < 0.7:
        i = rng.randrange(len(v))
        v[i] = poison(rng, v[i], leaf)
        return v
    if isinstance(v, dict) and v and rng.random() < 0.7:
        k = rng.choice(sorted(v))
        v[k] = poison(rng, v[k], leaf)
        return v
    return leaf


def all_values(vseed, nrandom):
    rng = random.Random(vseed)
    vals = fixed_values()
    for i in range(nrandom):
        v = random_json(rng)
        if rng.random() < 0.45:
            v = poison(rng, v, rng.choice(NON_JSON_LEAVES)())
            vals.append((f'rnd_poisoned_{i}', v))
        else:
            vals.append((f'rnd_json_{i}', v))
    return vals


# --------------------------------------------------------------------------
# validators
# --------------------------------------------------------------------------

SCHEMAS = [
    ('any', {}),
    ('integer', {'type': 'integer'}),
    ('string', {'type': 'string'}),
    ('object', {'type': 'object'}),
    ('array', {'type': 'array'}),
    ('number_or_null', {'type': ['number', 'null']}),
    ('required_a', {'type': 'object', 'required': ['a']}),
    ('enum', {'enum': [1, 'abc', None, [1, 2, 3]]}),
    ('a_is_int', {'type': 'object', 'properties': {'a': {'type': 'integer'}}, 'required': ['a']}),
    ('nested_x_numbers', {'type': 'object', 'properties': {'x': {'type': 'array', 'items': {'type': 'number'}}}}),
    ('ints_nonempty', {'type': 'array', 'items': {'type': 'integer'}, 'minItems': 1}),
    ('not_string', {'not': {'type': 'string'}}),
]

TYPE_CONFIGS = [
    ('int', [int]), ('str', [str]), ('dict_list', [dict, list]), ('int_float_str', [int, float, str]),
    ('bool', [bool]), ('object', [object]), ('bytes_tuple_set', [bytes, tuple, set]), ('none_custom', [type(None), Custom]),
]


def validators():
    """(label, class name, model `val` line, validator, schema or None, types or None, subtype)"""
    out = [('All', 'All', 'val all', BoboValidatorAll(), None, None, None),
           ('JSONable', 'JSONable', 'val json', BoboValidatorJSONable(), None, None, None)]
    for name, ts in TYPE_CONFIGS:
        for sub in (True, False):
            working = list(ts)
            v = BoboValidatorType(working, subtype=sub)
            # the application goes on using ITS list (to configure the validator of another receiver, say): the first
            # validator was configured with what the list held when it was built
            working.append(object)
            working.extend((str, int, type(None), Record))
            del working[:len(ts)]
            out.append((f'Type[{name},subtype={int(sub)}]', 'Type', f'val type {int(sub)} {len(ts)}', v, None, ts, sub))
    for name, sc in SCHEMAS:
        out.append((f'JSONSchema[{name}]', 'JSONSchema', 'val schema', BoboValidatorJSONSchema(sc), sc, None, None))
    return out


# --------------------------------------------------------------------------
# facts measured with the libraries directly (the model's opaque parameters)
# --------------------------------------------------------------------------

def dumps_ok(x):
    try:
        json.dumps(x)
    except (RecursionError, TypeError, ValueError):
        return False
    return True


def schema_ok(x, schema):
    try:
        jsonschema.validate(instance=x, schema=schema)
    except jsonschema.exceptions.ValidationError:
        return False
    except (RecursionError, ValueError, TypeError):
        # the library itself gives up (repr of a huge int / a 100000-deep list in its error message); this
        # only happens on values json.dumps rejects, where the repaired validator never reaches the schema
        if dumps_ok(x):
            raise
        return False
    return True


def bits(bs):
    return ''.join('1' if b else '0' for b in bs) if bs else '-'


def facts_line(handle, value, ev_obj, schema, types):
    """<handle> <isNone> <dOk> <dSch> <dInst> <dTy> <eOk> <eSch> <eInst> <eTy>"""
    d_ok = dumps_ok(value)
    d_sch = schema_ok(value, schema) if schema is not None else False
    ts = types or []
    f = [str(handle), '1' if value is None else '0', '1' if d_ok else '0', '1' if d_sch else '0',
         bits([isinstance(value, t) for t in ts]), bits([type(value) == t for t in ts])]
    if ev_obj is None:
        f += ['0', '0', bits([False] * len(ts)), bits([False] * len(ts))]
    else:
        f += ['1' if dumps_ok(ev_obj) else '0', '1' if (schema is not None and schema_ok(ev_obj, schema)) else '0',
              bits([isinstance(ev_obj, t) for t in ts]), bits([type(ev_obj) == t for t in ts])]
    return ' '.join(f), d_ok, d_sch


def make_event(wrap, eid, ts, data):
    if wrap == 's':
        return BoboEventSimple(eid, ts, data)
    if wrap == 'c':
        return BoboEventComplex(eid, ts, data, 'phen', 'pat', BoboHistory({}))
    if wrap == 'a':
        return BoboEventAction(eid, ts, data, 'phen', 'pat', 'act', True)
    raise ValueError(wrap)


def impl_verdict(v, obj):
    try:
        r = v.is_valid(obj)
        return r if isinstance(r, bool) else f'non-bool:{r!r}'
    except Exception as e:  # noqa
        return 'raise:' + e.__class__.__name__


def root_exc(e):
    while e.__context__ is not None:
        e = e.__context__
    return e


def serialise_failure(value, wrap):
    """None if every serialiser used for replication succeeds on an event carrying `value`, else (where, exc name)."""
    try:
        simple = BoboEventSimple('e1', 1, value)
        simple.to_json_str()
    except Exception as e:  # noqa
        return ('BoboEventSimple.to_json_str', root_exc(e).__class__.__name__)
    evs = [simple]
    if wrap in ('c', 'a'):
        try:
            w = make_event(wrap, 'e2', 2, value)
            w.to_json_str()
            evs.append(w)
        except Exception as e:  # noqa
            return ('wrapping event to_json_str', root_exc(e).__class__.__name__)
    try:
        rs = BoboRunSerial('r1', 'phen', 'pat', 1, BoboHistory({'g': evs}))
        _tcp_instance()._outgoing_to_json({'completed': [rs], 'halted': [], 'updated': [rs]})
    except Exception as e:  # noqa
        return ('tcp _outgoing_to_json', root_exc(e).__class__.__name__)
    return None


_TCP = []


def _tcp_instance():
    """a real, never started distributed instance (the serialiser of outgoing messages is one of its methods)."""
    if not _TCP:
        from bobocep.dist.device import BoboDevice
        from bobocep.dist.crypto.aes import BoboDistributedCryptoAES

        class _NoDecider:
            def snapshot(self):
                return [], [], []

            def subscribe(self, s):
                pass
        devs = [BoboDevice(addr='127.0.0.1', port=9001, urn='a', id_key='ka'), BoboDevice(addr='127.0.0.1', port=9002, urn='b', id_key='kb')]
        _TCP.append(BoboDistributedTCP(urn='a', decider=_NoDecider(), devices=devs, crypto=BoboDistributedCryptoAES('0123456789abcdef')))
    return _TCP[0]


def documented(cls, value, d_ok, schema, types, subtype):
    if cls == 'All':
        return True
    if cls == 'JSONable':
        return d_ok
    if cls == 'Type':
        return any(isinstance(value, t) for t in types) if subtype else any(type(value) == t for t in types)
    return d_ok and schema_ok(value, schema)


# --------------------------------------------------------------------------
# verdict cases
# --------------------------------------------------------------------------

def verdict_cases(res, vals, vlist, lines, impl_out, only=None):
    ser_cache = {}
    first = []      # clause (1) violations, reported ahead of the others
    first_pass = {}
    for (vlabel, cls, valline, v, schema, types, subtype) in vlist:
        lines.append(valline)
        impl_out.append('ok')
        for h, (label, value) in enumerate(vals):
            if only and (only.get('validator') != vlabel or only.get('value') != label):
                continue
            verdicts = {}
            d_ok = None
            for w in WRAPS:
                ev_obj = None if w == 'b' else make_event(w, 'e', 0, value)
                obj = value if w == 'b' else ev_obj
                got = impl_verdict(v, obj)
                verdicts[w] = got
                fl, d_ok, d_sch = facts_line(h, value, ev_obj, schema, types)
                lines.append(f'chk {w} {fl}')
                impl_out.append('1' if got is True else '0' if got is False else str(got))
                case = {'kind': 'verdict', 'validator': vlabel, 'value': label, 'wrap': w}
                res.add_case(case, nontrivial=True)
                res.count('validator_' + cls)
                res.count('verdict_' + str(got))
                res.count('wrap_' + w)
                if isinstance(got, str):
                    res.violations.append(Violation(f'validator-raises:{cls}', f"{vlabel}.is_valid({label}, wrap={w}) -> {got}", case))
                # (2) accepted by a JSON validator => serialisable
                if got is True and cls in ('JSONable', 'JSONSchema'):
                    key = (h, w)
                    if key not in ser_cache:
                        ser_cache[key] = serialise_failure(value, w)
                    if ser_cache[key] is not None:
                        where, exc = ser_cache[key]
                        res.violations.append(Violation(
                            f'json-accepted-not-serialisable:{cls}:{exc}',
                            f"{vlabel} accepts value {label!r} (wrap={w}) but {where} raises {exc}", case))
                # (3) documented meaning
                doc = documented(cls, value, d_ok, schema, types, subtype)
                if got is not doc and not isinstance(got, str):
                    res.violations.append(Violation(
                        f'verdict-not-documented:{cls}',
                        f"{vlabel}.is_valid({label}, wrap={w}) = {got}, documented meaning on the carried data: {doc}", case))
            first_pass[(vlabel, label)] = verdicts['b']
            res.count('value_dumps_ok' if d_ok else 'value_not_dumps_ok')
            # (1) same verdict wrapped / bare
            for w in WRAPS[1:]:
                if verdicts[w] != verdicts['b']:
                    first.append(Violation(
                        f'verdict-differs-wrapped:{cls}',
                        f"{vlabel}: bare {label!r} -> {verdicts['b']}, wrapped in event kind {w!r} -> {verdicts[w]}",
                        {'kind': 'verdict', 'validator': vlabel, 'value': label, 'wrap': w}))
                    break
        # (4) the verdict is a function of the datum: the same validator object asked again, in the reverse order, answers the
        # same (a long-lived receiver sees the same and look-alike data again and again)
        if not only or only.get('second_pass'):
            for h, (label, value) in reversed(list(enumerate(vals))):
                if label.startswith('deep_') or (only and only.get('value') != label):
                    continue
                if (vlabel, label) not in first_pass:
                    continue
                again = impl_verdict(v, value)
                if again != first_pass[(vlabel, label)]:
                    res.violations.append(Violation(
                        f'verdict-depends-on-history:{cls}',
                        f"{vlabel}.is_valid({label}) answered {first_pass[(vlabel, label)]} the first time and {again} when asked again "
                        f"after the other values", {'kind': 'verdict', 'validator': vlabel, 'value': label, 'wrap': 'b', 'second_pass': True}))
                    break
    k = getattr(res, '_c1', 0)          # clause (1) violations stay in discovery order, ahead of the others
    res.violations[k:k] = first
    res._c1 = k + len(first)


# --------------------------------------------------------------------------
# receiver gate
# --------------------------------------------------------------------------

class IdGen(BoboGenEventID):
    def __init__(self):
        self.n = 0

    def generate(self):
        self.n += 1
        return f'id{self.n - 1}'


class TsGen(BoboGenTimestamp):
    def __init__(self):
        self.n = 0

    def generate(self):
        self.n += 1
        return 1000 + self.n - 1


class Recorder(BoboReceiverSubscriber):
    def __init__(self):
        self.seen = []

    def on_receiver_update(self, event):
        self.seen.append(event)


def gate_script(rng, nvals, length):
    """ops: ('add', value index, wrap) | ('upd',) | ('close',)"""
    ops = []
    pending = 0
    for _ in range(length):
        if rng.random() < 0.55:
            ops.append(('add', rng.randrange(nvals), rng.choice(WRAPS)))
            pending += 1
        else:
            ops.append(('upd',))
            pending = max(0, pending - 1)
    if rng.random() < 0.25:
        ops.append(('close',))
        ops.append(('add', rng.randrange(nvals), rng.choice(WRAPS)))
        ops.append(('upd',))
    else:
        ops += [('upd',)] * (pending + 1)
    return ops


def gate_case(res, vals, ventry, ops, max_size, lines, impl_out, case):
    (vlabel, cls, valline, v, schema, types, subtype) = ventry
    idg, tsg, rec = IdGen(), TsGen(), Recorder()
    rec2 = Recorder()
    r = BoboReceiver(v, idg, tsg, None, max_size)
    r.subscribe(rec)
    r.subscribe(rec2)
    lines += [valline, f'rnew {max_size}']
    impl_out += ['ok', 'ok']
    queued = []       # what the harness knows went in (oracle bookkeeping, independent of the model)
    expected = []     # ('same', obj) | ('wrap', value)
    nev = 0
    closed = False
    for op in ops:
        if op[0] == 'add':
            h, w = op[1], op[2]
            value = vals[h][1]
            if w == 'b':
                obj, eid, ts, ev_obj = value, '-', '-', None
            else:
                nev += 1
                eid, ts = f'ev{nev}', 50 + nev
                ev_obj = make_event(w, eid, ts, value)
                obj = ev_obj
            canon = next(i for i, (_, val) in enumerate(vals) if val is value)   # small ints / strings are shared objects
            fl, _, _ = facts_line(canon, value, ev_obj, schema, types)
            lines.append(f'add {w} {eid} {ts} {fl}')
            try:
                # complex / action events also come in through the feedback entry points of the receiver
                # (producer -> receiver, forwarder -> receiver): same gate, same queue bound
                if w == 'c' and (nev % 2 == 0):
                    r.on_producer_update(obj, True)
                    res.count('gate_feedback_producer')
                elif w == 'a' and (nev % 2 == 0):
                    r.on_forwarder_update(obj)
                    res.count('gate_feedback_forwarder')
                else:
                    r.add_data(obj)
                impl_out.append('ok')
                if not closed:
                    queued.append((obj, value, w))
            except BoboReceiverError:
                impl_out.append('full')
                res.count('gate_queue_full')
        elif op[0] == 'upd':
            n0 = len(rec.seen)
            try:
                ret = r.update()
            except Exception as e:  # noqa  -- a validator that raises takes the engine's update loop down with it
                res.violations.append(Violation(f'receiver-update-raises:{cls}',
                                                f"{vlabel}: BoboReceiver.update() raised {e.__class__.__name__} on a queued item", case))
                lines.append('upd')
                impl_out.append('raise:' + e.__class__.__name__)
                return
            new = rec.seen[n0:]
            if not closed and queued:
                obj, value, w = queued.pop(0)
                acc = impl_verdict(v, obj)
                if acc is True:
                    expected.append(('same', obj) if w != 'b' else ('wrap', value))
                res.count('gate_accepted' if acc is True else 'gate_rejected')
            lines.append('upd')
            if len(new) == 0:
                pub = '-'
            elif len(new) == 1:
                e = new[0]
                k = {BoboEventSimple: 's', BoboEventComplex: 'c', BoboEventAction: 'a'}.get(type(e), '?')
                hh = [i for i, (_, val) in enumerate(vals) if val is e.data]
                pub = f'{k} {e.event_id} {e.timestamp} {hh[0] if hh else "?"}'
            else:
                pub = 'more-than-one'
            impl_out.append(f"{'1' if ret else '0'} {pub}")
        else:
            r.close()
            closed = True
            lines.append('close')
            impl_out.append('ok')
    # oracle (4)
    seen = rec.seen
    sig = None
    if len(seen) != len(rec2.seen) or any(a is not b for a, b in zip(seen, rec2.seen)):
        sig = ('gate-subscribers-differ', 'the two subscribers did not see the same event objects')
    nid = 0
    for i in range(max(len(seen), len(expected))):
        if sig:
            break
        if i >= len(seen):
            sig = ('gate-dropped-accepted', f'accepted item #{i} never reached the subscriber')
        elif i >= len(expected):
            sig = ('gate-published-unexpected', f'subscriber saw an extra event #{i} (rejected or duplicated item)')
        else:
            kind, ref = expected[i]
            e = seen[i]
            if kind == 'same':
                if e is not ref:
                    sig = ('gate-event-not-same-object', f'event #{i} was not passed on as the same object')
            else:
                if type(e) is not BoboEventSimple:
                    sig = ('gate-wrapper-not-simple', f'item #{i} was wrapped in {type(e).__name__}')
                elif e.data is not ref:
                    sig = ('gate-wrapped-data-changed', f'item #{i}: the simple event does not carry the same object')
                elif e.event_id != f'id{nid}' or e.timestamp != 1000 + nid:
                    sig = ('gate-wrapper-id-timestamp', f'item #{i}: id/timestamp {e.event_id!r}/{e.timestamp} are not the generators\' next values')
                nid += 1
    if sig:
        res.violations.append(Violation(sig[0], f"{vlabel}: {sig[1]}", case))


def run_gate(res, ctx, vals, vlist, lines, impl_out, vseed, only=None):
    rng = random.Random(vseed + 1)
    # the heavy values make no difference to the gate; keep the stream light
    light = [i for i, (lab, _) in enumerate(vals) if not lab.startswith('deep_')]
    n = 0
    per = 10 if ctx.thorough else 2
    for vi, ventry in enumerate(vlist):
        for k in range(per):
            ops = gate_script(rng, len(light), rng.randint(8, 40))
            # bias the stream towards items this validator accepts (documented meaning), so that both branches of the gate are hit
            (_, cls, _, _, schema, types, subtype) = ventry
            good = [i for i in light if documented(cls, vals[i][1], dumps_ok(vals[i][1]), schema, types, subtype)]
            ops = [(o[0], (rng.choice(good) if good and rng.random() < 0.5 else light[o[1]]), o[2]) if o[0] == 'add' else o
                   for o in ops]
            max_size = rng.choice([0, 0, 0, 2, 5])
            case = {'kind': 'gate', 'validator': ventry[0], 'script': k, 'max_size': max_size,
                    'ops': [list(o[:1]) + ([vals[o[1]][0], o[2]] if o[0] == 'add' else []) for o in ops]}
            if only and (only.get('validator') != ventry[0] or only.get('script') != k):
                continue
            res.add_case(case, nontrivial=True)
            res.count('gate_streams')
            gate_case(res, vals, ventry, ops, max_size, lines, impl_out, case)
            n += 1
    return n


# --------------------------------------------------------------------------
# directed probe: the recursion boundary of json.dumps
# --------------------------------------------------------------------------

def generator_path(res, vals, vlist):
    """
    Oracle-only: events produced by the receiver's own event generator (`gen_event`) enter through the same gate as
    everything else — a generated event whose data the validator rejects must not be published, an accepted one is
    published exactly once as the same object.
    """
    from bobocep.cep.gen.event import BoboGenEvent

    class OneShot(BoboGenEvent):
        def __init__(self, data):
            self.data, self.done = data, False

        def maybe_generate(self, event_id):
            if self.done:
                return None
            self.done = True
            self.ev = BoboEventSimple(event_id, 1, self.data)
            return self.ev

    for ventry in vlist:
        name, v = ventry[0], ventry[3]
        for (handle, value) in [(x[0], x[1]) if isinstance(x, tuple) else (repr(x)[:40], x) for x in vals[:60]]:
            try:
                expect = v.is_valid(value)
            except Exception:
                continue
            gen = OneShot(value)
            rec = BoboReceiver(v, IdGen(), TsGen(), gen_event=gen)
            sub = Recorder()
            rec.subscribe(sub)
            try:
                rec.update()
                rec.update()
            except Exception:
                continue
            got = [e for e in getattr(sub, 'events', getattr(sub, 'seen', []))]
            res.add_case({'kind': 'generator', 'validator': name, 'value': handle}, nontrivial=True)
            res.count('generator_path_cases')
            if (not expect) and got:
                res.violations.append(Violation('gate-rejected-published',
                                                f"{name} rejects {handle}, yet the receiver published the event its generator produced with that data",
                                                {'kind': 'generator', 'validator': name, 'value': handle}))
                return
            if expect and (len(got) != 1 or got[0] is not gen.ev):
                res.violations.append(Violation('gate-accepted-not-once',
                                                f"{name} accepts {handle}; the generated event was published {len(got)} times / not as the same object",
                                                {'kind': 'generator', 'validator': name, 'value': handle}))
                return


def recursion_window(res, make=deep_list, name='list'):
    """largest nesting depth the JSONable validator accepts (bisection), then the serialisers on the
    accepted depths just below it."""
    v = BoboValidatorJSONable()
    lo, hi = 1000, 200000
    if v.is_valid(make(lo)) is not True or v.is_valid(make(hi)) is not False:
        res.notes.append(f'recursion probe ({name}): no accept/reject boundary between depth {lo} and {hi}')
        return
    while hi - lo > 1:
        m = (lo + hi) // 2
        if v.is_valid(make(m)) is True:
            lo = m
        else:
            hi = m
    bad = []
    for dpt in range(lo, lo - 40, -1):
        val = make(dpt)
        acc = v.is_valid(val)
        res.add_case({'kind': 'recursion-window', 'container': name, 'depth': dpt}, nontrivial=True)
        res.count('recursion_window_probe')
        if acc is True:
            f = serialise_failure(val, 'c')
            if f is not None:
                bad.append((dpt, f))
    if bad:
        worst = min(d for d, _ in bad)
        res.violations.append(Violation(
            'json-accepted-not-serialisable:recursion-window',
            f"BoboValidatorJSONable accepts a {name} nested up to depth {lo}, but serialisation for replication fails from depth "
            f"{worst} to {lo} (e.g. depth {bad[0][0]}: {bad[0][1][0]} raises {bad[0][1][1]}; depth {worst}: {bad[-1][1][0]} raises {bad[-1][1][1]})",
            {'kind': 'recursion-window', 'container': name, 'accept_boundary': lo, 'failing_depths': [d for d, _ in bad]}))
    res.notes.append(f'recursion probe ({name}): JSONable accepts depth <= {lo}; serialisers fail on accepted depths {sorted(d for d, _ in bad)}')


# --------------------------------------------------------------------------

def compare(res, lines, impl_out, ncases):
    model_out = run_model('validator', lines)
    res.traces_validated = ncases
    for k, (a, b) in enumerate(zip(model_out, impl_out)):
        if a != b:
            res.disagreements.append({'op_index': k, 'op': lines[k][:200], 'model': a, 'impl': b})
            if len(res.disagreements) > 5:
                break


def reentrant_verdicts(res, vals, vlist, first_pass_of):
    """one validator object asked by two callers at once (two receivers sharing it, or two feeder threads): a second,
    complete `is_valid(b)` runs exactly when the first caller touches a field of the validator — every field access of
    the first call in turn is such a point — and the first call's verdict must still be the verdict of ITS datum.  The
    fields are found by inspection and turned into properties that run the second call (same thread: no lock of the
    validator is held by a caller that is merely reading its configuration)."""
    light = [(lab, v) for lab, v in vals if not lab.startswith('deep_') and not lab.startswith('cyclic')]
    for (vlabel, cls, valline, v, schema, types, subtype) in vlist:
        acc = [(lab, val) for lab, val in light if first_pass_of(v, val) is True][:3]
        rej = [(lab, val) for lab, val in light if first_pass_of(v, val) is False][:3]
        if not acc or not rej:
            continue
        fields = list(vars(v))
        store = {k: vars(v).pop(k) for k in fields}
        state = {'n': 0, 'at': None, 'other': None, 'busy': False}

        def touch():
            if state['busy'] or state['at'] is None:
                return
            state['n'] += 1
            if state['n'] == state['at']:
                state['busy'] = True
                try:
                    impl_verdict(v, state['other'])
                finally:
                    state['busy'] = False
        ns = {}
        for k in fields:
            def getter(self, k=k):
                touch()
                return store[k]

            def setter(self, val, k=k):
                store[k] = val
                touch()
            ns[k] = property(getter, setter)
        orig_cls = v.__class__
        v.__class__ = type(orig_cls.__name__ + 'Shared', (orig_cls,), ns)
        try:
            bad = None
            for (la, a), (lb, b) in [(x, y) for x in acc for y in rej] + [(y, x) for x in acc for y in rej]:
                want = a_alone = first_pass_of(v, a)
                for at in range(1, 12):
                    state.update(n=0, at=at, other=b)
                    got = impl_verdict(v, a)
                    state['at'] = None
                    res.count('reentrant_verdicts')
                    if got != want:
                        bad = (la, lb, at, want, got)
                        break
                    if state['n'] < at:
                        break               # the call has fewer field accesses than that
                if bad:
                    break
            if bad:
                la, lb, at, want, got = bad
                res.violations.append(Violation(
                    f'verdict-depends-on-other-caller:{cls}',
                    f"{vlabel}.is_valid({la}) answers {want} on its own but {got} when another caller's is_valid({lb}) runs while the "
                    f"first is at its field access #{at}: the verdict does not depend on the datum alone",
                    {'kind': 'reentrant', 'validator': vlabel, 'a': la, 'b': lb, 'at': at}))
                return
        finally:
            v.__class__ = orig_cls
            vars(v).update(store)
        res.add_case({'kind': 'reentrant', 'validator': vlabel}, nontrivial=True)


def run(ctx: Ctx) -> Result:
    res = Result()
    only = None
    if ctx.replay is not None:
        only = ctx.replay['replay']
        vseed = ctx.replay['replay'].get('vseed', 0)
    else:
        vseed = ctx.rng.getrandbits(32)
    vals = all_values(vseed, 300 if ctx.thorough else 30)
    vlist = validators()
    lines, impl_out = [], []
    if only is None:
        # corpus first (witnesses of past findings)
        for f in sorted((CORPUS / 'C18').glob('*.json')):
            for c in json.loads(f.read_text())['cases']:
                verdict_cases(res, vals, vlist, lines, impl_out, c)
                res.count('corpus_cases')
    if only is None or only.get('kind') == 'verdict':
        verdict_cases(res, vals, vlist, lines, impl_out, only)
    if only is None or only.get('kind') == 'reentrant':
        reentrant_verdicts(res, vals, [e for e in vlist if only is None or e[0] == only.get('validator')],
                           lambda v, x: impl_verdict(v, x))
    if only is None or only.get('kind') == 'gate':
        run_gate(res, ctx, vals, vlist, lines, impl_out, vseed, only)
    if only is None or only.get('kind') == 'generator':
        generator_path(res, vals, vlist)
    if only is None or only.get('kind') == 'recursion-window':
        recursion_window(res, deep_list, 'list')
        if ctx.thorough:
            recursion_window(res, deep_dict, 'dict')
    for v in res.violations:
        if isinstance(v.replay, dict):
            v.replay.setdefault('vseed', vseed)
    if ctx.model_available():
        compare(res, lines, impl_out, res.evaluations)
    else:
        res.notes.append('model driver unavailable: correspondence not run')
        res.disagreements.append({'correspondence': 'validator', 'error': 'model driver did not build'})
    res.notes.append(f'{len(vals)} values x {len(vlist)} validator instances x {len(WRAPS)} wrappings; value seed {vseed}')
    return res


def search(ctx: Ctx) -> Result:
    """failing-input search on the implementation alone: many more random values, every validator, every wrapping,
    oracle clauses (1)-(3); then longer gate streams."""
    res = Result()
    vseed = ctx.rng.getrandbits(32)
    vals = all_values(vseed, 400)
    vlist = validators()
    lines, impl_out = [], []
    verdict_cases(res, vals, vlist, lines, impl_out)
    if not res.violations:
        class T:  # thorough-sized gate run
            thorough = True
        run_gate(res, T, vals, vlist, lines, impl_out, vseed)
    for v in res.violations:
        if isinstance(v.replay, dict):
            v.replay.setdefault('vseed', vseed)
    return res


SPEC = PropSpec(
    prop='C18',
    translators=['validator'],
    run=run,
    search=search,
    rule='~65 hand-picked values (JSON; lossy-JSON: NaN/inf, tuples, non-string keys; non-JSON: bytes, sets, objects, '
         'cyclic and 1000/100000-deep containers, huge ints) + 30 (quick) / 300 (thorough) seeded random JSON values, 45% of them '
         'with one leaf replaced by a non-JSON object; each bare and wrapped in a simple / complex / action event; against All, '
         'JSONable, Type (8 type lists x subtype on/off) and JSONSchema (12 schemas) = 30 validator instances; plus 2 (quick) / 10 '
         '(thorough) random add_data/update/close scripts of 8-40 calls per validator instance on the real BoboReceiver (two recording '
         'subscribers, bounded and unbounded queue); plus a bisection for the accept boundary of nesting depth. A case = '
         '(validator instance, value, wrapping) or one receiver script; every case is non-trivial.',
    trusted_base=['the harness measures json.dumps / jsonschema.validate / isinstance / type== on each value directly and feeds '
                  'them to the model as the opaque library parameters'],
    assumptions=['the datum carried by an event is not itself a BoboEvent (one level of wrapping)',
                 'json.dumps / jsonschema.validate are deterministic functions of the value (no concurrent mutation of the datum)',
                 'the JSON schema is itself valid (SchemaError is a configuration error raised as BoboValidatorError)',
                 'no event generator (gen_event) is configured on the receiver; generated events go through the same _process_data',
                 'EnvelopeLaw: the event/run/history serialisers succeed whenever json.dumps of the datum does — checked on every '
                 'accepted case; known to fail only in the recursion window (finding F16)'],
    model_covers='the four BoboValidator*.is_valid bodies (unwrap-first flags and base-test flag regenerated from the source and '
                 'proved equal to the model), BoboReceiver.add_data / update / _process_data / close',
)
