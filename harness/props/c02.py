"""
C02 — One complex event, one action run, one action event per completed run;
conservation of the stream through the four task queues.

D-tie: the REAL engine (built through BoboSetupSimple, and by hand with every
times_* in {0,1,2} and early_stop on/off, real BoboActionHandlerBlocking, real
patterns / phenomena with and without action and datagen) is driven with
`add` / `update` / `step <task>` operations.  The pattern-matching core is kept
out of the model: per decider update() the harness records what the real
`_process_event` returned and hands that to the Lean driver (`bobodrv engine`)
as the scripted matcher output, so that the model's queue / feedback / loop
behaviour is compared with the real engine's for the same matcher results.
Both sides print, per operation: size() of the four tasks and of the handler,
the stream seen by a BoboReceiverSubscriber, the complex and action events
produced, the execute() calls, the exception (if any) and the return value.

Oracle (independent of the model), evaluated on the real engine after draining
with repeated engine updates: every accepted datum seen exactly once and in
order by the decider; #complex events = #completed runs notified, each with
the run's phenomenon / pattern / history and the datagen value; one execute()
per complex event of a phenomenon with an action, one action event per
execute() with its name / success / data; halted runs yield nothing; every
complex / action event re-entered the stream exactly once; all queues empty;
and per single task update(): a non-empty queue loses exactly one item.

Asynchronous handlers (second D-tie, `bobodrv engineA` = Model/EngineAsync.lean): the same engine built with a REAL
BoboActionHandlerMultithreading (and, for a quarter of the cases, a real BoboActionHandlerMultiprocessing) whose pool
is a RecordingPool: `starmap_async(fn, [args])` only records the job, and the harness's operation `complete k` pops
the k-th recorded job and calls fn(*args) — the real `_pool_execute_action` with the handler's real queue, the real
action, the complex event and max_size.  Operations: add / update / step <task> as above, `complete k` between two
calls (k mostly among the jobs in flight and mostly NOT the oldest one, rarely out of range = nothing happens), and
updates / steps carrying a pool script: completions INSIDE the call, at the linearisation points of the model (before
each task.update() call of the engine loop and between the forwarder's _update_handler() and _update_responses()),
realised by instance-level wrappers.  Per operation both sides print the blocking family's line plus the jobs in
flight (count, then action name @ complex event id in dispatch order) and, for update / step, how much of the pool
script was not consumed.  Oracle after completing everything in flight and draining: the blocking oracle with the
execute() calls matched to the complex events as a multiset of objects (each exactly once, any order), one action
event per execute() in execution order with its name / success / data, every action event re-entered the stream
exactly once, handler queue and pool empty; one job submitted per complex event of a phenomenon with an action, in
forwarder order, as _pool_execute_action(handler queue, that action, that event, max_size); per single task update()
the async variant of "exactly one item".  Signatures of this family are prefixed `async-`.
Not covered by this family: max_size > 0 of the asynchronous handlers (the model does not cover queue-full
exceptions, so every max_size is 0: neither the qsize() guard at dispatch nor _pool_execute_action's full-queue branch
is exercised), actions that raise inside the pool, close() / join().  The multiprocessing handler is covered as far
as its own code goes (dispatch, argument tuple, queue access) with multiprocessing.Pool AND multiprocessing.Manager
replaced by in-process doubles during construction: pickling of action / event / response across processes and the
real manager queue are NOT covered here (C20 monitors real pools).  `async_handler_cases` below still runs real
thread pools against the oracle alone.
"""
import itertools
import json

from harness.core import PropSpec, Result, Violation, Ctx, run_model, CORPUS
from harness.predlang import Num

from bobocep.cep.action.action import BoboAction
from bobocep.cep.action.handler import BoboActionHandlerBlocking
from bobocep.cep.engine.decider.decider import BoboDecider
from bobocep.cep.engine.decider.pubsub import BoboDeciderSubscriber
from bobocep.cep.engine.engine import BoboEngine
from bobocep.cep.engine.forwarder.forwarder import BoboForwarder
from bobocep.cep.engine.forwarder.pubsub import BoboForwarderSubscriber
from bobocep.cep.engine.producer.producer import BoboProducer
from bobocep.cep.engine.producer.pubsub import BoboProducerSubscriber
from bobocep.cep.engine.receiver.pubsub import BoboReceiverSubscriber
from bobocep.cep.engine.receiver.receiver import BoboReceiver
from bobocep.cep.engine.receiver.validator import BoboValidatorAll, BoboValidatorType
from bobocep.cep.event import BoboEventSimple, BoboEventComplex, BoboEventAction, BoboEvent
from bobocep.cep.gen.event_id import BoboGenEventID
from bobocep.cep.gen.timestamp import BoboGenTimestamp
from bobocep.cep.phenom.pattern.builder import BoboPatternBuilder
from bobocep.cep.phenom.phenom import BoboPhenomenon
from bobocep.setup.simple import BoboSetupSimple


# --------------------------------------------------------------------------
# deterministic generators, recorders, user code
# --------------------------------------------------------------------------

class GenId(BoboGenEventID):
    def __init__(self, prefix):
        super().__init__()
        self.prefix = prefix
        self.n = 0

    def generate(self) -> str:
        v = f'{self.prefix}{self.n}'
        self.n += 1
        return v


class SlotGen(BoboGenEventID):
    """a run-identifier generator that hands out the lowest identifier no ACTIVE run holds (a pool of slots): all the decider
    asks of run identifiers is that no two active runs of a pattern share one; two runs that finished one after the other
    may well have had the same identifier -- they are still two runs"""

    def __init__(self, prefix):
        super().__init__()
        self.prefix = prefix
        self.dec = None

    def generate(self) -> str:
        active = {r.run_id for r in self.dec.all_runs()} if self.dec is not None else set()
        k = 0
        while f'{self.prefix}{k}' in active:
            k += 1
        return f'{self.prefix}{k}'


class GenTs(BoboGenTimestamp):
    def __init__(self):
        super().__init__()
        self.n = 0

    def generate(self) -> int:
        v = self.n
        self.n += 1
        return v


class Action(BoboAction):
    def __init__(self, name, mode, log):
        super().__init__(name)
        self.mode = mode
        self.log = log

    def execute(self, event):
        if self.mode == 't':
            ret = (True, event.data)
        elif self.mode == 'f':
            ret = (False, None)
        else:
            ret = (event.history.size() % 2 == 0, event.phenomenon_name)
        self.log.append((self.name, event, ret))
        return ret

    # a user's action may well be an object Python counts as false (a batching action whose len() is the number of events
    # it holds, a container-like action): "has an action" means "is not None"
    def __len__(self):
        return 0


def datagen_of(spec):
    if spec == '-':
        return None
    if spec == 'cnt':
        return lambda p, h: h.size()
    if spec == 'grp':
        return lambda p, h: len(h.all_groups())
    assert spec[0] == 'k'
    k = int(spec[1:])
    if k % 2:
        # a METHOD of an object nobody else keeps (made inline, as in `datagen=Summary(cfg).make`): the phenomenon is what
        # keeps it alive, with either value of `retain`
        return _Gen(k).make
    return lambda p, h: k


class _Gen:
    def __init__(self, k):
        self.k = k

    def make(self, p, h):
        return self.k


def pred_of(spec):
    kind = spec[0]
    if kind == 'eq':
        return lambda e, h: isinstance(e, BoboEventSimple) and is_int(e.data) and e.data == spec[1]
    if kind == 'ne':
        return lambda e, h: isinstance(e, BoboEventSimple) and is_int(e.data) and e.data != spec[1]
    if kind == 'lt':
        return lambda e, h: isinstance(e, BoboEventSimple) and is_int(e.data) and e.data < spec[1]
    if kind == 'cx':
        return lambda e, h: isinstance(e, BoboEventComplex) and e.phenomenon_name == spec[1]
    if kind == 'ac':
        return lambda e, h: isinstance(e, BoboEventAction) and e.phenomenon_name == spec[1]
    if kind == 'never':
        return lambda e, h: False
    raise ValueError(spec)


def pattern_of(ps):
    b = BoboPatternBuilder(ps['name'], singleton=ps.get('singleton', False))
    for i, (kind, pred) in enumerate(ps['blocks']):
        grp = f'g{i}'
        if kind == 'fb':
            b.followed_by(pred_of(pred), group=grp)
        elif kind == 'nx':
            b.next(pred_of(pred), group=grp)
        elif kind == 'fbl':
            b.followed_by(pred_of(pred), group=grp, loop=True)
        elif kind == 'fbo':
            b.followed_by(pred_of(pred), group=grp, optional=True)
        else:
            raise ValueError(kind)
    if ps.get('halt') is not None:
        b.haltcondition(pred_of(ps['halt']))
    return b.generate()


def validator_of(v):
    if v == 'all':
        return BoboValidatorAll()
    return BoboValidatorType({'int': [int], 'str': [str], 'intstr': [int, str]}[v], subtype=False)


OPAQUE = {'on': False}


def is_int(d):
    return type(d) is int or type(d) is Num


def data_of(tok):
    if tok == 'none':
        return None
    if tok[0] == 'i':
        # (case option `opaque`) numbers as values without JSON form: the engine outside the distributed component
        # never needs the JSON text of an event
        return Num(int(tok[1:])) if OPAQUE['on'] else int(tok[1:])
    assert tok[0] == 's'
    return tok[1:]


def show_data(d):
    if d is None:
        return 'none'
    if is_int(d):
        return f'i{d}'
    if type(d) is str:
        return 's' + d
    return f'?{d!r}'


def show_hist(h):
    ev = h.events
    if not ev:
        return '-'
    return '/'.join(g + '=' + '+'.join(e.event_id for e in es) for g, es in ev.items())


def show_event(e):
    if isinstance(e, BoboEventSimple):
        return f'S({e.event_id},{e.timestamp},{show_data(e.data)})'
    if isinstance(e, BoboEventComplex):
        return f'C({e.event_id},{e.timestamp},{show_data(e.data)},{e.phenomenon_name},{e.pattern_name},{show_hist(e.history)})'
    if isinstance(e, BoboEventAction):
        return f'A({e.event_id},{e.timestamp},{show_data(e.data)},{e.phenomenon_name},{e.pattern_name},{e.action_name},{1 if e.success else 0})'
    return f'?{e!r}'


def show_events(es):
    return ';'.join(show_event(e) for e in es) if es else '-'


def show_rec(r):
    return f'{r.run_id}|{r.phenomenon_name}|{r.pattern_name}|{r.block_index}|{show_hist(r.history)}'


class Rig(BoboReceiverSubscriber, BoboDeciderSubscriber, BoboProducerSubscriber, BoboForwarderSubscriber):
    """the real engine for one case + every observation point of the property."""

    def __init__(self, case):
        self.case = case
        OPAQUE['on'] = bool(case.get('opaque')) and case['validator'] == 'all'
        self.exec_log = []        # (action name, complex event, returned tuple)
        self.entry_log = []       # everything that (should have) entered the receiver queue, in order
        self.published = []       # BoboReceiverSubscriber.on_receiver_update
        self.notifs = []          # BoboDeciderSubscriber.on_decider_update
        self.complexes = []       # BoboProducerSubscriber.on_producer_update
        self.actions = []         # BoboForwarderSubscriber.on_forwarder_update
        self.seen = []            # events handed to the matcher
        self.script = []          # matcher outputs during the current op
        self.phen_objs = {}
        gid, gts, grun = GenId('e'), GenTs(), (SlotGen('r') if case.get('recycle') else GenId('r'))
        phens_all, phens_p, phens_f = [], [], []
        for ph in case['phens']:
            act = None
            if ph['act'] != '-':
                an, mode = ph['act'].split(':')
                act = Action(an, mode, self.exec_log)
            obj = BoboPhenomenon(name=ph['name'], patterns=[pattern_of(p) for p in ph['patterns']],
                                 action=act, datagen=datagen_of(ph['dg']), retain=len(phens_all) % 2 == 1)
            self.given_dg = getattr(self, 'given_dg', {})
            self.given_dg[ph['name']] = datagen_of(ph['dg'])      # (an equal one of the harness's own: what the data should be)
            self.phen_objs[ph['name']] = obj
            phens_all.append(obj)
            if ph['where'] in ('P', 'B'):
                phens_p.append(obj)
            if ph['where'] in ('F', 'B'):
                phens_f.append(obj)
        self.fwd_phens = {p.name: p for p in phens_f}
        self.validator = validator_of(case['validator'])
        self.handler = self.make_handler(case)
        tR, tD, tP, tF, early = case['cfg']
        if case['build'] == 'simple':
            assert [tR, tD, tP, tF, early] == [0, 0, 0, 0, 1] and all(p['where'] == 'B' for p in case['phens'])
            eng = BoboSetupSimple(phenomena=phens_all, handler=self.handler, validator=self.validator).generate()
            # deterministic ids / timestamps: replace the generator objects on the instances
            for t in (eng.receiver, eng.producer, eng.forwarder, eng.decider):
                t._gen_event_id = gid
            for t in (eng.receiver, eng.producer, eng.forwarder):
                t._gen_timestamp = gts
            eng.decider._gen_run_id = grun
        else:
            rec = BoboReceiver(validator=self.validator, gen_event_id=gid, gen_timestamp=gts)
            dec = BoboDecider(phenomena=phens_all, gen_event_id=gid, gen_run_id=grun)
            pro = BoboProducer(phenomena=phens_p, gen_event_id=gid, gen_timestamp=gts)
            fwd = BoboForwarder(phenomena=phens_f, handler=self.handler, gen_event_id=gid, gen_timestamp=gts,
                                local_only=bool(case.get('local_only', 1)))
            eng = BoboEngine(receiver=rec, decider=dec, producer=pro, forwarder=fwd,
                             times_receiver=tR, times_decider=tD, times_producer=tP, times_forwarder=tF,
                             early_stop=bool(early))
        self.eng = eng
        if isinstance(grun, SlotGen):
            grun.dec = eng.decider
        # recorders are subscribed AFTER the engine wired itself (they only add calls at the end of each fan-out)
        eng.receiver.subscribe(self)
        eng.decider.subscribe(self)
        eng.producer.subscribe(self)
        eng.forwarder.subscribe(self)
        # monitor of the matcher (instance attribute; the class is untouched)
        orig = eng.decider._process_event

        def process_event(event):
            self.seen.append(event)
            c, h, u = orig(event)
            self.script.append(([r.serialize() for r in c], [r.serialize() for r in h], [r.serialize() for r in u]))
            return c, h, u
        eng.decider._process_event = process_event

    # -- subscriber callbacks
    def on_receiver_update(self, event):
        self.published.append(event)

    def on_decider_update(self, completed, halted, updated, local):
        self.notifs.append((list(completed), list(halted), list(updated), local))

    def on_producer_update(self, event, local):
        self.complexes.append((event, local))
        self.entry_log.append(event)

    def on_forwarder_update(self, event):
        self.actions.append(event)
        self.entry_log.append(event)

    def on_distributed_update(self, *a, **k):  # pragma: no cover
        pass

    def sizes(self):
        e = self.eng
        return (e.receiver.size(), e.decider.size(), e.producer.size(), e.forwarder.size(), self.handler.size())

    # -- hooks of the asynchronous family (RigA)
    def make_handler(self, case):
        return BoboActionHandlerBlocking()

    def begin_op(self, op):
        """text inserted in the model line right after the op name (the pool script of an update / step)."""
        return ''

    def do_other(self, op):
        raise ValueError(op)

    def out_suffix(self, op):
        return ''

    def do(self, op):
        """run one op on the real engine; returns (op line for the model, canonical output line, step info)"""
        marks = (len(self.published), len(self.complexes), len(self.actions), len(self.exec_log))
        self.script = []
        before = self.sizes()
        err, ret = '-', '-'
        kind = op[0]
        try:
            if kind == 'add':
                if op[1] == 'raw':
                    d = data_of(op[2])
                    line = f'add raw {op[2]}'
                else:
                    d = BoboEventSimple(event_id=op[2], timestamp=op[3], data=data_of(op[4]))
                    line = f'add sev {op[2]} {op[3]} {op[4]}'
                self.entry_log.append(('raw', d) if op[1] == 'raw' else d)
                self.eng.receiver.add_data(d)
            elif kind == 'update':
                line = 'update' + self.begin_op(op)
                ret = '1' if self.eng.update() else '0'
            elif kind == 'step':
                line = f'step {op[1]}' + self.begin_op(op)
                task = {'R': self.eng.receiver, 'D': self.eng.decider, 'P': self.eng.producer, 'F': self.eng.forwarder}[op[1]]
                ret = '1' if task.update() else '0'
            else:
                line, err = self.do_other(op)
        except Exception as e:  # an exception of the engine is an observable, not a harness failure
            if kind not in ('update', 'step'):
                raise
            msg = str(e).replace('\n', ' ')[:80] if e.__class__.__name__ == 'BoboProducerError' else ''
            err, ret = f'{e.__class__.__name__} {msg}'.strip(), '-'
        for c, h, u in self.script:
            line += f' dec {len(c)} {len(h)} {len(u)}'
            for r in c + h + u:
                line += ' ' + show_rec(r)
        after = self.sizes()
        ex = self.exec_log[marks[3]:]
        out = ('sz %d %d %d %d %d' % after
               + ' | pub ' + show_events(self.published[marks[0]:])
               + ' | cx ' + show_events([c for c, _ in self.complexes[marks[1]:]])
               + ' | ac ' + show_events(self.actions[marks[2]:])
               + ' | ex ' + (';'.join(f'{n}@{e.event_id}' for n, e, _ in ex) if ex else '-')
               + f' | err {err} | script ok | ret {ret}' + self.out_suffix(op))
        return line, out, (before, after, len(ex), err)


# --------------------------------------------------------------------------
# the property oracle (on the implementation's observations only)
# --------------------------------------------------------------------------

def step_oracle(op, info):
    """a single task update() on a non-empty queue removes exactly one item (and touches no queue upstream of it)."""
    (r0, d0, p0, f0, h0), (r1, d1, p1, f1, h1), nex, err = info
    if err != '-':
        return None
    t = op[1]
    if t == 'R':
        if r1 != max(r0 - 1, 0) or (p1, f1, h1) != (p0, f0, h0) or d1 not in (d0, d0 + 1) or (r0 == 0 and d1 != d0):
            return f'receiver.update(): sizes {info[0]} -> {info[1]}'
    elif t == 'D':
        if d1 != max(d0 - 1, 0) or (r1, f1, h1) != (r0, f0, h0) or p1 < p0 or (d0 == 0 and p1 != p0):
            return f'decider.update(): sizes {info[0]} -> {info[1]}'
    elif t == 'P':
        if p1 != max(p0 - 1, 0) or (d1, h1) != (d0, h0):
            return f'producer.update(): sizes {info[0]} -> {info[1]}'
        if p0 > 0 and (r1 != r0 + 1 or f1 not in (f0, f0 + 1)) or p0 == 0 and (r1, f1) != (r0, f0):
            return f'producer.update(): sizes {info[0]} -> {info[1]}'
    elif t == 'F':
        # one complex event taken if any; a response pending BEFORE the call must be taken; one produced by this very
        # call may or may not be taken in the same call (the property does not say); never more than one
        popped = 1 if f0 > 0 else 0
        resp = h0 + nex - h1
        lo, hi = (1 if h0 > 0 else 0), (1 if (h0 + nex) > 0 else 0)
        if f1 != f0 - popped or nex > popped or not (lo <= resp <= hi) or r1 != r0 + resp or (d1, p1) != (d0, p0):
            return f'forwarder.update(): sizes {info[0]} -> {info[1]} with {nex} execute() calls'
    return None


def final_oracle(rig: Rig, ordered_exec=True):
    """returns [(sig, what)] after the engine was drained.  ordered_exec=False (asynchronous handlers): the execute()
    calls happen in the pool's completion order, so they are matched with the complex events as a multiset of objects;
    action events still follow the execute() calls one by one (the response queue is FIFO)."""
    out = []
    sz = rig.sizes()
    if any(sz):
        out.append(('stranded', f'queues not empty after draining: sizes (receiver, decider, producer, forwarder, handler) = {sz}'))
        return out
    # 1. conservation receiver -> decider
    expect = []
    for x in rig.entry_log:
        d = x[1] if isinstance(x, tuple) else x
        if rig.validator.is_valid(d):
            expect.append(x)
    seen = rig.seen
    ok = len(expect) == len(seen)
    if ok:
        for x, e in zip(expect, seen):
            if isinstance(x, tuple):
                if not (isinstance(e, BoboEventSimple) and (e.data is x[1] or (e.data == x[1] and type(e.data) is type(x[1])))):
                    ok = False
            elif e is not x:
                ok = False
    if not ok:
        out.append(('stream-not-conserved',
                    f'decider saw {len(seen)} events {[show_event(e) for e in seen][:8]} for {len(expect)} accepted items '
                    f'{[show_data(x[1]) if isinstance(x, tuple) else show_event(x) for x in expect][:8]}'))
    if len(rig.published) != len(seen) or any(a is not b for a, b in zip(rig.published, seen)):
        out.append(('stream-not-conserved', 'stream published by the receiver differs from the stream the decider processed'))
    # 2. completed -> complex events
    completed = [r for (c, _h, _u, loc) in rig.notifs for r in c]
    halted = [r for (_c, h, _u, loc) in rig.notifs for r in h]
    cx = [c for c, _ in rig.complexes]
    if len(cx) != len(completed):
        out.append(('complex-count', f'{len(completed)} completed runs notified but {len(cx)} complex events produced'))
    else:
        for r, e in zip(completed, cx):
            ph = rig.phen_objs.get(r.phenomenon_name)
            want = None
            dg = getattr(rig, 'given_dg', {}).get(r.phenomenon_name, ph.datagen if ph is not None else None)
            if ph is not None and dg is not None:
                want = dg(ph, r.history)
            if not (isinstance(e, BoboEventComplex) and e.phenomenon_name == r.phenomenon_name
                    and e.pattern_name == r.pattern_name and e.history is r.history and e.data == want):
                out.append(('complex-fields', f'complex event {show_event(e)} does not carry run {show_rec(r)} / datagen {want!r}'))
                break
    for e in cx:
        if any(e.history is h.history for h in halted):
            out.append(('halted-yielded', f'complex event {show_event(e)} was built from a halted run'))
    # 3. complex -> executions
    want_ex = [e for e in cx if e.phenomenon_name in rig.fwd_phens and rig.fwd_phens[e.phenomenon_name].action is not None]
    got_ex = [e for _n, e, _r in rig.exec_log]
    if not ordered_exec and len(want_ex) == len(got_ex):
        # every wanted complex event executed exactly once (objects, not equality), in whatever order
        rest = list(got_ex)
        for e in want_ex:
            k = next((i for i, g in enumerate(rest) if g is e), None)
            if k is None:
                rest = None
                break
            rest.pop(k)
        bad_ex = rest is None or bool(rest)
    else:
        bad_ex = len(want_ex) != len(got_ex) or any(a is not b for a, b in zip(want_ex, got_ex))
    if bad_ex:
        out.append(('execute-count', f'{len(want_ex)} complex events of phenomena with an action, {len(got_ex)} execute() calls '
                                     f'(or not with those events' + (' in order)' if ordered_exec else ', each exactly once)')))
    else:
        for (n, e, _r) in rig.exec_log:
            if n != rig.fwd_phens[e.phenomenon_name].action.name:
                out.append(('execute-count', f'action {n} executed for phenomenon {e.phenomenon_name}'))
    # 4. executions -> action events
    if len(rig.actions) != len(rig.exec_log):
        out.append(('action-event-count', f'{len(rig.exec_log)} execute() calls but {len(rig.actions)} action events'))
    else:
        for (n, e, (succ, data)), a in zip(rig.exec_log, rig.actions):
            if not (isinstance(a, BoboEventAction) and a.action_name == n and a.success == succ and a.data == data
                    and a.phenomenon_name == e.phenomenon_name and a.pattern_name == e.pattern_name):
                out.append(('action-event-fields', f'action event {show_event(a)} does not report execute({show_event(e)}) = {(succ, data)!r}'))
                break
    # 5. feedback exactly once
    for e in cx + rig.actions:
        k = sum(1 for s in seen if s is e)
        want = 1 if rig.validator.is_valid(e) else 0
        if k != want:
            out.append(('feedback', f'{show_event(e)} re-entered the stream {k} times (expected {want})'))
            break
    return out


# --------------------------------------------------------------------------
# running one case
# --------------------------------------------------------------------------

def run_case(case, want_lines=True):
    """returns (model lines, impl lines, violations[(sig, what)], stats)"""
    rig = Rig(case)
    lines, outs, viol = [], [], []
    tR, tD, tP, tF, early = case['cfg']
    lines.append(f"cfg {tR} {tD} {tP} {tF} {early} {case['validator']} {case.get('local_only', 1)}")
    outs.append('ok')
    for ph in case['phens']:
        lines.append(f"phen {ph['name']} {ph['where']} {ph['dg']} {ph['act']}")
        outs.append('ok')
    raised = False
    for op in case['ops']:
        line, out, info = rig.do(op)
        lines.append(line)
        outs.append(out)
        if info[3] != '-':
            raised = True
        if op[0] == 'step':
            w = step_oracle(op, info)
            if w:
                viol.append(('update-not-one-item', w))
    # drain: continued engine updates must service every queue
    bound = 40 + 8 * len(case['ops'])
    n = 0
    while any(rig.sizes()) and n < bound:
        line, out, info = rig.do(['update'])
        lines.append(line)
        outs.append(out)
        if info[3] != '-':
            raised = True
        n += 1
    misconfigured = any(p['where'] != 'B' for p in case['phens'])
    if not misconfigured:
        if raised:
            viol.append(('engine-raised', 'an update() raised on a well-formed setup: '
                         + next(o.split(' | err ')[1].split(' | ')[0] for o in outs if ' | err ' in o and ' | err - ' not in o)))
        viol += final_oracle(rig)
    stats = {'completed': sum(len(c) for c, _, _, _ in rig.notifs), 'halted': sum(len(h) for _, h, _, _ in rig.notifs),
             'complex': len(rig.complexes), 'exec': len(rig.exec_log), 'action': len(rig.actions),
             'seen': len(rig.seen), 'drain_updates': n, 'raised': raised,
             'feedback_seen': sum(1 for e in rig.seen if not isinstance(e, BoboEventSimple))}
    return lines, outs, viol, stats


# --------------------------------------------------------------------------
# generators
# --------------------------------------------------------------------------

ALL_CFGS = [[a, b, c, d, e] for a in (0, 1, 2) for b in (0, 1, 2) for c in (0, 1, 2) for d in (0, 1, 2) for e in (0, 1)]


def gen_pred(rng):
    k = rng.choice(('eq', 'eq', 'eq', 'ne', 'lt'))
    return [k, rng.randint(0, 3)]


def gen_pattern(rng, name, lower):
    """lower: names of phenomena this pattern may react to (complex / action events) — acyclic, so feedback terminates."""
    n = rng.choice((1, 1, 2, 2, 3))
    blocks = []
    for i in range(n):
        kind = rng.choice(('fb', 'fb', 'nx'))
        if 0 < i < n - 1 and rng.random() < 0.3:
            kind = rng.choice(('fbl', 'fbo'))
        if lower and rng.random() < 0.35:
            pred = [rng.choice(('cx', 'cx', 'ac')), rng.choice(lower)]
        else:
            pred = gen_pred(rng)
        blocks.append([kind, pred])
    halt = gen_pred(rng) if rng.random() < 0.25 else None
    return {'name': name, 'blocks': blocks, 'halt': halt, 'singleton': rng.random() < 0.2}


def gen_case(rng, cfg, build):
    nph = rng.choice((1, 2, 2, 3))
    phens = []
    for i in range(nph):
        lower = [p['name'] for p in phens]
        pats = [gen_pattern(rng, f'pa{i}{j}', lower) for j in range(rng.choice((1, 1, 2)))]
        phens.append({'name': f'p{i}', 'where': 'B',
                      'dg': rng.choice(('-', 'cnt', 'grp', 'k7')),
                      'act': rng.choice(('-', f'a{i}:t', f'a{i}:f', f'a{i}:h')),
                      'patterns': pats})
    validator = rng.choice(('all', 'all', 'all', 'int', 'intstr'))
    ops = []
    nxt = 0
    fine = build == 'hand' and rng.random() < 0.25
    for _ in range(rng.randint(3, 14)):
        r = rng.random()
        if r < 0.6:
            q = rng.random()
            if q < 0.8:
                ops.append(['add', 'raw', f'i{rng.randint(0, 3)}'])
            elif q < 0.88:
                ops.append(['add', 'raw', 'none'])
            elif q < 0.94:
                ops.append(['add', 'raw', 's' + rng.choice('ab')])
            else:
                ops.append(['add', 'sev', f'x{nxt}', 100 + nxt, rng.choice(('none', f'i{rng.randint(0, 3)}', 'sa'))])
                nxt += 1
        elif fine and r < 0.9:
            ops.append(['step', rng.choice('RRDDPF')])
        else:
            ops.append(['update'])
    return {'build': build, 'cfg': cfg, 'validator': validator, 'phens': phens, 'ops': ops,
            'local_only': 0 if build == 'hand' and rng.random() < 0.35 else 1,      # a forwarder that also serves peers' completions
            'recycle': int(rng.random() < 0.3),                                      # run identifiers from a pool of slots (SlotGen)
            'opaque': int(validator == 'all' and rng.random() < 0.4)}


def witness_times0():
    """the state of theorem times0_does_not_drain: a matcher that reports no change leaves the decider queue non-empty."""
    return {'build': 'simple', 'cfg': [0, 0, 0, 0, 1], 'validator': 'all', 'local_only': 1,
            'phens': [{'name': 'p0', 'where': 'B', 'dg': '-', 'act': '-',
                       'patterns': [{'name': 'pa', 'blocks': [['fb', ['never']]], 'halt': None}]}],
            'ops': [['add', 'raw', 'i1'], ['add', 'raw', 'i2'], ['update']]}


def witness_recv_none():
    """receiver.update() returns False for a queued None although it consumed (and published) it."""
    return {'build': 'simple', 'cfg': [0, 0, 0, 0, 1], 'validator': 'all', 'local_only': 1,
            'phens': [{'name': 'p0', 'where': 'B', 'dg': '-', 'act': '-',
                       'patterns': [{'name': 'pa', 'blocks': [['fb', ['never']]], 'halt': None}]}],
            'ops': [['add', 'raw', 'none'], ['add', 'raw', 'i2'], ['update']]}


def fixed_cases():
    one = {'name': 'pa', 'blocks': [['fb', ['eq', 1]]], 'halt': None}
    two = {'name': 'pb', 'blocks': [['nx', ['eq', 1]], ['nx', ['eq', 2]]], 'halt': None}
    hier = {'name': 'pq', 'blocks': [['fb', ['cx', 'p0']], ['fb', ['ac', 'p0']]], 'halt': None}
    yield witness_times0()
    yield witness_recv_none()
    for cfg in ([0, 0, 0, 0, 1], [1, 1, 1, 1, 1], [2, 2, 2, 2, 0], [1, 2, 0, 1, 0], [0, 1, 1, 2, 1]):
        b = 'simple' if cfg == [0, 0, 0, 0, 1] else 'hand'
        yield {'build': b, 'cfg': cfg, 'validator': 'all', 'local_only': 1,
               'phens': [{'name': 'p0', 'where': 'B', 'dg': 'cnt', 'act': 'a0:t', 'patterns': [one, two]},
                         {'name': 'p1', 'where': 'B', 'dg': '-', 'act': 'a1:h', 'patterns': [hier]}],
               'ops': [['add', 'raw', 'i1'], ['add', 'raw', 'i3'], ['update'], ['add', 'raw', 'i1'], ['add', 'raw', 'i2'],
                       ['add', 'raw', 'none'], ['add', 'raw', 'i1'], ['update'], ['update']]}
    # fine-grained interleaving of single task updates with input
    yield {'build': 'hand', 'cfg': [1, 1, 1, 1, 1], 'validator': 'int', 'local_only': 1,
           'phens': [{'name': 'p0', 'where': 'B', 'dg': 'k7', 'act': 'a0:f', 'patterns': [one]}],
           'ops': [['add', 'raw', 'i1'], ['add', 'raw', 'i1'], ['step', 'R'], ['step', 'R'], ['step', 'D'], ['step', 'D'],
                   ['step', 'P'], ['step', 'P'], ['step', 'F'], ['add', 'raw', 'sa'], ['step', 'F'], ['step', 'F'], ['step', 'R']]}
    # producer / forwarder built with a different phenomena list than the decider (producer raises; forwarder skips)
    yield {'build': 'hand', 'cfg': [0, 0, 0, 0, 1], 'validator': 'all', 'local_only': 1,
           'phens': [{'name': 'p0', 'where': 'F', 'dg': 'cnt', 'act': 'a0:t', 'patterns': [one]},
                     {'name': 'p1', 'where': 'P', 'dg': 'cnt', 'act': 'a1:t', 'patterns': [{'name': 'pz', 'blocks': [['fb', ['eq', 2]]], 'halt': None}]}],
           'ops': [['add', 'raw', 'i2'], ['update'], ['add', 'raw', 'i1'], ['add', 'raw', 'i2'], ['update'], ['update']]}


def corpus_cases():
    d = CORPUS / 'C02'
    if d.is_dir():
        for p in sorted(d.glob('*.json')):
            yield json.loads(p.read_text())


def all_cases(ctx: Ctx):
    for c in corpus_cases():
        yield c
    for c in fixed_cases():
        yield c
    rng = ctx.rng
    per_cfg = 150 if ctx.thorough else 12
    for cfg in ALL_CFGS:
        for _ in range(per_cfg):
            yield gen_case(rng, cfg, 'hand')
    for _ in range(6000 if ctx.thorough else 500):
        yield gen_case(rng, [0, 0, 0, 0, 1], 'simple')


# --------------------------------------------------------------------------
# the asynchronous handlers: real handler objects, deterministic pool (tie with `bobodrv engineA`)
# --------------------------------------------------------------------------

class DummyAsyncResult:
    """what the recording pool returns from starmap_async (the forwarder drops it)."""

    def ready(self):
        return False


class RecordingPool:
    """
    test double of multiprocessing.pool.ThreadPool / multiprocessing.Pool: `starmap_async` only RECORDS the job;
    nothing runs until the harness's `complete k` pops the k-th recorded job and calls fn(*args) itself.
    """

    def __init__(self, processes=None, *a, **k):
        self.jobs = []        # (fn, args) submitted and not yet run, in submission order
        self.submitted = []   # every (fn, args) ever submitted
        self.closed = False
        self.joined = False

    def starmap_async(self, fn, iterable, *a, **k):
        for args in list(iterable):
            self.jobs.append((fn, tuple(args)))
            self.submitted.append((fn, tuple(args)))
        return DummyAsyncResult()

    def close(self):
        self.closed = True

    def join(self):
        self.joined = True

    def terminate(self):
        self.closed = True


class LocalManager:
    """stands in for multiprocessing.Manager() while a BoboActionHandlerMultiprocessing is constructed: an in-process queue."""

    def Queue(self, *a, **k):
        import queue
        return queue.Queue(*a, **k)

    def shutdown(self):
        pass


def make_async_handler(kind):
    """a REAL BoboActionHandlerMultithreading ('mt') / BoboActionHandlerMultiprocessing ('mp') whose pool is a
    RecordingPool.  The handler classes import their pool classes inside __init__, so the names are swapped in the
    multiprocessing modules for the duration of the constructor call only (no thread / process is ever started)."""
    import multiprocessing
    import multiprocessing.pool as mpp
    from bobocep.cep.action.handler import BoboActionHandlerMultithreading, BoboActionHandlerMultiprocessing
    if kind == 'mt':
        saved = mpp.ThreadPool
        mpp.ThreadPool = RecordingPool
        try:
            h = BoboActionHandlerMultithreading(threads=2, max_size=0)
        finally:
            mpp.ThreadPool = saved
    elif kind == 'mp':
        saved = (multiprocessing.Pool, multiprocessing.Manager)
        multiprocessing.Pool, multiprocessing.Manager = RecordingPool, LocalManager
        try:
            h = BoboActionHandlerMultiprocessing(processes=2, max_size=0)
        finally:
            multiprocessing.Pool, multiprocessing.Manager = saved
    else:
        raise ValueError(kind)
    if not isinstance(h._pool, RecordingPool):   # the constructor got its pool some other way: replace it afterwards
        real = h._pool
        real.terminate()
        real.join()
        h._pool = RecordingPool()
    return h


def show_pool(script):
    return '-' if not script else ';'.join(','.join(str(k) for k in g) if g else '_' for g in script)


class RigA(Rig):
    """the real engine with a real asynchronous handler over a RecordingPool.  Operations in addition to Rig's:
       ['complete', k]            the pool finishes the k-th job in flight (out of range: nothing happens)
       ['update', script] / ['step', T, script]
                                  completions INSIDE the call: the head group of `script` is popped and completed
                                  right before every task.update() call and between the forwarder's
                                  _update_handler() and _update_responses() (instance-level wrappers) — the
                                  linearisation points of Model/EngineAsync.lean `stepA`."""

    def __init__(self, case):
        self.pool_script = []
        self.job_errors = []
        super().__init__(case)
        self.pool = self.handler._pool
        eng = self.eng
        for t in (eng.receiver, eng.decider, eng.producer, eng.forwarder):
            def upd(orig=t.update):
                self.pool_point()
                return orig()
            t.update = upd
        orig_resp = eng.forwarder._update_responses

        def resp():
            self.pool_point()
            return orig_resp()
        eng.forwarder._update_responses = resp

    def make_handler(self, case):
        return make_async_handler(case['handler'])

    def pool_point(self):
        if self.pool_script:
            for k in self.pool_script.pop(0):
                self.complete(k)

    def complete(self, k):
        """what a pool worker does with the k-th pending job; an exception stays in the worker (AsyncResult)."""
        jobs = self.pool.jobs
        if 0 <= k < len(jobs):
            fn, args = jobs.pop(k)
            try:
                fn(*args)
            except Exception as e:
                self.job_errors.append(f'{e.__class__.__name__}: {e}')
                return f'{e.__class__.__name__}'
        return '-'

    def inflight(self):
        return len(self.pool.jobs)

    def begin_op(self, op):
        script = op[2] if op[0] == 'step' and len(op) > 2 else op[1] if op[0] == 'update' and len(op) > 1 else []
        self.pool_script = [list(g) for g in script]
        return f' pool {show_pool(script)}' if script else ''

    def do_other(self, op):
        if op[0] != 'complete':
            raise ValueError(op)
        err = self.complete(op[1])
        return f'complete {op[1]}', err

    def out_suffix(self, op):
        js = self.pool.jobs
        s = f' | fl {len(js)} ' + (';'.join(f'{a[1].name}@{a[2].event_id}' for _f, a in js) if js else '-')
        if op[0] in ('update', 'step'):
            s += f' | pool {len(self.pool_script)}'
        return s


def step_oracle_async(op, info, fl0, fl1):
    """step_oracle for the asynchronous handler: `nex` executions happened inside the call (pool script), each of them
    put one response; the forwarder's own call dispatches (never executes) at most one job and takes at most one response."""
    (r0, d0, p0, f0, h0), (r1, d1, p1, f1, h1), nex, err = info
    if err != '-':
        return None
    if op[1] != 'F':
        w = step_oracle(op, ((r0, d0, p0, f0, h0), (r1, d1, p1, f1, h1 - nex), nex, err))
        if w is None and fl1 != fl0 - nex:
            w = f'{op[1]}.update(): jobs in flight {fl0} -> {fl1} with {nex} completions'
        return w
    popped = 1 if f0 > 0 else 0
    disp = fl1 - fl0 + nex
    resp = h0 + nex - h1
    if f1 != f0 - popped or not (0 <= disp <= popped) or not ((1 if h0 > 0 else 0) <= resp <= 1) or r1 != r0 + resp \
            or (d1, p1) != (d0, p0):
        return (f'forwarder.update(): sizes {info[0]} -> {info[1]}, jobs in flight {fl0} -> {fl1}, '
                f'{nex} completions inside the call')
    return None


def dispatch_oracle(rig: RigA):
    """every complex event of a phenomenon with an action was handed to the pool exactly once, in the order the
    forwarder took them, as _pool_execute_action(handler queue, the phenomenon's action, the event, max_size)."""
    import bobocep.cep.action.handler as hmod
    cx = [c for c, _ in rig.complexes]
    want = [e for e in cx if e.phenomenon_name in rig.fwd_phens and rig.fwd_phens[e.phenomenon_name].action is not None]
    sub = rig.pool.submitted
    if len(sub) != len(want):
        return f'{len(want)} complex events of phenomena with an action, {len(sub)} jobs submitted to the pool'
    for e, (fn, args) in zip(want, sub):
        if fn is not hmod._pool_execute_action or len(args) != 4:
            return f'job submitted for {show_event(e)} is not _pool_execute_action(queue, action, event, max_size)'
        q, act, ev, ms = args
        if q is not rig.handler._get_queue() or act is not rig.fwd_phens[e.phenomenon_name].action or ev is not e or ms != 0:
            return f'job submitted for {show_event(e)} carries queue/action/event/max_size = ' \
                   f'{q is rig.handler._get_queue()}/{getattr(act, "name", act)}/{show_event(ev)}/{ms}'
    return None


class AsyncRun:
    """one case of the asynchronous family, op by op (so that a generator can look at the state before choosing)."""

    def __init__(self, case):
        self.case = case
        self.rig = rig = RigA(case)
        self.lines, self.outs, self.viol = [], [], []
        self.ops = []
        self.raised = False
        self.completes = self.ooo = self.noop = self.inside = self.max_fl = 0
        tR, tD, tP, tF, early = case['cfg']
        self.lines.append(f"cfg {tR} {tD} {tP} {tF} {early} {case['validator']} {case.get('local_only', 1)}")
        self.outs.append('ok')
        for ph in case['phens']:
            self.lines.append(f"phen {ph['name']} {ph['where']} {ph['dg']} {ph['act']}")
            self.outs.append('ok')

    def do(self, op):
        rig = self.rig
        fl0, nerr = rig.inflight(), len(rig.job_errors)
        line, out, info = rig.do(op)
        fl1 = rig.inflight()
        self.ops.append(op)
        self.lines.append(line)
        self.outs.append(out)
        self.max_fl = max(self.max_fl, fl1)
        if op[0] == 'complete':
            if info[2]:
                self.completes += 1
                if op[1] != 0:
                    self.ooo += 1
            else:
                self.noop += 1
        elif op[0] in ('update', 'step'):
            self.inside += info[2]
            if info[3] != '-':
                self.raised = True
            if op[0] == 'step':
                w = step_oracle_async(op, info, fl0, fl1)
                if w:
                    self.viol.append(('update-not-one-item', w))
        if len(rig.job_errors) > nerr:
            self.viol.append(('job-raised', f'_pool_execute_action raised in the pool: {rig.job_errors[-1]}'))

    def finish(self):
        """complete everything in flight (last dispatched first), then engine updates, until nothing is left anywhere."""
        rig = self.rig
        bound = 40 + 8 * len(self.ops)
        n = 0
        while (any(rig.sizes()) or rig.inflight()) and n < bound:
            guard = rig.inflight() + 1
            while rig.inflight() and guard:
                self.do(['complete', rig.inflight() - 1])
                guard -= 1
            self.do(['update'])
            n += 1
        case = dict(self.case, ops=self.ops)
        viol = self.viol
        misconfigured = any(p['where'] != 'B' for p in case['phens'])
        if not misconfigured:
            if self.raised:
                viol.append(('engine-raised', 'an update() raised on a well-formed setup: '
                             + next(o.split(' | err ')[1].split(' | ')[0] for o in self.outs if ' | err ' in o and ' | err - ' not in o)))
            if rig.inflight():
                viol.append(('stranded', f'{rig.inflight()} jobs still in flight after completing everything'))
            viol += final_oracle(rig, ordered_exec=False)
            w = dispatch_oracle(rig)
            if w:
                viol.append(('dispatch', w))
        stats = {'completed': sum(len(c) for c, _, _, _ in rig.notifs), 'exec': len(rig.exec_log), 'action': len(rig.actions),
                 'complex': len(rig.complexes), 'drain_updates': n, 'completes': self.completes, 'out_of_order': self.ooo,
                 'noop_completes': self.noop, 'inside_update': self.inside, 'max_inflight': self.max_fl,
                 'order_differs': [id(e) for _n, e, _r in rig.exec_log] != [id(a[2]) for _f, a in rig.pool.submitted][:len(rig.exec_log)]}
        return case, self.lines, self.outs, [('async-' + s, w) for s, w in viol], stats


def run_case_async(case):
    r = AsyncRun(case)
    for op in case['ops']:
        r.do(op)
    return r.finish()


def gen_pool_script(rng, fl):
    hi = max(2, fl + 1)
    return [[rng.randint(0, hi) for _ in range(rng.choice((0, 1, 1, 1, 2)))] for _ in range(rng.randint(1, 6))]


def gen_run_async(rng, cfg, build, handler):
    """generate AND run one case: `complete k` is drawn from the range of jobs actually in flight at that moment
    (rarely beyond it); the concrete operations end up in the case, which is therefore replayable as it is."""
    base = gen_case(rng, cfg, build)
    # phenomena mostly with an action: the interesting part is the pool
    for i, ph in enumerate(base['phens']):
        if ph['act'] == '-' and rng.random() < 0.6:
            ph['act'] = rng.choice((f'a{i}:t', f'a{i}:f', f'a{i}:h'))
    if rng.random() < 0.6:
        # a busy first phenomenon (a one-block pattern most data complete), so that several jobs are in flight at once
        ph = base['phens'][0]
        ph['patterns'][0] = dict(ph['patterns'][0], blocks=[['fb', [rng.choice(('ne', 'lt')), rng.randint(1, 3)]]], halt=None)
        if ph['act'] == '-':
            ph['act'] = rng.choice(('a0:t', 'a0:f', 'a0:h'))
    case = dict(base, handler=handler, ops=[])
    r = AsyncRun(case)
    fine = build == 'hand' and rng.random() < 0.25
    scripted = rng.random() < 0.4
    lazy = rng.random() < 0.5       # a slow pool: completions are rare, jobs pile up
    nxt = 0
    for _ in range(rng.randint(8, 30)):
        x = rng.random()
        fl = r.rig.inflight()
        if x < 0.45:
            q = rng.random()
            if q < 0.88:
                op = ['add', 'raw', f'i{rng.randint(0, 3)}']
            elif q < 0.92:
                op = ['add', 'raw', 'none']
            elif q < 0.96:
                op = ['add', 'raw', 's' + rng.choice('ab')]
            else:
                op = ['add', 'sev', f'x{nxt}', 100 + nxt, rng.choice(('none', f'i{rng.randint(0, 3)}', 'sa'))]
                nxt += 1
        elif x < (0.52 if lazy else 0.65) and (fl or rng.random() < 0.05):
            if fl and rng.random() < 0.95:
                # prefer anything but the oldest job, so that completion order differs from dispatch order
                k = rng.randint(1, fl - 1) if fl > 1 and rng.random() < 0.6 else rng.randint(0, fl - 1)
            else:
                k = fl + rng.randint(0, 2)
            op = ['complete', k]
        elif fine and x < 0.9:
            op = ['step', rng.choice('RDPFFF')]
            if scripted and rng.random() < 0.5:
                op.append(gen_pool_script(rng, fl)[:2])
        else:
            op = ['update']
            if scripted and rng.random() < 0.6:
                op.append(gen_pool_script(rng, fl))
        r.do(op)
    return r.finish()


def fixed_cases_async():
    one = {'name': 'pa', 'blocks': [['fb', ['eq', 1]]], 'halt': None}
    hier = {'name': 'pq', 'blocks': [['fb', ['cx', 'p0']], ['fb', ['ac', 'p0']]], 'halt': None}
    phens = [{'name': 'p0', 'where': 'B', 'dg': 'cnt', 'act': 'a0:t', 'patterns': [one]},
             {'name': 'p1', 'where': 'B', 'dg': '-', 'act': 'a1:h', 'patterns': [hier]}]
    for handler in ('mt', 'mp'):
        for cfg in ([0, 0, 0, 0, 1], [1, 1, 1, 1, 1], [2, 1, 0, 2, 0]):
            b = 'simple' if cfg == [0, 0, 0, 0, 1] else 'hand'
            # three jobs in flight, completed 2nd, 3rd, 1st; one completion between the forwarder's two halves
            yield {'build': b, 'cfg': cfg, 'validator': 'all', 'local_only': 1, 'handler': handler, 'phens': phens,
                   'ops': [['add', 'raw', 'i1'], ['add', 'raw', 'i1'], ['add', 'raw', 'i1']] + [['update']] * 4
                          + [['complete', 1], ['complete', 1], ['complete', 5], ['update'], ['complete', 0], ['update'],
                             ['add', 'raw', 'i1'], ['update'], ['update'], ['update'], ['update', [[], [], [], [], [0]]],
                             ['step', 'F', [[], [0]]], ['update']]}
    # a forwarder whose phenomena list lacks the phenomenon: nothing is dispatched
    yield {'build': 'hand', 'cfg': [0, 0, 0, 0, 1], 'validator': 'all', 'local_only': 1, 'handler': 'mt',
           'phens': [{'name': 'p0', 'where': 'P', 'dg': 'cnt', 'act': 'a0:t', 'patterns': [one]}],
           'ops': [['add', 'raw', 'i1'], ['update'], ['complete', 0], ['update']]}


def async_tie_cases(ctx: Ctx):
    """yields finished runs (case, lines, outs, viol, stats) of the asynchronous family."""
    if ctx.replay is not None:
        yield run_case_async(ctx.replay['replay'])
        return
    d = CORPUS / 'C02' / 'async'
    if d.is_dir():
        for p in sorted(d.glob('*.json')):
            yield run_case_async(json.loads(p.read_text()))
    for c in fixed_cases_async():
        yield run_case_async(c)
    rng = ctx.rng
    for cfg in ALL_CFGS:
        for _ in range(16 if ctx.thorough else 2):
            yield gen_run_async(rng, cfg, 'hand', 'mp' if rng.random() < 0.25 else 'mt')
    for _ in range(1500 if ctx.thorough else 150):
        yield gen_run_async(rng, [0, 0, 0, 0, 1], 'simple', 'mp' if rng.random() < 0.25 else 'mt')


def async_tie(ctx: Ctx, res: Result):
    """the asynchronous family: oracle on the real engine + op-by-op comparison with `bobodrv engineA`."""
    runs = list(async_tie_cases(ctx))
    all_lines, all_outs, owner = [], [], []
    for k, (case, lines, outs, viol, st) in enumerate(runs):
        res.add_case(case, nontrivial=st['exec'] > 0)
        res.count('asyncA_cases')
        res.count('asyncA_handler_' + case['handler'])
        res.count('asyncA_build_' + case['build'])
        res.count('asyncA_executions', st['exec'])
        res.count('asyncA_action_events', st['action'])
        res.count('asyncA_completions_between_calls', st['completes'])
        res.count('asyncA_completions_not_of_the_oldest_job', st['out_of_order'])
        res.count('asyncA_completions_out_of_range', st['noop_completes'])
        res.count('asyncA_completions_inside_update_or_step', st['inside_update'])
        res.count('asyncA_cases_max_inflight_ge_2' if st['max_inflight'] >= 2 else 'asyncA_cases_max_inflight_lt_2')
        if any(o[0] == 'step' for o in case['ops']):
            res.count('asyncA_cases_with_single_task_steps')
        if st['order_differs']:
            res.count('asyncA_cases_execution_order_differs_from_dispatch_order')
        for sig, what in viol:
            res.violations.append(Violation(sig=sig, what=what, replay=case))
        all_lines += lines
        all_outs += outs
        owner += [k] * len(lines)
    if ctx.model_available():
        model_out = run_model('engineA', all_lines)
        res.traces_validated += len(runs)
        bad_cases = set()
        for i, (a, b) in enumerate(zip(model_out, all_outs)):
            if a != b and owner[i] not in bad_cases:
                bad_cases.add(owner[i])
                res.disagreements.append({'case': runs[owner[i]][0], 'op': all_lines[i], 'model': a, 'impl': b})
                if len(bad_cases) > 5:
                    break
    else:
        res.disagreements.append({'correspondence': 'engineA', 'error': 'model driver did not build'})


def replay_notes(res: Result):
    """the honest negatives, replayed on the real engine on every run (not violations)."""
    rig = Rig(witness_times0())
    for op in witness_times0()['ops']:
        rig.do(op)
    sz = rig.sizes()
    res.notes.append(f'times0_does_not_drain replayed on the real engine: times_decider=0, stream 1,2, nothing matches: '
                     f'after ONE engine.update() decider.size()={sz[1]} (update() returned False on an event that changed nothing); '
                     + ('as the model proves' if sz[1] == 1 else 'DIFFERS from the model witness (expected 1)'))
    rig = Rig(witness_recv_none())
    for op in witness_recv_none()['ops']:
        rig.do(op)
    sz = rig.sizes()
    res.notes.append(f'times0_receiver_does_not_drain replayed: add_data(None) under BoboValidatorAll is accepted, published as a simple '
                     f'event, but receiver.update() returns False for it: after ONE engine.update() receiver.size()={sz[0]}, decider.size()={sz[1]}; '
                     + ('as the model proves' if sz[0] == 1 else 'DIFFERS from the model witness (expected 1)'))
    return res


def remote_completion_cases(res):
    """"complex and action events re-enter the stream; nothing is lost" also for a completion the instance LEARNS from a
    peer (`on_distributed_update` with a completed record): one complex event with local=False, no action run under the
    default local-only forwarding, and the complex event comes back through the receiver to the decider like any other --
    a pattern over complex events advances on it -- and every queue drains."""
    from bobocep.cep.engine.decider.runserial import BoboRunSerial
    from bobocep.cep.event import BoboHistory
    for build in ('simple', 'hand'):
        for n_remote in (1, 2):
            case = {'build': build, 'cfg': [0, 0, 0, 0, 1], 'validator': 'all', 'local_only': 1, 'remote_completion': n_remote,
                    'phens': [{'name': 'p0', 'where': 'B', 'dg': 'cnt', 'act': 'a0:t',
                               'patterns': [{'name': 'pa', 'blocks': [['fb', ['eq', 0]], ['fb', ['eq', 1]]], 'halt': None}]},
                              {'name': 'p1', 'where': 'B', 'dg': '-', 'act': '-',
                               'patterns': [{'name': 'pq', 'blocks': [['fb', ['cx', 'p0']], ['fb', ['cx', 'p0']]], 'halt': None}]}],
                    'ops': []}
            rig = Rig(case)
            res.add_case(case, nontrivial=True)
            res.count('remote_completion_cases')
            try:
                for k in range(n_remote):
                    ev0 = BoboEventSimple(event_id=f'q{k}a', timestamp=1, data=0)
                    ev1 = BoboEventSimple(event_id=f'q{k}b', timestamp=2, data=1)
                    rec = BoboRunSerial(f'peer_run_{k}', 'p0', 'pa', 2, BoboHistory({'g0': [ev0], 'g1': [ev1]}))
                    rig.eng.decider.on_distributed_update(completed=[rec], halted=[], updated=[])
                for _ in range(12):
                    rig.eng.update()
            except Exception as e:      # noqa
                res.violations.append(Violation('remote-completion-raised', f"{type(e).__name__}: {e}", case))
                continue
            cx = [(e, loc) for e, loc in rig.complexes if e.phenomenon_name == 'p0']
            if len(cx) != n_remote or any(loc for _, loc in cx):
                res.violations.append(Violation('remote-completion-complex-events', f"{n_remote} completions learned from a peer gave "
                                                f"{[(e.event_id, loc) for e, loc in cx]} complex events (expected {n_remote}, local=False)", case))
                continue
            if rig.exec_log:
                res.violations.append(Violation('remote-completion-action-run', f"the action ran {len(rig.exec_log)} time(s) for completions "
                                                f"learned from a peer (default: local only)", case))
                continue
            back = [e for e in rig.seen if isinstance(e, BoboEventComplex) and e.phenomenon_name == 'p0']
            if len(back) != n_remote:
                res.violations.append(Violation('feedback-lost', f"{n_remote} complex event(s) of completions learned from a peer were produced, "
                                                f"{len(back)} came back to the decider through the receiver", case))
                continue
            if n_remote == 2 and not any(e.phenomenon_name == 'p1' for e, _ in rig.complexes):
                res.violations.append(Violation('feedback-lost', "the pattern over two complex events of p0 did not complete on the two complex "
                                                "events of completions learned from a peer", case))
                continue
            if any(rig.sizes()):
                res.violations.append(Violation('queues-not-drained', f"sizes after 12 updates: {rig.sizes()}", case))


def two_engines_cases(res):
    """two (three) engines alive in ONE process, built the way the setup class builds them and not connected to each other:
    each sees exactly its own data and its own fed-back events, produces one complex event, one action run and one action
    event per run IT completed -- whatever the other engines do meanwhile."""
    for n_eng in (2, 3):
        for order in ('interleaved', 'one-after-the-other'):
            case = {'two_engines': n_eng, 'order': order}
            res.add_case(case, nontrivial=True)
            res.count('several_engines_cases')
            rigs = []
            for k in range(n_eng):
                rigs.append(Rig({'build': 'simple', 'cfg': [0, 0, 0, 0, 1], 'validator': 'all', 'local_only': 1,
                                 'phens': [{'name': 'p0', 'where': 'B', 'dg': 'cnt', 'act': f'a{k}:t',
                                            'patterns': [{'name': 'pa', 'blocks': [['fb', ['eq', 0]], ['fb', ['eq', 1]]], 'halt': None}]}],
                                 'ops': []}))
            feeds = [[0, 1], [0, 0, 1, 1], [1, 0]][:n_eng]      # engine k completes 1, 2, 0 runs
            try:
                if order == 'interleaved':
                    for i in range(4):
                        for k, rig in enumerate(rigs):
                            if i < len(feeds[k]):
                                rig.eng.receiver.add_data(feeds[k][i])
                            rig.eng.update()
                else:
                    for k, rig in enumerate(rigs):
                        for d in feeds[k]:
                            rig.eng.receiver.add_data(d)
                            rig.eng.update()
                for _ in range(8):
                    for rig in rigs:
                        rig.eng.update()
            except Exception as e:      # noqa
                res.violations.append(Violation('engine-raised', f"{case}: {type(e).__name__}: {e}", case))
                continue
            want = [1, 2, 0][:n_eng]
            for k, rig in enumerate(rigs):
                got = (len(rig.complexes), len(rig.exec_log), len(rig.actions))
                fed_back = len([e for e in rig.seen if not isinstance(e, BoboEventSimple)])
                if got != (want[k], want[k], want[k]) or fed_back != 2 * want[k] or any(rig.sizes()):
                    res.violations.append(Violation(
                        'counts-differ', f"{case}: engine {k} completed {want[k]} run(s) of its own and shows (complex events, action runs, "
                        f"action events) = {got}, {fed_back} fed-back events at its decider (expected {2 * want[k]}), sizes {rig.sizes()}", case))
                    break


def run(ctx: Ctx) -> Result:
    res = Result()
    if ctx.replay is None or (isinstance(ctx.replay.get('replay'), dict) and ctx.replay['replay'].get('two_engines')):
        two_engines_cases(res)
        if ctx.replay is not None:
            return res
    if ctx.replay is None or (isinstance(ctx.replay.get('replay'), dict) and ctx.replay['replay'].get('remote_completion')):
        remote_completion_cases(res)
        if ctx.replay is not None:
            return res
    if ctx.replay is not None and isinstance(ctx.replay.get('replay'), dict) and ctx.replay['replay'].get('outage'):
        outage_handler_cases(res)
        return res
    rp = ctx.replay['replay'] if ctx.replay is not None else None
    rp_tie = isinstance(rp, dict) and rp.get('handler') in ('mt', 'mp')     # a replay of the asynchronous tie family
    if ctx.replay is not None:
        cs = [rp] if not rp.get('async') and not rp_tie else []
    else:
        cs = list(all_cases(ctx))
        replay_notes(res)
    all_lines, all_outs, owner = [], [], []
    for k, case in enumerate(cs):
        lines, outs, viol, st = run_case(case)
        nontrivial = st['completed'] > 0 or st['halted'] > 0
        res.add_case(case, nontrivial=nontrivial)
        res.count('build_' + case['build'])
        res.count('cfg_has_times0' if 0 in case['cfg'][:4] else 'cfg_all_positive')
        res.count('early_stop_on' if case['cfg'][4] else 'early_stop_off')
        res.count('validator_' + case['validator'])
        res.count('completed_runs', st['completed'])
        res.count('halted_runs', st['halted'])
        res.count('complex_events', st['complex'])
        res.count('executions', st['exec'])
        res.count('action_events', st['action'])
        res.count('events_seen_by_decider', st['seen'])
        res.count('feedback_events_seen', st['feedback_seen'])
        res.count('drain_updates', st['drain_updates'])
        if any(o[0] == 'step' for o in case['ops']):
            res.count('cases_with_single_task_steps')
        if st['raised']:
            res.count('cases_engine_raised')
        for sig, what in viol:
            res.violations.append(Violation(sig=sig, what=what, replay=case))
        all_lines += lines
        all_outs += outs
        owner += [k] * len(lines)
    if ctx.model_available():
        model_out = run_model('engine', all_lines) if all_lines else []     # (a replay of another family: nothing to pipe)
        res.traces_validated = len(cs)
        bad_cases = set()
        for i, (a, b) in enumerate(zip(model_out, all_outs)):
            if a != b and owner[i] not in bad_cases:
                bad_cases.add(owner[i])
                res.disagreements.append({'case': cs[owner[i]], 'op': all_lines[i], 'model': a, 'impl': b})
                if len(res.disagreements) > 5:
                    break
    else:
        res.notes.append('model driver unavailable: correspondence not run')
        res.disagreements.append({'correspondence': 'engine', 'error': 'model driver did not build'})
    if ctx.replay is None or rp_tie:
        async_tie(ctx, res)
    if ctx.replay is None or (isinstance(rp, dict) and rp.get('async')):
        async_handler_cases(ctx, res)
    if ctx.replay is None or (isinstance(rp, dict) and rp.get('feeders')):
        feeders_last_slot(res)
    if ctx.replay is None:
        outage_handler_cases(res)
    return res


def feeders_last_slot(res: Result):
    """two feeder threads and ONE free slot of a bounded receiver (the scenario and its rig are C08's
    `receiver-last-slot-race`): every datum `add_data` accepted must reach the decider — if the look at the free slot and
    the insertion are not one step, the loser waits for room inside the receiver's lock and everything accepted so far is
    stranded (the engine cannot get at the queue any more)."""
    from harness.props import c08
    rec = c08.Recorder()
    payloads = c08.make_payloads(rec)
    for r in c08.full_queue_liveness(payloads, only='receiver-last-slot-race'):
        res.add_case({'feeders': r['scenario']}, nontrivial=True)
        res.count('feeders_last_slot_' + r['result'])
        if r['result'] != 'completed':
            res.violations.append(Violation(
                'accepted-data-stranded',
                f"two feeders, one free slot of a bounded receiver: after 3 s threads {r['alive']} are still blocked "
                f"(waiting for locks: {r['blocked_on_lock']}): the data accepted by add_data never reach the decider",
                {'feeders': True, 'scenario': r['scenario']}))


def async_handler_cases(ctx: Ctx, res: Result):
    """
    Oracle-only (the model covers the blocking handler): the real multithreading handler with actions held behind a
    gate, so that every response arrives AFTER the forwarder pass that dispatched it; continued update() calls must
    still turn every execution into exactly one action event and leave nothing in the handler's queue.
    """
    import threading
    import time as _time
    from bobocep.cep.action.handler import BoboActionHandlerMultithreading
    from bobocep.cep.engine.decider.decider import BoboDecider
    from bobocep.cep.engine.engine import BoboEngine
    from bobocep.cep.engine.forwarder.forwarder import BoboForwarder
    from bobocep.cep.engine.producer.producer import BoboProducer
    from bobocep.cep.engine.receiver.receiver import BoboReceiver
    from bobocep.cep.engine.receiver.validator import BoboValidatorAll
    from bobocep.cep.phenom.pattern.builder import BoboPatternBuilder
    from bobocep.cep.phenom.phenom import BoboPhenomenon

    cfgs = [(0, 0, 0, 0, True), (1, 1, 1, 1, True), (2, 1, 0, 0, False), (0, 0, 0, 2, True), (0, 2, 1, 0, True)]
    for cfg in cfgs:
        for threads in ((1, 2, 4) if ctx.thorough else (1, 2)):
            gate = threading.Event()
            executed = []

            class Gated(BoboAction):
                def execute(self, event):
                    gate.wait(10)
                    executed.append(event.event_id)
                    return True, len(executed)

            pat = BoboPatternBuilder('p').followed_by(lambda e, h: e.data == 0).followed_by(lambda e, h: e.data == 1).generate()
            phen = [BoboPhenomenon('ph', [pat], action=Gated('act'))]
            ids, ts = GenId('e'), GenTs()
            handler = BoboActionHandlerMultithreading(threads=threads)
            rec = BoboReceiver(BoboValidatorAll(), ids, ts)
            dec = BoboDecider(phen, ids, GenId('r'))
            pro = BoboProducer(phen, ids, ts)
            fwd = BoboForwarder(phen, handler, ids, ts)
            eng = BoboEngine(rec, dec, pro, fwd, times_receiver=cfg[0], times_decider=cfg[1], times_producer=cfg[2],
                             times_forwarder=cfg[3], early_stop=cfg[4])
            actions = []

            class Sub(BoboForwarderSubscriber):
                def on_forwarder_update(self, event):
                    actions.append(event)
            fwd.subscribe(Sub())
            stream = [0, 1, 0, 0, 1, 1]
            want = 3 if True else 0
            raised = None
            try:
                for d in stream:
                    rec.add_data(d)
                    for _ in range(6):
                        eng.update()
                gate.set()                       # every response arrives after its dispatching pass
                t0 = _time.time()
                while len(executed) < want and _time.time() - t0 < 10:
                    _time.sleep(0.005)
                while handler.size() < want - len(actions) and _time.time() - t0 < 10:
                    _time.sleep(0.005)
                for _ in range(20):
                    eng.update()
            except Exception as e:               # an exception of the engine is a finding, not a harness failure
                raised = f'{e.__class__.__name__}: {e}'
            finally:
                gate.set()
                handler.close()
                handler.join()
            case = {'async': True, 'cfg': list(cfg), 'threads': threads, 'stream': stream}
            res.add_case(case, nontrivial=True)
            res.count('async_handler_cases')
            if raised is not None:
                res.violations.append(Violation('engine-raised', f'multithreading handler: engine.update() raised on a well-formed setup: {raised}', case))
            elif len(executed) != want:
                res.violations.append(Violation('execute-count', f"multithreading handler: {len(executed)} executions for {want} completed runs", case))
            elif len(actions) != want or handler.size() != 0:
                res.violations.append(Violation(
                    'stranded', f"multithreading handler ({threads} threads, times {cfg[:4]}): {want} executions but {len(actions)} action "
                    f"events after 20 further engine.update() calls; {handler.size()} responses left in the handler queue", case))


def outage_handler_cases(res: Result):
    """after an error: the action fails INSIDE the pool for a while (an outage of whatever it talks to), then works again.
    What the failed executions leave behind must not keep later, perfectly ordinary completed runs from being served:
    each of them still gives one complex event, one execution with that event, one action event, and empty queues.  Real
    thread pool, bounded and unbounded response queue, as many failures as the bound and more."""
    import time as _time
    from bobocep.cep.action.handler import BoboActionHandlerMultithreading
    from bobocep.cep.engine.producer.pubsub import BoboProducerSubscriber
    from bobocep.cep.phenom.pattern.builder import BoboPatternBuilder
    from bobocep.cep.phenom.phenom import BoboPhenomenon
    from bobocep.setup.simple import BoboSetupSimple
    for max_size in (0, 2, 3):
        for n_fail in (2, 3, 5):
            state = {'down': True}
            executed, attempts = [], []

            class Flaky(BoboAction):
                def execute(self, event):
                    attempts.append(event.event_id)
                    if state['down']:
                        raise ConnectionError('service unavailable')
                    executed.append(event)
                    return True, len(executed)

            class Rec(BoboProducerSubscriber, BoboForwarderSubscriber):
                def __init__(self):
                    self.cx, self.ac = [], []

                def on_producer_update(self, event, local):
                    self.cx.append(event)

                def on_forwarder_update(self, event):
                    self.ac.append(event)
            pat = BoboPatternBuilder('p').followed_by(lambda e, h: e.data == 0).followed_by(lambda e, h: e.data == 1).generate()
            handler = BoboActionHandlerMultithreading(threads=2, max_size=max_size)
            eng = BoboSetupSimple(phenomena=[BoboPhenomenon('ph', [pat], action=Flaky('act'))], handler=handler).generate()
            rec = Rec()
            eng.producer.subscribe(rec)
            eng.forwarder.subscribe(rec)
            case = {'outage': True, 'max_size': max_size, 'failures': n_fail}
            res.add_case(case, nontrivial=True)
            res.count('outage_handler_cases')
            raised, bad = None, None

            def one_run():
                for d in (0, 1):
                    eng.receiver.add_data(d)
                    for _ in range(8):
                        eng.update()
            try:
                for k in range(n_fail):
                    one_run()
                    t0 = _time.time()
                    while len(attempts) < k + 1 and _time.time() - t0 < 5:
                        _time.sleep(0.002)
                _time.sleep(0.05)
                state['down'] = False
                for k in range(4):
                    n_cx, n_ex, n_ac = len(rec.cx), len(executed), len(rec.ac)
                    one_run()
                    t0 = _time.time()
                    while (len(executed) < n_ex + 1 or handler.size() + len(rec.ac) < n_ac + 1) and _time.time() - t0 < 3:
                        _time.sleep(0.002)
                    for _ in range(12):
                        eng.update()
                    got = (len(rec.cx) - n_cx, len(executed) - n_ex, len(rec.ac) - n_ac)
                    if got != (1, 1, 1) or executed[-1] is not rec.cx[-1]:
                        bad = (f"run {k + 1} after the outage gave {got[0]} complex event(s), {got[1]} execution(s), {got[2]} action event(s) "
                               f"(one each expected; {n_fail} executions had failed in the pool before, response queue bound {max_size}, "
                               f"responses waiting {handler.size()})")
                        break
            except Exception as e:   # noqa
                raised = f'{e.__class__.__name__}: {e}'
            finally:
                state['down'] = False
                handler.close()
                handler.join()
            if raised is not None:
                res.violations.append(Violation('engine-raised', f"after {n_fail} executions that failed inside the pool (response queue bound "
                                                f"{max_size}, {handler.size()} responses waiting) engine.update() raised on an ordinary run: {raised}", case))
            elif bad is not None:
                res.violations.append(Violation('execute-count', bad, case))


def search(ctx: Ctx) -> Result:
    """failing-input search on the real engine alone with the oracle: every configuration, more and longer scenarios."""
    res = Result()
    rng = ctx.rng
    for rnd in range(6):
        for cfg in ALL_CFGS:
            case = gen_case(rng, cfg, 'hand')
            _l, _o, viol, _st = run_case(case)
            res.evaluations += 1
            if viol:
                res.violations.append(Violation(viol[0][0], viol[0][1], case))
                return res
        for _ in range(100):
            case = gen_case(rng, [0, 0, 0, 0, 1], 'simple')
            _l, _o, viol, _st = run_case(case)
            res.evaluations += 1
            if viol:
                res.violations.append(Violation(viol[0][0], viol[0][1], case))
                return res
        for cfg in ALL_CFGS + [[0, 0, 0, 0, 1]] * 60:
            case, _l, _o, viol, _st = gen_run_async(rng, cfg, 'simple' if cfg == [0, 0, 0, 0, 1] else 'hand',
                                                    'mp' if rng.random() < 0.25 else 'mt')
            res.evaluations += 1
            if viol:
                res.violations.append(Violation(viol[0][0], viol[0][1], case))
                return res
    return res


SPEC = PropSpec(
    prop='C02',
    translators=['wiring'],
    run=run,
    search=search,
    rule='corpus + hand-written cases (times0 witnesses, hierarchical feedback, single-task stepping, mismatched phenomena lists), then '
         'for each of the 3^4*2 = 162 engine configurations (times_* in {0,1,2}, early_stop on/off) 12 (quick) / 150 (thorough) seeded '
         'scenarios built by hand, plus 500 / 6000 built through BoboSetupSimple: 1-3 phenomena x 1-2 real patterns of 1-3 blocks '
         '(followed_by / next / loop / optional, int predicates, predicates on complex and action events of earlier phenomena, '
         'halt conditions, singleton), datagen none/cnt/grp/const, action none/t/f/h, validator all/int/intstr, 3-14 operations '
         '(add int / None / str / ready-made simple event; engine update; single task update), then engine updates until every queue '
         'is empty.  A case is non-trivial when at least one run completed or halted.  '
         'Asynchronous family (compared with the second driver, engineA): hand-written out-of-order scenarios for both handler classes, '
         'then 2 (quick) / 16 (thorough) seeded scenarios per engine configuration built by hand plus 150 / 1500 through BoboSetupSimple, '
         'real BoboActionHandlerMultithreading (3/4) or BoboActionHandlerMultiprocessing (1/4) over a recording pool: phenomena as above '
         '(60%: a busy one-block first phenomenon with an action), 8-30 operations generated WHILE running: add, engine update or single '
         'task update (40% of the cases: with a pool script of 1-6 groups of 0-2 job indices completed inside the call), complete k with '
         'k among the jobs in flight at that moment (60%: not the oldest; 5%: out of range), then complete-everything (newest first) + '
         'engine update until pool, handler queue and task queues are empty.  Non-trivial when at least one action was executed.',
    trusted_base=['the matcher (BoboDecider._process_event and everything below it) is a parameter of the model: its outputs are recorded '
                  'on the real decider through an instance-level wrapper and scripted into the Lean driver',
                  'the ghost (history) fields of the model are never read by the model (theorem ghost_free)',
                  'asynchronous family: the pool (multiprocessing.pool.ThreadPool / multiprocessing.Pool / Manager().Queue) is replaced by '
                  'a recording double; that a real pool runs each submitted job exactly once, at some moment, on some thread, is the '
                  'assumption under which Model/EngineAsync.lean quantifies over every completion order and moment (C20 monitors real pools); '
                  'completions inside an engine update are placed at the model\'s linearisation points by instance-level wrappers of '
                  'task.update and forwarder._update_responses'],
    assumptions=['engine and tasks are not closed; every max_size is 0 (unbounded queues); gen_event is None',
                 'add_data and update() calls are interleaved at the granularity of one task update() (each runs under the task lock); '
                 'theorems hold for every such interleaving, the harness samples engine-level and task-level interleavings on one thread',
                 'validator, datagen and action are pure functions that do not raise; one id generator and one timestamp generator shared by '
                 'receiver, producer and forwarder (as BoboSetupSimple builds them)',
                 'BoboActionHandlerBlocking, BoboActionHandlerMultithreading, BoboActionHandlerMultiprocessing; for the two asynchronous '
                 'ones: the pool runs every submitted job exactly once at an arbitrary moment (between two calls of the engine, or inside an '
                 'engine update where it linearises before a task update() or between the forwarder\'s handle and response halves), actions do '
                 'not raise in the pool, no pickling effects (multiprocessing: action, event and response survive the process boundary '
                 'unchanged; see C20)',
                 '"not left stranded" = continued update() calls service every queue (DESIGN 4.C02); single-call draining with times=0 is '
                 'false of the code (times0_does_not_drain) and is not claimed'],
    model_covers='BoboEngine.__init__ wiring and BoboEngine.update loop shape (generated + proved equal), BoboReceiver.add_data/update/'
                 '_process_data/on_producer_update/on_forwarder_update, BoboDecider.update queue handling and notification rule, '
                 'BoboProducer.update/on_decider_update/_handle_completed_run, BoboForwarder.update/_update_handler/_update_responses/'
                 'on_producer_update, BoboActionHandlerBlocking._execute_action/get_handler_response; Model/EngineAsync.lean: '
                 'BoboActionHandlerMultithreading/BoboActionHandlerMultiprocessing._execute_action (max_size 0: submit, do not run), '
                 '_pool_execute_action (execute, build the response, put it), get_handler_response/size on their queue, and the same '
                 'forwarder / engine loop over them with pool completions at any moment',
)
