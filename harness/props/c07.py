"""
C07 — A restarted instance recovers every partial run from a survivor.

Schedules on real instances in which, at any position, one instance is replaced
by a fresh one (all state lost), and the restarted instance's first messages are
interleaved with the survivors' own sending and receiving — including inside a
survivor's outgoing pass: the incoming handler is run at the atomic-step
boundaries of the outgoing thread (after the decision phase; while a send is in
progress), which is every interleaving of the two threads at the granularity the
device-manager locks make atomic.  Oracles on the real code: after healing, the
restarted instance holds exactly the survivors' runs at the same positions; the
restart flag accompanies every message of the restarted instance until one is
delivered; a survivor that received the flag sends a RESYNC as its next message
decided after that.  Per-component D-tie: decider calls replayed on the model.
"""
from harness.core import PropSpec, Result, Ctx, Violation
from harness import gen_cluster as gc
from harness.props.c04 import run_scenarios

SIGS = {'not-converged', 'no-quiescence', 'restart-flag-dropped', 'finished-run-resurrected', 'completion-not-reported-everywhere'}


def race_family():
    """survivor A has work for B; B restarts; B's announcement reaches A at each boundary of A's outgoing pass."""
    for names in (['A', 'B'], ['A', 'B', 'C']):
        pre = ['in A 0', 'sync', 'in A 1', 'sync']          # one run replicated everywhere, nothing pending
        # 'in A 0' starts a NEW run and leaves the replicated one untouched: only a snapshot can bring the old run to B
        for work in (['in A 0'], ['in A 1'], ['in A 0', 'in A 4'], []):
            for point in ['lock', 'send:B'] + (['send:C'] if 'C' in names else []):
                # `wait` puts the survivor in the SYNC, PING or RESYNC period towards B when the announcement races its pass
                for early, wait in ((False, 0), (True, 0), (False, 31), (False, 61)):
                    ops = list(pre) + ([f'tick {wait}'] if wait else []) + ['restart B', 'pass B'] + work
                    # B's first message (RESYNC + restart flag) is in flight towards A; A's pass overlaps its arrival
                    ops += (['pass A'] if early else []) + [f'passi A {point} B', 'del A B', 'del A B', 'tick 1', 'pass A', 'del A B', 'heal']
                    yield {'names': names, 'phens': gc.CONFLICT, 'cache': 1000, 'ops': ops}
                    if not early and point == 'lock':
                        # the survivors were cold-started without announcing themselves; that setting is about what an
                        # instance SAYS at start-up, the restarted peer's announcement is honoured all the same
                        yield {'names': names, 'phens': gc.CONFLICT, 'cache': 1000, 'ops': ops, 'quiet': [n for n in names if n != 'B']}
                        yield {'names': names, 'phens': gc.CONFLICT, 'cache': 1000, 'ops': ops, 'quiet': list(names)}


def double_restart_family():
    """the same instance is lost twice in quick succession: its second announcement reaches the survivor while the
    survivor's answer (RESYNC) to the first one is still being sent, i.e. with the contact times already cleared."""
    for names in (['A', 'B'], ['A', 'B', 'C']):
        pre = ['in A 0', 'sync', 'in A 1', 'sync']
        for point in ('send:B', 'lock'):
            for work in ([], ['in A 0']):
                ops = list(pre) + ['restart B', 'pass B', 'del B A'] + work
                ops += [f'passi A {point} restart_B;pass_B;del_B_A', 'tick 1', 'pass A', 'del A B', 'del A B', 'heal']
                yield {'names': names, 'phens': gc.CONFLICT, 'cache': 1000, 'ops': ops}


def downtime_family():
    """the lost instance stays down for a while: the survivor's sends to it are refused and pile up as a backlog (progress,
    a completion or halt of a run, the start of the next run of a singleton pattern); the instance comes back, gets
    the snapshot, and the survivor goes on for longer than every retry interval (a leftover of the backlog sent after the
    snapshot would tell the restarted instance about the past).  With and without finished-run memory."""
    sing3 = gc.SING
    for names in (['A', 'B'], ['A', 'B', 'C']):
        for phens, fin in ((sing3, ['in A 1', 'in A 2']), (gc.SING2, ['in A 1', 'in A 2']), (gc.SING2, ['in A 9']),
                           (gc.CONFLICT, ['in A 1', 'in A 2', 'in A 3']), (gc.CONFLICT, ['in A 9'])):
            for cache in (0, 1000):
                for nxt in (['in A 0'], ['in A 0', 'in A 1'], []):
                    for wait in (0, 6, 31):
                        ops = ['in A 0', 'sync', 'crash B']
                        for o in fin:
                            ops += [o, 'pass A'] + (['del A C'] if 'C' in names else [])
                        for o in nxt:
                            ops += [o, 'pass A'] + (['del A C'] if 'C' in names else [])
                        ops += ([f'tick {wait}'] if wait else []) + ['restart B', 'pass B', 'del B A'] + (['del B C'] if 'C' in names else [])
                        ops += ['pass A', 'del A B', 'del A B', 'tick 6', 'pass A', 'del A B', 'del A B', 'tick 6', 'pass A', 'del A B', 'heal']
                        yield {'names': names, 'phens': phens, 'cache': cache, 'ops': ops}


def conflict_then_restart_family():
    """the survivor's copy of a run was OVERTAKEN by a peer's state before the restart (both instances advanced the run with
    different data while their messages crossed: C04's conflict and loop-race families, every third scenario): what the
    survivor hands the restarted instance is the state it holds NOW, not one it serialised earlier."""
    for fam in (gc.conflict_family(), gc.loop_race_family()):
        for k, sc in enumerate(fam):
            if k % 3:
                continue
            ops = [o for o in sc['ops'] if o != 'heal'] + ['sync']
            for victim in sc['names'][:2]:
                other = [n for n in sc['names'] if n != victim]
                tail = [f'restart {victim}', f'pass {victim}'] + [f'del {victim} {o}' for o in other]
                for o in other:
                    tail += [f'pass {o}', f'del {o} {victim}', f'del {o} {victim}']
                yield dict(sc, ops=ops + tail + ['heal'])


def crash_schedule(rng):
    sc = gc.scenario(rng, n_ops=rng.randint(10, 36))
    ops = sc['ops'][:-1]
    victim = rng.choice(sc['names'])
    k = rng.randint(0, len(ops))
    ops = ops[:k] + [f'restart {victim}'] + ops[k:]
    # some of the later passes of the survivors overlap the announcement
    out = []
    for o in ops:
        w = o.split()
        if w[0] == 'pass' and w[1] != victim and rng.random() < 0.35:
            pt = rng.choice(['lock'] + ['send:' + n for n in sc['names'] if n != w[1]])
            out.append(f'passi {w[1]} {pt} {victim}')
        else:
            out.append(o)
    sc['ops'] = out + ['heal']
    if rng.random() < 0.25:
        sc['quiet'] = [n for n in sc['names'] if rng.random() < 0.6]
    return sc


def flags_oracle(r):
    """restart flag on every message of a fresh instance until one is delivered, then never again."""
    for inst in list(r.c.insts.values()) + r.c.dead:
        if inst.gen == 0 and inst.name in r.c.quiet:
            continue                  # configured not to announce itself (it still has to honour the others' announcements)
        delivered = {}
        for (t, dst, typ, flags, err) in inst.wire_log:
            if not delivered.get(dst) and not (flags & 1):
                r.fail('restart-flag-dropped', f"{inst.tag} sent {typ} to {dst} without the restart flag before any message was delivered")
                return
            if delivered.get(dst) and (flags & 1):
                r.fail('restart-flag-dropped', f"{inst.tag} still sets the restart flag towards {dst} after a delivered message")
                return
            if err == 0:
                delivered[dst] = True


def scenarios(ctx: Ctx, res: Result):
    for sc in race_family():
        res.count('race_family')
        yield sc
    for sc in double_restart_family():
        res.count('double_restart_family')
        yield sc
    for sc in downtime_family():
        res.count('downtime_family')
        yield sc
    for sc in conflict_then_restart_family():
        res.count('conflict_then_restart_family')
        yield sc
    for _ in range(2500 if ctx.thorough else 280):
        res.count('random_crash_point')
        yield crash_schedule(ctx.rng)


def run(ctx: Ctx) -> Result:
    res = Result()
    scs = [ctx.replay['replay']] if ctx.replay is not None else scenarios(ctx, res)
    run_scenarios(ctx, scs, res, SIGS, extra=flags_oracle, at_quiescence='check_restarted')
    return res


def search(ctx: Ctx) -> Result:
    res = Result()
    run_scenarios(Ctx(ctx.prop, ctx.tier, ctx.seed, ctx.rng), (crash_schedule(ctx.rng) for _ in range(500)), res, SIGS, extra=flags_oracle, at_quiescence='check_restarted')
    res.disagreements = []
    return res


SPEC = PropSpec(
    prop='C07', translators=['modes'], run=run, search=search,
    rule='race family: a survivor with 0-1 pending changes, the peer restarts, and its announcement is handled by the survivor\'s incoming '
         'thread at every atomic-step boundary of the survivor\'s outgoing pass (after the decision phase / during each send), 2 and 3 '
         'instances; plus seeded schedules (10-36 ops) with one restart at a random position and a third of the survivors\' later passes '
         'overlapping the announcement; survivors (or all instances) cold-started with flag_reset=False in part of the race family and a quarter of the schedules; all followed by healing with clock advances',
    trusted_base=['harness/cluster.py: thread interleavings are executed deterministically by running the other thread\'s step at the '
                  'boundaries of the outgoing pass (each BoboDeviceManager access is atomic under its lock)'],
    assumptions=['one crash at a time, links healthy', 'finished-run memory enabled and large enough'],
    model_covers='reset flag until delivered, clear_last on a received reset, mode selection after a reset (C15 model), snapshot + lattice join',
)
