"""
C19 — Patterns are well-formed by construction.

D-tie (model `bobodrv builder`, Model/Builder.lean) and property oracle, four parts:

(1) builder: call sequences on the REAL BoboPatternBuilder; after every call the blocks it appended
    (group, strict/loop/negated/optional, identity of the predicates) and the raised error class are
    compared with the model, and with the documented table (oracle `doc_call`, written from the
    docstrings / docs/phenomena.rst, independent of the model).  Aliasing of the caller's list
    (`*_any` wrap callables in place) is checked by editing the list after the call.
(2) raw constructors: every flag vector per position through BoboPatternBlock / BoboPattern;
    accepted <=> documented legality (oracle `doc_block_ok` / `doc_pattern_ok`), compared with the model.
(3) every pattern accepted in (1)/(2) is run on a real BoboRun — `run.process(event)` directly, on runs at
    every reachable position — against all short streams: nothing may escape `process`.
(4) BoboPredicateCallType on the three event kinds with matching / castable / non-castable data,
    subtype and cast on/off: what the user function received, the result, and the original event
    (same object, same data object, same fields) are checked; the decision is compared with the model.
"""
import itertools
import json

from harness.core import PropSpec, Result, Violation, Ctx, run_model, CORPUS

from bobocep.cep.engine.decider.run import BoboRun
from bobocep.cep.event import BoboEventSimple, BoboEventComplex, BoboEventAction, BoboHistory
from bobocep.cep.phenom.pattern.builder import BoboPatternBuilder, BoboPatternBuilderError
from bobocep.cep.phenom.pattern.pattern import BoboPattern, BoboPatternBlock, BoboPatternError, \
    BoboPatternBlockError
from bobocep.cep.phenom.pattern.predicate import BoboPredicate, BoboPredicateCall, BoboPredicateCallType, \
    BoboPredicateError

LOG = []


class Fn:
    """a user callable with two parameters; logs its id when called; accepts data congruent to its id mod 3."""

    def __init__(self, k):
        self.k = k

    def __call__(self, e, h):
        LOG.append(self.k)
        return isinstance(e.data, int) and e.data % 3 == self.k % 3


PROBE = BoboEventSimple('probe', 0, 0)
EMPTY = BoboHistory({})

BLOCK_METHODS = ('next', 'not_next', 'followed_by', 'not_followed_by', 'followed_by_any', 'not_followed_by_any')
ANY = ('followed_by_any', 'not_followed_by_any')
HAS_LOOP = ('next', 'followed_by', 'followed_by_any')
HAS_OPT = ('followed_by', 'followed_by_any')


def err_name(e):
    t = type(e)
    if t is BoboPatternBlockError:
        return 'err block'
    if t is BoboPatternBuilderError:
        return 'err builder'
    if t is BoboPatternError:
        return 'err pattern'
    return 'err other:' + t.__name__


def grp(g):
    return '~' if g == '' else g


def pred_ids(preds):
    """identity of predicates through the public API: evaluate each on a probe, read which user callables ran."""
    out = []
    for p in preds:
        if not isinstance(p, BoboPredicate):
            out.append('bare-' + type(p).__name__)       # not a predicate object at all
            continue
        LOG.clear()
        try:
            p.evaluate(PROBE, EMPTY)
        except Exception as e:
            out.append('raises-' + type(e).__name__)
            continue
        out.append('+'.join(map(str, LOG)) if LOG else '?')
    return ','.join(out)


def show_block(b):
    return f"{grp(b.group)}:{int(b.strict)}{int(b.loop)}{int(b.negated)}{int(b.optional)}:{pred_ids(b.predicates)}"


# ---------------------------------------------------------------------------------------------------
# documented behaviour, written from the docstrings of builder.py / pattern.py and docs/phenomena.rst
# ---------------------------------------------------------------------------------------------------

def doc_block_ok(npreds, strict, loop, negated, optional):
    if npreds < 1:
        return False                      # "each block containing one or more predicates"
    if strict and optional:
        return False                      # "A strict block cannot also be optional."
    if loop and (negated or optional):
        return False                      # "A looping block can neither be negated nor optional."
    if negated and optional:
        return False                      # "A negated block cannot also be optional"
    return True


def doc_pattern_ok(name, flags):
    if len(name) == 0 or len(flags) == 0:
        return False
    for (s, l, n, o) in (flags[0], flags[-1]):
        if n or o or l:                   # "First and final blocks cannot be negated / optional / loop."
            return False
    return True


def doc_call(spec):
    """expected contribution of one builder call: ('blocks', [(group, (s,l,n,o), ids)]) | ('pre', id) | ('halt', id) | ('raise',)"""
    m = spec['m']
    if m == 'precondition':
        return ('pre', spec['ids'][0])
    if m == 'haltcondition':
        return ('halt', spec['ids'][0])
    strict = m in ('next', 'not_next')                       # "strict contiguity"
    negated = m.startswith('not_')                           # "negated"
    loop = bool(spec.get('loop')) if m in HAS_LOOP else False
    optional = bool(spec.get('optional')) if m in HAS_OPT else False
    group = spec.get('group') if spec.get('group') is not None else ''
    times = spec.get('times') if spec.get('times') is not None else 1
    n = times if times >= 1 else 1                           # a call always "adds a block"; times = repetitions
    ids = list(spec['ids'])                                  # `_any`: ONE block holding all the predicates
    if not doc_block_ok(len(ids), strict, loop, negated, optional):
        return ('raise',)
    return ('blocks', [(group, (strict, loop, negated, optional), ids)] * n)


# ---------------------------------------------------------------------------------------------------
# (1) builder
# ---------------------------------------------------------------------------------------------------

def call_line(spec):
    m = spec['m']
    if m == 'precondition':
        return f"pre {spec['ids'][0]}"
    if m == 'haltcondition':
        return f"halt {spec['ids'][0]}"

    def opt(k, f):
        v = spec.get(k)
        return '-' if v is None else f(v)
    ids = ','.join(map(str, spec['ids'])) if spec['ids'] else '-'
    return f"call {m} {opt('group', grp)} {opt('times', str)} {opt('loop', lambda b: str(int(b)))} " \
           f"{opt('optional', lambda b: str(int(b)))} {ids}"


def mk_preds(spec):
    """the predicate arguments: a bare callable (wrap=0), a ready BoboPredicateCall (wrap=1) or a ready type-checked
    BoboPredicateCallType(dtype=int) (wrap=2; the probe event carries an int, so its function runs on the probe)."""
    wraps = spec.get('wrap') or [0] * len(spec['ids'])
    out = []
    for k, w in zip(spec['ids'], wraps):
        f = Fn(k)
        out.append(BoboPredicateCallType(f, int) if w == 2 else BoboPredicateCall(f) if w else f)
    return out


def do_builder_case(case, res: Result, lines, impl, accepted):
    """run one call sequence on the real builder; append driver lines / impl outputs; evaluate the oracle."""
    name, sg, calls = case['name'], case['singleton'], case['calls']

    def bad(sig, what):
        res.violations.append(Violation(sig, what, {'part': 'builder', **case}))

    lines.append(f"new {grp(name)} {int(sg)}")
    try:
        b = BoboPatternBuilder(name, sg) if sg else BoboPatternBuilder(name)
        impl.append('ok')
    except Exception as e:
        impl.append(err_name(e))
        if len(name) > 0 or type(e) is not BoboPatternBuilderError:
            bad('builder-ctor', f'BoboPatternBuilder({name!r}) raised {type(e).__name__}')
        return
    if len(name) == 0:
        bad('builder-ctor', 'BoboPatternBuilder("") accepted an empty name')
        return
    exp_blocks, exp_pre, exp_halt = [], [], []
    given_pre, given_halt = [], []
    for ci, spec in enumerate(calls):
        m = spec['m']
        preds = mk_preds(spec)
        kwargs = {k: spec[k] for k in ('group', 'times', 'loop', 'optional') if spec.get(k) is not None}
        n0 = len(b._blocks)
        arg_list = None
        lines.append(call_line(spec))
        try:
            if m in ANY:
                arg_list = list(preds)
                ret = getattr(b, m)(arg_list, **kwargs) if ci % 2 else getattr(b, m)(predicates=arg_list, **kwargs)
            elif m in ('precondition', 'haltcondition'):
                ret = getattr(b, m)(preds[0])
            else:
                ret = getattr(b, m)(preds[0], **kwargs) if ci % 2 else getattr(b, m)(predicate=preds[0], **kwargs)
            err = None
        except Exception as e:
            ret, err = None, e
        added = b._blocks[n0:]
        exp = doc_call(spec)
        if err is not None:
            impl.append(err_name(err))
            if exp[0] != 'raise':
                bad('builder-error-class', f"{m}({kwargs}) raised {type(err).__name__}: {err}; the documented block is legal")
            elif type(err) is not BoboPatternBlockError:
                bad('builder-error-class', f"{m}({kwargs}) raised {type(err).__name__}, documented BoboPatternBlockError")
            if added:
                bad('builder-block-table', f"{m}({kwargs}) raised but left {len(added)} block(s) behind")
            continue
        if ret is not b:
            bad('builder-chaining', f"{m} did not return the builder")
        if m in ('precondition', 'haltcondition'):
            impl.append('ok')
            (exp_pre if m == 'precondition' else exp_halt).append(spec['ids'][0])
            (given_pre if m == 'precondition' else given_halt).append(preds[0])
            if added:
                bad('builder-block-table', f"{m} appended a block")
            continue
        shown = [show_block(x) for x in added]
        impl.append(f"ok +{len(added)}" + (' ' + ' '.join(shown) if shown else ''))
        if exp[0] == 'raise':
            bad('builder-error-class', f"{m}({kwargs}) with {len(preds)} predicate(s) did not raise; the documented block is illegal")
            continue
        want = [f"{grp(g)}:{int(f[0])}{int(f[1])}{int(f[2])}{int(f[3])}:{','.join(map(str, ids))}" for (g, f, ids) in exp[1]]
        if shown != want:
            sig = 'builder-repetition-count' if len(shown) != len(want) else 'builder-block-table'
            bad(sig, f"{m}({kwargs}, ids={spec['ids']}) appended {shown}; documented {want}")
        exp_blocks += exp[1]
        # identity: a BoboPredicate handed in is used as is; every repetition holds the same predicate objects
        for blk in added:
            if type(blk.predicates) is not tuple:
                bad('builder-alias', f"{m}: block.predicates is a {type(blk.predicates).__name__}, not a tuple")
            for p_given, p_blk in zip(preds, blk.predicates):
                if isinstance(p_given, BoboPredicate) and p_blk is not p_given:
                    bad('builder-block-table', f"{m}: a BoboPredicate handed in was replaced")
                if not isinstance(p_blk, BoboPredicate):
                    bad('builder-block-table', f"{m}: block holds a bare {type(p_blk).__name__}, not a BoboPredicate")
        # aliasing: editing the caller's list afterwards must not reach into the blocks
        if arg_list is not None:
            mutated = any(a is not g for a, g in zip(arg_list, preds))
            if mutated:
                res.count('any_call_rewrote_callers_list')
                if pred_ids(arg_list) != ','.join(map(str, spec['ids'])):
                    bad('builder-alias', f"{m}: the caller's list no longer denotes the same predicates: {pred_ids(arg_list)}")
            arg_list.append(BoboPredicateCall(Fn(99)))
            arg_list[0] = BoboPredicateCall(Fn(98))      # (the list is non-empty here: an empty one raised above)
            after = [show_block(x) for x in b._blocks[n0:]]
            if after != shown:
                bad('builder-alias', f"{m}: editing the caller's predicate list after the call changed the blocks: {shown} -> {after}")
    # all blocks so far, in call order
    lines.append('gen')
    all_shown = [show_block(x) for x in b._blocks]
    all_want = [f"{grp(g)}:{int(f[0])}{int(f[1])}{int(f[2])}{int(f[3])}:{','.join(map(str, ids))}" for (g, f, ids) in exp_blocks]
    if all_shown != all_want and not res.violations:
        bad('builder-order', f"builder holds {all_shown}; calls in order give {all_want}")
    ok_doc = doc_pattern_ok(name, [f for (_, f, _) in exp_blocks])
    try:
        p = b.generate()
    except Exception as e:
        impl.append(err_name(e))
        if ok_doc:
            bad('ctor-pattern-legality', f"generate() raised {type(e).__name__}: {e}; the documented rules accept {all_want}")
        elif type(e) is not BoboPatternError:
            bad('builder-error-class', f"generate() raised {type(e).__name__}, documented BoboPatternError")
        return
    impl.append(f"ok {p.name} {int(p.singleton)} B[{' '.join(show_block(x) for x in p.blocks)}] "
                f"P[{pred_ids(p.preconditions)}] H[{pred_ids(p.haltconditions)}]")
    if not ok_doc:
        bad('ctor-pattern-legality', f"generate() accepted {all_want}; the documented rules reject it (first/last block)")
    if [show_block(x) for x in p.blocks] != all_want or p.name != name or p.singleton != sg:
        bad('builder-order', f"generated pattern has {[show_block(x) for x in p.blocks]}, name {p.name!r}, singleton {p.singleton}")
    if pred_ids(p.preconditions) != ','.join(map(str, exp_pre)) or pred_ids(p.haltconditions) != ','.join(map(str, exp_halt)):
        bad('builder-order', f"pre/haltconditions P[{pred_ids(p.preconditions)}] H[{pred_ids(p.haltconditions)}]; "
                             f"calls in order give P{exp_pre} H{exp_halt}")
    # the builder is used on after generate() (a common prefix generated, then extended into a longer variant): the pattern
    # already generated is the pattern of the calls made BEFORE generate()
    was = ([show_block(x) for x in p.blocks], pred_ids(p.preconditions), pred_ids(p.haltconditions))
    try:
        b.followed_by(BoboPredicateCall(Fn(97)), loop=True).not_followed_by(BoboPredicateCall(Fn(96)))
        b.precondition(BoboPredicateCall(Fn(95))).haltcondition(BoboPredicateCall(Fn(94)))
    except Exception:   # noqa  (a builder may refuse further use; the generated pattern is judged either way)
        pass
    now_ = ([show_block(x) for x in p.blocks], pred_ids(p.preconditions), pred_ids(p.haltconditions))
    if now_ != was:
        bad('builder-alias', f"calls on the builder AFTER generate() changed the generated pattern: blocks {was[0]} -> {now_[0]}, "
                             f"P[{was[1]}] -> P[{now_[1]}], H[{was[2]}] -> H[{now_[2]}]")
    # identity / type check kept: a predicate OBJECT handed to precondition() / haltcondition() is the one the pattern holds,
    # and a type-checked predicate added through any builder method still refuses data of another type without
    # calling the user's function
    for what, given_l, got_l in (('precondition', given_pre, p.preconditions), ('haltcondition', given_halt, p.haltconditions)):
        for g_, h_ in zip(given_l, got_l):
            if isinstance(g_, BoboPredicate) and h_ is not g_:
                bad('builder-block-table', f"{what}: a BoboPredicate handed in was replaced by a {type(h_).__name__}")
    typed_ids = {k for spec in calls for k, w in zip(spec['ids'], spec.get('wrap') or []) if w == 2}
    if typed_ids:
        odd = BoboEventSimple('odd', 0, 'n/a')
        for q in [x for blk in p.blocks for x in blk.predicates] + list(p.preconditions) + list(p.haltconditions):
            LOG.clear()
            try:
                q.evaluate(PROBE, EMPTY)
            except Exception:   # noqa
                continue
            if LOG and LOG[0] in typed_ids:
                LOG.clear()
                try:
                    verdict = q.evaluate(odd, EMPTY)
                except Exception as e:   # noqa
                    verdict = 'raised ' + type(e).__name__
                if LOG or verdict is not False:
                    bad('typed-predicate-check-lost', f"a BoboPredicateCallType(dtype=int) added through the builder was evaluated on data "
                                                      f"'n/a': verdict {verdict}, user function called: {bool(LOG)}")
                    break

    def mod3(preds):      # for part (3) only the behaviour of the predicates matters: Fn(k) accepts data = k mod 3
        return tuple(int(i) % 3 if i.isdigit() else i for i in pred_ids(preds).split(',')) if preds else ()
    key = str((tuple((x.strict, x.loop, x.negated, x.optional, mod3(x.predicates)) for x in p.blocks),
               mod3(p.preconditions), mod3(p.haltconditions)))
    if key not in accepted:
        accepted[key] = (p, {'part': 'builder', **case})


def C(m, ids, wrap=None, **kw):
    d = {'m': m, 'ids': list(ids)}
    if wrap is not None:
        d['wrap'] = list(wrap)
    d.update(kw)
    return d


def reduced_alphabet():
    """one or two representatives per method and flag outcome (pruning of equivalent option values)."""
    return [
        C('next', [0]), C('next', [1], loop=True, times=0), C('not_next', [2], times=3, group='g'),
        C('followed_by', [0], wrap=[1]), C('followed_by', [1], loop=True), C('followed_by', [2], optional=True, group=''),
        C('followed_by', [0], loop=True, optional=True), C('not_followed_by', [1], times=-1),
        C('followed_by_any', [1, 2], wrap=[0, 1], group='g'), C('followed_by_any', [0, 2], optional=True, times=0),
        C('followed_by_any', []), C('followed_by_any', [1, 0], loop=True, optional=True),
        C('not_followed_by_any', [2, 0, 1], times=3),
        C('precondition', [1]), C('haltcondition', [2], wrap=[1]), C('followed_by', [2], times=3, loop=False, optional=False),
        C('followed_by', [1], wrap=[2]), C('followed_by_any', [2, 0], wrap=[2, 1]), C('precondition', [0], wrap=[2]),
        C('haltcondition', [1], wrap=[2]), C('next', [2], wrap=[2]), C('not_next', [0], wrap=[2]),
        C('not_followed_by', [1], wrap=[2]), C('not_followed_by_any', [0, 1], wrap=[2, 2]),
    ]


def full_alphabet():
    """every method with every option value (times incl. omitted, -1, 0, 1, 3; loop/optional omitted/off/on; groups)."""
    out = []
    T = (None, -1, 0, 1, 3)
    B = (None, False, True)
    G = (None, '', 'g')
    for m in BLOCK_METHODS:
        shapes = ([[0]], [[1]]) if m not in ANY else ([[]], [[1]], [[2, 0]])
        for ids in (s[0] for s in shapes):
            for t in T:
                for lo in (B if m in HAS_LOOP else (None,)):
                    for op in (B if m in HAS_OPT else (None,)):
                        for g in G:
                            for w in ((0, 1) if ids else (0,)):
                                out.append(C(m, ids, wrap=[w] * len(ids), group=g, times=t, loop=lo, optional=op))
    out.append(C('precondition', [0]))
    out.append(C('haltcondition', [0], wrap=[1]))
    return out


def renumber(calls):
    """give every predicate of the sequence its own id (so a predicate landing in the wrong block is visible)."""
    out = []
    k = 0
    for c in calls:
        c = dict(c)
        ids = []
        for _ in c['ids']:
            ids.append(k)
            k += 1
        c['ids'] = ids
        out.append(c)
    return out


def builder_cases(ctx: Ctx, res: Result):
    red = reduced_alphabet()
    full = full_alphabet()
    res.count('builder_alphabet_reduced', len(red))
    res.count('builder_alphabet_full', len(full))
    yield {'name': '', 'singleton': False, 'calls': []}
    yield {'name': 'p', 'singleton': True, 'calls': []}
    first = C('followed_by', [0])
    last = C('followed_by', [0], group='z')
    for c in full:                                     # every option value: alone, and inside a generable pattern
        yield {'name': 'p', 'singleton': False, 'calls': renumber([c])}
        yield {'name': 'q', 'singleton': True, 'calls': renumber([first, c, last])}
    kmax = 4 if ctx.thorough else 3
    for k in range(1, kmax + 1):                       # all sequences over the reduced alphabet
        for seq in itertools.product(red if k < 4 else red[:16], repeat=k):
            yield {'name': 'p', 'singleton': k % 2 == 0, 'calls': renumber(seq)}
    n_rand = 20000 if ctx.thorough else 6000           # seeded: longer sequences over the full alphabet
    for _ in range(n_rand):
        k = ctx.rng.randint(2, 7)
        seq = [ctx.rng.choice(full) for _ in range(k)]
        if ctx.rng.random() < 0.6:
            seq = [first] + seq + [last]
        yield {'name': ctx.rng.choice(['p', 'a_longer-name.1', 'ü']), 'singleton': ctx.rng.random() < 0.3, 'calls': renumber(seq)}


def malformed_builder(res: Result):
    """outside the model: a callable with the wrong number of parameters; a tuple instead of a list."""
    for m in BLOCK_METHODS + ('precondition', 'haltcondition'):
        b = BoboPatternBuilder('p')
        arg = [Fn(1), (lambda e: True)] if m in ANY else (lambda e: True)
        try:
            getattr(b, m)(arg)
            res.violations.append(Violation('builder-bad-callable', f'{m} accepted a 1-parameter callable', {'part': 'malformed', 'm': m}))
        except BoboPredicateError:
            res.count('malformed_callable_rejected')
        if b._blocks or b._preconditions or b._haltconditions:
            res.violations.append(Violation('builder-bad-callable', f'{m} raised on a bad callable but changed the builder', {'part': 'malformed', 'm': m}))
        res.add_case({'part': 'malformed', 'm': m}, nontrivial=False)
    for m in ANY:
        b = BoboPatternBuilder('p')
        try:
            getattr(b, m)((Fn(1), Fn(2)))
            res.count('any_accepts_tuple')
        except TypeError:
            res.count('any_rejects_tuple_of_callables(in-place wrapping)')


# ---------------------------------------------------------------------------------------------------
# (2) raw constructors
# ---------------------------------------------------------------------------------------------------

FLAGS = [tuple(bool(int(c)) for c in ''.join(t)) for t in itertools.product('01', repeat=4)]


def fl(f):
    return ''.join(str(int(x)) for x in f)


def do_raw_block(f, npreds, res, lines, impl):
    case = {'part': 'rawblk', 'flags': fl(f), 'npreds': npreds}
    lines.append(f"rawblk {fl(f)} {npreds}")
    try:
        blk = BoboPatternBlock([BoboPredicateCall(Fn(i)) for i in range(npreds)], '', f[0], f[1], f[2], f[3])
        impl.append('ok')
        ok = True
    except Exception as e:
        impl.append(err_name(e))
        ok = False
        if type(e) is not BoboPatternBlockError:
            res.violations.append(Violation('builder-error-class', f"BoboPatternBlock{case} raised {type(e).__name__}", case))
    res.add_case(case, nontrivial=True)
    res.count('rawblk_' + ('accepted' if ok else 'rejected'))
    if ok != doc_block_ok(npreds, *f):
        res.violations.append(Violation('ctor-block-legality',
                                        f"BoboPatternBlock(strict,loop,negated,optional={fl(f)}, {npreds} predicates) "
                                        f"{'accepted' if ok else 'rejected'}; documented: {'legal' if not ok else 'illegal'}", case))
    if ok and ((blk.strict, blk.loop, blk.negated, blk.optional) != f or blk.group != '' or len(blk.predicates) != npreds):
        res.violations.append(Violation('ctor-block-legality', f"BoboPatternBlock stores other values than given: {case}", case))


def do_raw_pattern(name, flags, res, lines, impl, accepted):
    case = {'part': 'rawpat', 'name': name, 'flags': [fl(f) for f in flags]}
    lines.append(f"rawpat {grp(name)} {','.join(fl(f) for f in flags) if flags else '-'}")
    blocks = []
    out = None
    for i, f in enumerate(flags):
        try:
            blocks.append(BoboPatternBlock([BoboPredicateCall(Fn(i))], f'g{i % 2}', f[0], f[1], f[2], f[3]))
        except Exception as e:
            out = err_name(e)
            break
    if out is None:
        try:
            p = BoboPattern(name, blocks, [], [])
            out = 'ok'
        except Exception as e:
            out = err_name(e)
            p = None
            if type(e) is not BoboPatternError:
                res.violations.append(Violation('builder-error-class', f"BoboPattern{case} raised {type(e).__name__}: {e}", case))
    impl.append(out)
    res.count('rawpat_' + out.replace(' ', '_'))
    all_blocks_ok = all(doc_block_ok(1, *f) for f in flags)
    res.add_case(case, nontrivial=all_blocks_ok)
    if out == 'err block':
        if all_blocks_ok:
            res.violations.append(Violation('ctor-block-legality', f"a documented-legal block was rejected in {case}", case))
        return
    if not all_blocks_ok:
        res.violations.append(Violation('ctor-block-legality', f"a documented-illegal block was accepted in {case}", case))
        return
    want = doc_pattern_ok(name, flags)
    if (out == 'ok') != want:
        res.violations.append(Violation('ctor-pattern-legality',
                                        f"BoboPattern(name={name!r}, blocks={[fl(f) for f in flags]}) {'accepted' if out == 'ok' else 'rejected'}; "
                                        f"documented: {'legal' if want else 'illegal'}", case))
    if out == 'ok':
        if tuple(p.blocks) != tuple(blocks) or p.name != name:
            res.violations.append(Violation('ctor-pattern-legality', f"BoboPattern stores other blocks than given: {case}", case))
        accepted['raw:' + ','.join(fl(f) for f in flags)] = (p, case)


# ---------------------------------------------------------------------------------------------------
# (3) accepted patterns never fail inside BoboRun.process
# ---------------------------------------------------------------------------------------------------

def ev(i, d):
    return BoboEventSimple(f'e{i}', i, d)


def run_streams(p, origin, streams, res: Result, start=None):
    n = len(p.blocks)

    def feed(idx, stream, hist_groups):
        run = BoboRun('r', 'ph', p, idx, BoboHistory(hist_groups))
        for i, d in enumerate(stream):
            try:
                out = run.process(ev(10 + i, d))
            except Exception as e:
                res.violations.append(Violation(
                    'process-internal-error',
                    f"{type(e).__name__} escaped BoboRun.process: pattern {[show_block(b) for b in p.blocks]}, run at block {idx}, "
                    f"events {list(stream[:i + 1])}", {'part': 'stream', 'origin': origin, 'start_index': idx, 'stream': list(stream)}))
                return False
            if not isinstance(out, bool):
                res.violations.append(Violation('process-internal-error', f"process returned {out!r}",
                                                {'part': 'stream', 'origin': origin, 'start_index': idx, 'stream': list(stream)}))
                return False
        return True
    g0 = p.blocks[0].group
    if start is not None and start > 1:
        for s in streams:
            feed(start, s, {g0: [ev(j, 0) for j in range(start)]})
        return
    if n == 1:
        res.count('stream_single_block_patterns')
    for s in streams:
        res.count('stream_runs')
        if not feed(1, s, {g0: [ev(0, 0)]}):
            return
    # every reachable position 1 <= idx < n (as after a replicated update), every event, then one more
    for idx in range(2, n):
        for s in itertools.product((0, 1, 2), repeat=2):
            res.count('stream_runs_midway')
            if not feed(idx, s, {g0: [ev(j, 0) for j in range(idx)]}):
                return


# ---------------------------------------------------------------------------------------------------
# (4) typed predicates
# ---------------------------------------------------------------------------------------------------

class Celsius(float):
    pass


class Strict:
    """a user type that only accepts ints in its constructor"""

    def __init__(self, v):
        if not isinstance(v, int) or isinstance(v, bool):
            raise TypeError('int only')
        self.v = v

    def __eq__(self, o):
        return isinstance(o, Strict) and o.v == self.v

    def __hash__(self):
        return hash(self.v)


DTYPES = {'int': int, 'str': str, 'float': float, 'bool': bool, 'list': list, 'Celsius': Celsius, 'Strict': Strict}
VALUES = {'5': 5, "'5'": '5', "'x'": 'x', '5.0': 5.0, '5.7': 5.7, 'True': True, 'None': None, '[1]': [1], '(1,2)': (1, 2),
          "b'5'": b'5', 'Celsius(3)': Celsius(3.0), 'Strict(2)': Strict(2), "''": '', '0': 0, "' 7 '": ' 7 '}


def _plain(d):
    """repr without the address part"""
    import re
    return re.sub(r' at 0x[0-9a-fA-F]+', '', repr(d))


def _namesake(name, base=object, **ns):
    """ANOTHER class that merely has the name of a declared type (the `Reading` of another sensor module, a second
    namedtuple('Reading', …)): same __name__ and __qualname__, no relation"""
    c = type(name, (base,), dict(ns))
    c.__qualname__ = name
    c.__module__ = __name__
    return c


_OtherStrict = _namesake('Strict', v=2, __eq__=lambda a, b: False, __hash__=lambda a: 2)
_OtherCelsius = _namesake('Celsius', __float__=lambda a: 3.0)
_OtherInt = _namesake('int', __int__=lambda a: 5, __index__=lambda a: 5)
_OtherList = _namesake('list', tuple)
VALUES.update({'-0.0': -0.0, '0.0': 0.0, '1.0': 1.0, '1': 1, 'False': False})
VALUES.update({'other.Strict()': _OtherStrict(), 'other.Celsius()': _OtherCelsius(), 'other.int()': _OtherInt(), 'other.list((1,))': _OtherList((1,))})
OUTSIDE = {'inf': float('inf')}       # int(inf) raises OverflowError: neither TypeError nor ValueError (outside the model)


def mk_event(kind, data):
    if kind == 's':
        return BoboEventSimple('id1', 7, data)
    if kind == 'c':
        return BoboEventComplex('id1', 7, data, 'ph', 'pa', BoboHistory({'g': [BoboEventSimple('h', 1, 1)]}))
    return BoboEventAction('id1', 7, data, 'ph', 'pa', 'act', True)


FIELDS = {'s': ('event_id', 'timestamp'), 'c': ('event_id', 'timestamp', 'phenomenon_name', 'pattern_name', 'history'),
          'a': ('event_id', 'timestamp', 'phenomenon_name', 'pattern_name', 'action_name', 'success')}


def do_typed(case, res: Result, lines, impl):
    dtype, data = DTYPES[case['dtype']], {**VALUES, **OUTSIDE}[case['value']]
    subtype, cast, kind, ret = case['subtype'], case['cast'], case['kind'], case['ret']
    received = []

    def fn(e, h):
        received.append((e, e.data))
        return ret
    kw = {}
    if not subtype:
        kw['subtype'] = False
    if not cast:
        kw['cast'] = False
    pred = BoboPredicateCallType(fn, dtype, **kw)      # defaults (True, True) exercised when both are on
    e0 = mk_event(kind, data)
    before = {f: getattr(e0, f) for f in FIELDS[kind]}
    hist = BoboHistory({})
    # the model's parameters, computed from Python's own type semantics
    inst = isinstance(data, dtype)
    exact = type(data) == dtype
    outside = False
    try:
        dtype(data)
        cast_ok = True
    except (TypeError, ValueError):
        cast_ok = False
    except Exception:
        cast_ok = False
        outside = True
    raised = None
    try:
        result = pred.evaluate(e0, hist)
    except Exception as ex:
        raised, result = ex, None

    def bad(sig, what):
        res.violations.append(Violation(sig, what, {'part': 'typed', **case}))
    desc = f"BoboPredicateCallType(dtype={case['dtype']}, subtype={subtype}, cast={cast}) on a {kind!r} event with data {case['value']}"
    # the original event is never altered
    if e0.data is not data:
        bad('typed-event-altered', f"{desc}: the original event's data object was replaced ({e0.data!r})")
    for f, v in before.items():
        if getattr(e0, f) is not v:
            bad('typed-event-altered', f"{desc}: field {f} of the original event changed")
    # only typed data reaches the function
    type_ok = inst if subtype else exact
    for (e, d) in received:
        if not (isinstance(d, dtype) if subtype else type(d) is dtype):
            bad('typed-untyped-data', f"{desc}: the function received data {d!r} of type {type(d).__name__}")
        if e is e0:
            if not type_ok:
                bad('typed-untyped-data', f"{desc}: the function received the original event although the type test fails")
        else:
            if type_ok or not cast:
                bad('typed-untyped-data', f"{desc}: the function received a different event although no cast was due")
            if type(e) is not type(e0) or any(getattr(e, f) != before[f] and getattr(e, f) is not before[f] for f in FIELDS[kind]):
                bad('typed-event-altered', f"{desc}: the cast event differs from the original in more than its data")
            if cast_ok and not (d == dtype(data) or (d != d and dtype(data) != dtype(data))):
                bad('typed-untyped-data', f"{desc}: the cast event carries {d!r}, not {dtype(data)!r}")
    if len(received) > 1:
        bad('typed-result', f"{desc}: the function was called {len(received)} times")
    expect_call = type_ok or (cast and cast_ok)
    if raised is not None:
        if not outside:
            bad('typed-result', f"{desc}: evaluate raised {type(raised).__name__}: {raised}")
        elif received:
            bad('typed-untyped-data', f"{desc}: the function ran although the cast raised {type(raised).__name__}")
        res.count('typed_cast_raises_other_exception')
    else:
        if expect_call and (len(received) != 1 or result is not ret):
            bad('typed-result', f"{desc}: expected the function to be called once and its verdict {ret} returned; "
                                f"calls={len(received)} result={result!r}")
        if not expect_call and (received or result is not False):
            bad('typed-cast-fail-not-false', f"{desc}: expected False without calling the function; calls={len(received)} result={result!r}")
    res.add_case(case, nontrivial=not type_ok)
    res.count('typed_' + ('type_ok' if type_ok else ('cast_ok' if (cast and cast_ok) else ('cast_fail' if cast else 'no_cast'))))
    if not outside and ret is True:
        lines.append(f"typed {int(subtype)} {int(cast)} {int(inst)} {int(exact)} {int(cast_ok)}")
        handed = 'none' if not received else ('orig' if received[0][0] is e0 else 'cast')
        r = 'raise' if raised is not None else ('true' if result is True else ('false' if result is False else repr(result)))
        impl.append(f"res={r} handed={handed} orig={'same' if e0.data is data else 'changed'}")


def do_typed_seq(case, res: Result):
    """ONE predicate object offered a sequence of events (same identifier, same timestamp — foreign events may repeat an
    identifier — and different data): what it does with each event must be what a fresh predicate does with that event
    alone (evaluate is a function of the event; nothing learnt from an earlier event may be used for a later one)."""
    dtype = DTYPES[case['dtype']]
    vals = {**VALUES, **OUTSIDE}
    subtype, cast, kind = case['subtype'], case['cast'], case['kind']
    kw = {}
    if not subtype:
        kw['subtype'] = False
    if not cast:
        kw['cast'] = False

    def observe(pred, log, e):
        log.clear()
        try:
            r = pred.evaluate(e, BoboHistory({}))
        except Exception as ex:      # noqa
            r = 'raise ' + type(ex).__name__
        return r, [(('orig' if x is e else 'copy'), d, type(d).__name__) for x, d in log]

    log = []
    shared = BoboPredicateCallType(lambda e, h: (log.append((e, e.data)), case['ret'])[1], dtype, **kw)
    for k, vn in enumerate(case['values']):
        e = mk_event(kind, vals[vn])
        got = observe(shared, log, e)
        flog = []
        fresh = BoboPredicateCallType(lambda e, h: (flog.append((e, e.data)), case['ret'])[1], dtype, **kw)
        want = observe(fresh, flog, e)
        def same(a, b):
            return a[0] == b[0] and len(a[1]) == len(b[1]) and all(
                x[0] == y[0] and x[2] == y[2] and (x[1] == y[1] or (x[1] != x[1] and y[1] != y[1])) for x, y in zip(a[1], b[1]))
        if not same(got, want):
            got = (got[0], [(a, repr(d), t) for a, d, t in got[1]])
            want = (want[0], [(a, repr(d), t) for a, d, t in want[1]])
            res.violations.append(Violation(
                'typed-stateful', f"BoboPredicateCallType(dtype={case['dtype']}, subtype={subtype}, cast={cast}) offered the events "
                f"{case['values']} ({kind!r}, same identifier): on event {k} (data {vn}) it gave result/function-calls {got}, a fresh "
                f"predicate gives {want}", {'part': 'typed-seq', **case}))
            break
    # the same, with events NOBODY KEEPS (a reading comes in, is judged, is dropped: the next event object may well live at the
    # address of the one before -- identity of a dead object says nothing about the next one)
    if not res.violations:
        seen = []
        shared2 = BoboPredicateCallType(lambda e, h: (seen.append((type(e.data).__name__, _plain(e.data))), case['ret'])[1], dtype, **kw)
        values = list(case['values']) * 3
        got2 = []
        for vn in values:
            seen.clear()
            try:
                r = shared2.evaluate(mk_event(kind, vals[vn]), BoboHistory({}))      # (the event is dropped right here)
            except Exception as ex:      # noqa
                r = 'raise ' + type(ex).__name__
            got2.append((r, list(seen)))
        want2 = []
        for vn in values:
            seen.clear()
            keep = mk_event(kind, vals[vn])
            fresh = BoboPredicateCallType(lambda e, h: (seen.append((type(e.data).__name__, _plain(e.data))), case['ret'])[1], dtype, **kw)
            try:
                r = fresh.evaluate(keep, BoboHistory({}))
            except Exception as ex:      # noqa
                r = 'raise ' + type(ex).__name__
            want2.append((r, list(seen)))
        for k, (g, w) in enumerate(zip(got2, want2)):
            if g != w and 'nan' not in repr(g) + repr(w):
                res.violations.append(Violation(
                    'typed-stateful', f"BoboPredicateCallType(dtype={case['dtype']}, subtype={subtype}, cast={cast}) offered the events "
                    f"{values} one at a time, each dropped after its evaluation ({kind!r}): on event {k} (data {values[k]}) it gave "
                    f"result/function-data {g}, a fresh predicate on that event alone gives {w}", {'part': 'typed-seq', **case}))
                break
    res.add_case({'part': 'typed-seq', **case}, nontrivial=True)
    res.count('typed_seq')


def typed_seq_cases(rng, count):
    names = list(VALUES)
    # values that compare equal (and hash alike) yet cast differently, one after the other: whatever is remembered by VALUE
    # serves the second with the first one's conversion
    for dn in DTYPES:
        for seq in (['0.0', '-0.0'], ['-0.0', '0.0', '0'], ['True', '1.0', '1'], ['1.0', 'True'], ['1', '1.0', 'True'], ['0', 'False', '0.0']):
            for kind in 'sca':
                yield {'part': 'typed-seq', 'dtype': dn, 'values': seq, 'subtype': True, 'cast': True, 'kind': kind, 'ret': True}
    for dn in DTYPES:
        for _ in range(count):
            yield {'part': 'typed-seq', 'dtype': dn, 'values': [rng.choice(names) for _ in range(rng.randint(2, 4))],
                   'subtype': rng.random() < 0.7, 'cast': rng.random() < 0.85, 'kind': rng.choice('sca'), 'ret': rng.random() < 0.7}


def typed_cases():
    for dn in DTYPES:
        for vn in list(VALUES) + list(OUTSIDE):
            for subtype in (True, False):
                for cast in (True, False):
                    for kind in ('s', 'c', 'a'):
                        for ret in (True, False):
                            yield {'part': 'typed', 'dtype': dn, 'value': vn, 'subtype': subtype, 'cast': cast, 'kind': kind, 'ret': ret}


# ---------------------------------------------------------------------------------------------------

def compare(res: Result, ctx: Ctx, lines, impl, label, ncases):
    if not lines:
        return
    if ctx.model_available():
        model = run_model('builder', lines)
        res.traces_validated += ncases
        for k, (a, b) in enumerate(zip(model, impl)):
            if a != b:
                if len(res.disagreements) < 5:
                    # context: the lines of the same case
                    j = k
                    while j > 0 and not lines[j].startswith(('new ', 'rawblk', 'rawpat', 'typed')):
                        j -= 1
                    res.disagreements.append({'stream': label, 'op_index': k, 'ops': lines[j:k + 1], 'model': a, 'impl': b})
                else:
                    res.count('more_disagreements')
    else:
        if not res.disagreements:
            res.notes.append('model driver unavailable: correspondence not run')
            res.disagreements.append({'correspondence': 'builder', 'error': 'model driver did not build'})


def streams_for(ctx, L):
    return list(itertools.product((0, 1, 2), repeat=L))


def run_item(rp, ctx: Ctx, res: Result, lines, impl):
    """one replay-format item (also the corpus format)."""
    accepted = {}
    part = rp.get('part')
    if part == 'builder':
        do_builder_case({k: rp[k] for k in ('name', 'singleton', 'calls')}, res, lines, impl, accepted)
        res.add_case(rp)
    elif part == 'rawblk':
        do_raw_block(tuple(c == '1' for c in rp['flags']), rp['npreds'], res, lines, impl)
    elif part == 'rawpat':
        do_raw_pattern(rp['name'], [tuple(c == '1' for c in f) for f in rp['flags']], res, lines, impl, accepted)
    elif part == 'typed':
        do_typed(rp, res, lines, impl)
    elif part == 'typed-seq':
        do_typed_seq({k: v for k, v in rp.items() if k != 'part'}, res)
    elif part == 'stream':
        o = rp['origin']
        if o['part'] == 'builder':
            do_builder_case({k: o[k] for k in ('name', 'singleton', 'calls')}, res, lines, impl, accepted)
        else:
            do_raw_pattern(o['name'], [tuple(c == '1' for c in f) for f in o['flags']], res, lines, impl, accepted)
        res.add_case(rp)
    elif part == 'malformed':
        malformed_builder(res)
    else:
        raise ValueError('unknown replay part ' + repr(part))
    for key, (p, origin) in accepted.items():
        if part == 'stream':
            run_streams(p, origin, [tuple(rp['stream'])], res, start=rp.get('start_index'))
        else:
            run_streams(p, origin, streams_for(ctx, 4), res)


def run(ctx: Ctx) -> Result:
    res = Result()
    accepted = {}
    if ctx.replay is not None:
        lines, impl = [], []
        run_item(ctx.replay['replay'], ctx, res, lines, impl)
        compare(res, ctx, lines, impl, 'replay', 1)
        return res

    # corpus first: hand-picked hard cases and witnesses of past/mutant failures
    lines, impl = [], []
    items = json.loads((CORPUS / 'C19' / 'cases.json').read_text()) if (CORPUS / 'C19' / 'cases.json').exists() else []
    for rp in items:
        run_item(rp, ctx, res, lines, impl)
        res.count('corpus')
    compare(res, ctx, lines, impl, 'corpus', len(items))

    # (1) builder
    lines, impl = [], []
    n = 0
    for case in builder_cases(ctx, res):
        nv = len(res.violations)
        do_builder_case(case, res, lines, impl, accepted)
        n += 1
        nt = any(c['m'] in BLOCK_METHODS for c in case['calls'])
        res.add_case(case, nontrivial=nt)
        res.count(f"builder_seq_len_{min(len(case['calls']), 5)}{'+' if len(case['calls']) > 5 else ''}")
        if len(res.violations) > nv + 20:
            break
        if len(res.violations) > 200:
            break
    for o in impl:
        if o.startswith('err '):
            res.count('builder_' + o.replace(' ', '_'))
        elif o.startswith('ok +'):
            res.count('builder_calls_adding_blocks')
    malformed_builder(res)
    compare(res, ctx, lines, impl, 'builder', n)
    n_builder_patterns = len(accepted)
    res.count('builder_distinct_accepted_patterns', n_builder_patterns)

    # (2) raw constructors
    lines, impl = [], []
    n = 0
    for f in FLAGS:
        for npreds in (0, 1, 2, 3):
            do_raw_block(f, npreds, res, lines, impl)
            n += 1
    kmax = 4 if ctx.thorough else 3
    for name in ('p', ''):
        do_raw_pattern(name, [], res, lines, impl, accepted)
        n += 1
        for k in range(1, (kmax if name else 2) + 1):
            for flags in itertools.product(FLAGS, repeat=k):
                do_raw_pattern(name, list(flags), res, lines, impl, accepted)
                n += 1
    compare(res, ctx, lines, impl, 'raw', n)
    res.count('raw_distinct_accepted_patterns', len(accepted) - n_builder_patterns)

    # (3) every accepted pattern against every short stream, directly on BoboRun.process
    L = 5 if ctx.thorough else 4
    streams = streams_for(ctx, L)
    items = list(accepted.items())
    budget = 6000 if ctx.thorough else 1500
    if len(items) > budget:
        raw = [it for it in items if it[0].startswith('raw:')]
        rest = [it for it in items if not it[0].startswith('raw:')]
        items = raw + ctx.rng.sample(rest, budget - len(raw))
    for key, (p, origin) in items:
        nv = len(res.violations)
        run_streams(p, origin, streams, res)
        res.add_case({'part': 'stream', 'pattern': [show_block(b) for b in p.blocks]}, nontrivial=len(p.blocks) > 1)
        res.count(f'stream_patterns_k{min(len(p.blocks), 6)}')
        if len(res.violations) > nv and len(res.violations) > 50:
            break

    # (4) typed predicates
    lines, impl = [], []
    n = 0
    for case in typed_cases():
        do_typed(case, res, lines, impl)
        n += 1
    compare(res, ctx, lines, impl, 'typed', n)
    for case in typed_seq_cases(ctx.rng, 400 if ctx.thorough else 60):
        do_typed_seq({k: v for k, v in case.items() if k != 'part'}, res)
    res.exhaustive = True
    res.notes.append('observation: followed_by_any / not_followed_by_any wrap callables IN the caller\'s list (the list is rewritten in '
                     'place); the blocks hold their own tuple, so later edits of the list do not reach them (checked), and the rewritten '
                     'entries denote the same predicates (checked); a tuple of callables raises TypeError for the same reason')
    res.notes.append('observation: an exception of dtype(data) other than TypeError/ValueError (int(float("inf")): OverflowError) escapes '
                     'BoboPredicateCallType.evaluate; the user function is not called and the event is untouched')
    return res


def search(ctx: Ctx) -> Result:
    """deeper directed search on the implementation alone (oracles only): the thorough families."""
    ctx2 = Ctx(ctx.prop, 'thorough', ctx.seed, ctx.rng, lean=None)
    res = run(ctx2)
    res.disagreements = []
    res.notes = [n for n in res.notes if 'model driver' not in n]
    return res


SPEC = PropSpec(
    prop='C19',
    translators=['patternrules', 'builder'],
    run=run,
    search=search,
    rule='(1) builder: every option value of every method (times omitted/-1/0/1/3, loop/optional omitted/off/on, group omitted/""/"g", '
         'callable or ready BoboPredicate, 0-2 predicates for *_any) alone and inside a generable pattern; all call sequences of length '
         '<=3 (4 thorough) over a reduced 16-call alphabet (one representative per method and flag outcome, raising calls included); seeded '
         'random sequences of 2-9 calls over the full alphabet; (2) all 16 flag vectors x 0-3 predicates for BoboPatternBlock, all 16^k flag '
         'vectors for 1-3 (4) block patterns and the empty block list / empty name for BoboPattern; (3) every distinct accepted pattern fed '
         'all streams of length 4 (5) over {0,1,2} from a fresh run and every pair of events from every interior position, calling '
         'BoboRun.process directly; (4) 7 dtypes x 16 data values x subtype x cast x 3 event kinds x verdict; '
         'a case is non-trivial when it adds blocks / has legal blocks / needs a cast; distinct = distinct case description',
    trusted_base=['harness/props/c19.py doc_call / doc_block_ok / doc_pattern_ok: the documented table and legality rules transcribed '
                  'from builder.py docstrings and docs/phenomena.rst',
                  'translate/builder.py checks syntactically that each event kind\'s cast() is a single `return Cls(<own fields>, '
                  'data=dtype(self._data))` (a new object; no assignment to the receiver)'],
    assumptions=['callables handed to the builder take two parameters (otherwise BoboPredicateCall raises BoboPredicateError before '
                 'anything is appended: exercised as a malformed stream)',
                 'dtype(data) returns a value or raises TypeError/ValueError (another exception, e.g. OverflowError for int(inf), '
                 'escapes evaluate: the function is still not called and the event is untouched — exercised, outside the model)',
                 'isinstance / type()== / dtype(...) of arbitrary user types are parameters of the model (typeOk, cast)',
                 'user predicates are functions of (event, history); a predicate that raises is C14\'s subject'],
    model_covers='BoboPatternBuilder.__init__/next/not_next/followed_by/not_followed_by/followed_by_any/not_followed_by_any/precondition/'
                 'haltcondition/generate (flags, repetition loop, wrapping, error class, state after a raise); BoboPatternBlock/BoboPattern '
                 'constructor rules (shared with C01); BoboPredicateCallType.evaluate decision; BoboEvent*.cast shape',
)
