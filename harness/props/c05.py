"""
C05 — A finished run stays finished: at most one complex event per run and instance.

Schedules of C04 and fault sequences of C06 (including SYNCs that merge a
backlog with newer changes), with the oracle evaluated after EVERY elementary
step (not only at quiescence), on the real instances: a run id that instance i
ever reported completed/halted is never in i's active set again; per (instance,
run) at most one 'completed' report (=> one complex event) and at most one action
execution; a completion learned from a peer executes no action there (default
local-only configuration).  Per-component D-tie as in C04.
"""
from harness.core import PropSpec, Result, Ctx
from harness import gen_cluster as gc
from harness.props.c04 import run_scenarios

SIGS = {'completed-twice', 'finished-run-resurrected', 'action-executed-twice', 'remote-completion-executed-action'}


def scenarios(ctx: Ctx, res: Result):
    import json
    from harness.core import CORPUS
    for f in sorted((CORPUS / 'C05').glob('*.json')):        # witnesses of past findings run first
        res.count('corpus')
        yield json.loads(f.read_text())['scenario']
    for sc in gc.merged_backlog_family():
        res.count('merged_backlog_family')
        yield sc
    for sc in gc.singleton_merged_family():
        res.count('singleton_merged_family')
        yield sc
    for sc in gc.instant_completion_family():
        res.count('instant_completion_family')
        yield sc
    for sc in gc.racing_engine_family():
        res.count('racing_engine_family')
        yield sc
    for sc in gc.remote_then_local_family():
        res.count('remote_then_local_family')
        yield sc
    for _ in range(600 if ctx.thorough else 80):
        res.count('random_singleton')
        sc = gc.fault_scenario(ctx.rng)
        sc['phens'] = ctx.rng.choice((gc.SING, gc.SING2))
        yield sc
    fam = list(gc.conflict_family())
    for sc in ctx.rng.sample(fam, len(fam) if ctx.thorough else 60):
        res.count('conflict_family')
        yield sc
    for _ in range(3000 if ctx.thorough else 350):
        res.count('random')
        yield gc.fault_scenario(ctx.rng) if ctx.rng.random() < 0.5 else gc.scenario(ctx.rng)


def bounded_engine_cases(res):
    """"never reports a second complex event or executes a second action for it" when a task DOWNSTREAM of the producer
    refuses the complex event (a bounded receiver that is full at that moment) and the caller keeps calling update():
    however the refusal is handled, no run is published twice.  Two runs complete on one datum (locally, or named by one
    peer message); every task's queue takes `bound` items."""
    from harness.core import Violation
    from harness.props.c08 import bound_queue
    from bobocep import BoboError
    from bobocep.cep.action import BoboAction, BoboActionHandlerBlocking
    from bobocep.cep.engine.decider.runserial import BoboRunSerial
    from bobocep.cep.engine.producer.pubsub import BoboProducerSubscriber
    from bobocep.cep.event import BoboEventSimple, BoboHistory
    from bobocep.cep.phenom import BoboPhenomenon
    from bobocep.cep.phenom.pattern.builder import BoboPatternBuilder
    from bobocep.setup.simple import BoboSetupSimple

    class Count(BoboAction):
        def __init__(self, name, log):
            super().__init__(name)
            self.log = log

        def execute(self, event):
            self.log.append(tuple(e.event_id for e in event.history.all_events()))
            return True, None

    class Rec(BoboProducerSubscriber):
        def __init__(self):
            self.events = []

        def on_producer_update(self, event, local):
            self.events.append((tuple(e.event_id for e in event.history.all_events()), event.pattern_name, local))

    for how in ('local', 'remote'):
        for bound in (1, 2):
            for which in ('receiver', 'forwarder'):
                case = {'bounded_engine': True, 'how': how, 'bound': bound, 'which': which}
                res.add_case(case, nontrivial=True)
                res.count('bounded_engine_cases')
                log, rec = [], Rec()
                phens = [BoboPhenomenon(name=f'ph{i}', action=Count(f'act{i}', log), patterns=[
                    BoboPatternBuilder(f'p{i}').followed_by(lambda e, h: e.data == 0).followed_by(lambda e, h: e.data == 1).generate()])
                    for i in range(3)]
                eng = BoboSetupSimple(phenomena=phens, handler=BoboActionHandlerBlocking()).generate()
                eng.producer.subscribe(rec)
                bound_queue(getattr(eng, which), '_queue', bound)
                raised = 0

                def pump(n=14):
                    nonlocal raised
                    for _ in range(n):
                        try:
                            eng.update()
                        except BoboError:
                            raised += 1
                try:
                    if how == 'local':
                        eng.receiver.add_data(0)
                        pump(4)
                        eng.receiver.add_data(1)
                    else:
                        recs = [BoboRunSerial(f'peer{i}', f'ph{i}', f'p{i}', 2, BoboHistory({'': [
                            BoboEventSimple(f'x{i}a', 1, 0), BoboEventSimple(f'x{i}b', 2, 1)]})) for i in range(3)]
                        eng.decider.on_distributed_update(completed=recs, halted=[], updated=[])
                    pump()
                except Exception as e:      # noqa
                    res.violations.append(Violation('component-raised', f"{case}: {type(e).__name__}: {e}", case))
                    continue
                res.count('bounded_engine_refusals', raised)
                seen = {}
                for key, pat, local in rec.events:
                    seen[(key, pat)] = seen.get((key, pat), 0) + 1
                twice = [k for k, v in seen.items() if v > 1]
                if twice:
                    res.violations.append(Violation('completed-twice', f"{case}: the complex event of run {twice[0]} was published "
                                                    f"{seen[twice[0]]} times ({raised} update() calls raised meanwhile)", case))
                    continue
                if how == 'remote' and log:
                    res.violations.append(Violation('remote-completion-executed-action', f"{case}: {len(log)} action executions for completions learned from a peer", case))
                    continue
                if len(set(log)) != len(log) and how == 'local':
                    from collections import Counter
                    c = Counter(log)
                    if any(v > 3 for v in c.values()) or len(log) > 3:
                        res.violations.append(Violation('action-executed-twice', f"{case}: {len(log)} action executions for 3 completed runs: {dict(c)}", case))


def serving_forwarder_cases(res):
    """"never executes a second action for it" where the forwarder is configured to serve completions learned from peers as
    well (local_only=False, the non-default the constructor offers): runs completing here and runs a peer reports completed,
    interleaved — per run at most one complex event and exactly one action execution."""
    from harness.core import Violation
    from bobocep.cep.action import BoboAction, BoboActionHandlerBlocking
    from bobocep.cep.engine.engine import BoboEngine
    from bobocep.cep.engine.receiver.receiver import BoboReceiver
    from bobocep.cep.engine.receiver.validator import BoboValidatorAll
    from bobocep.cep.engine.decider.decider import BoboDecider
    from bobocep.cep.engine.producer.producer import BoboProducer
    from bobocep.cep.engine.forwarder.forwarder import BoboForwarder
    from bobocep.cep.engine.decider.runserial import BoboRunSerial
    from bobocep.cep.engine.producer.pubsub import BoboProducerSubscriber
    from bobocep.cep.event import BoboEventSimple, BoboHistory
    from bobocep.cep.gen import BoboGenEventIDUnique, BoboGenTimestampEpoch
    from bobocep.cep.phenom import BoboPhenomenon
    from bobocep.cep.phenom.pattern.builder import BoboPatternBuilder

    class Count(BoboAction):
        def __init__(self, name, log):
            super().__init__(name)
            self.log = log

        def execute(self, event):
            self.log.append(tuple(e.event_id for e in event.history.all_events()))
            return True, None

    class Rec(BoboProducerSubscriber):
        def __init__(self):
            self.events = []

        def on_producer_update(self, event, local):
            self.events.append((tuple(e.event_id for e in event.history.all_events()), local))

    for local_only in (False, True):
        for order in ('local-first', 'remote-first', 'interleaved'):
            case = {'serving_forwarder': True, 'local_only': local_only, 'order': order}
            res.add_case(case, nontrivial=True)
            res.count('serving_forwarder_cases')
            log, rec = [], Rec()
            ph = BoboPhenomenon(name='ph', action=Count('act', log), patterns=[
                BoboPatternBuilder('p').followed_by(lambda e, h: e.data == 0).followed_by(lambda e, h: e.data == 1).generate()])
            ids, ts = BoboGenEventIDUnique(), BoboGenTimestampEpoch()
            eng = BoboEngine(receiver=BoboReceiver(BoboValidatorAll(), ids, ts), decider=BoboDecider([ph], ids, BoboGenEventIDUnique()),
                             producer=BoboProducer([ph], ids, ts),
                             forwarder=BoboForwarder([ph], BoboActionHandlerBlocking(), ids, ts, local_only=local_only))
            eng.producer.subscribe(rec)

            def local_run():
                eng.receiver.add_data(0)
                for _ in range(4):
                    eng.update()
                eng.receiver.add_data(1)
                for _ in range(8):
                    eng.update()

            def remote_run(k):
                eng.decider.on_distributed_update(completed=[BoboRunSerial(f'peer{k}', 'ph', 'p', 2, BoboHistory({'': [
                    BoboEventSimple(f'x{k}a', 1, 0), BoboEventSimple(f'x{k}b', 2, 1)]}))], halted=[], updated=[])
                for _ in range(8):
                    eng.update()
            try:
                plan = {'local-first': 'LLRR', 'remote-first': 'RRLL', 'interleaved': 'LRLR'}[order]
                for k, w in enumerate(plan):
                    local_run() if w == 'L' else remote_run(k)
            except Exception as e:      # noqa
                res.violations.append(Violation('component-raised', f"{case}: {type(e).__name__}: {e}", case))
                continue
            from collections import Counter
            pub, ran = Counter(k for k, _ in rec.events), Counter(log)
            loc = {k for k, l in rec.events if l}
            if any(v > 1 for v in pub.values()) or len(pub) != 4:
                res.violations.append(Violation('completed-twice', f"{case}: complex events per run {dict(pub)} (4 runs finished, one each expected)", case))
            elif any(v > 1 for v in ran.values()):
                k = next(k for k, v in ran.items() if v > 1)
                res.violations.append(Violation('action-executed-twice', f"{case}: the action ran {ran[k]} times for the {'locally' if k in loc else 'remotely'} "
                                                f"completed run {k}", case))
            elif local_only and set(ran) - loc:
                res.violations.append(Violation('remote-completion-executed-action', f"{case}: action executed for completions learned from a peer", case))


def run(ctx: Ctx) -> Result:
    res = Result()
    if ctx.replay is None or ctx.replay['replay'].get('serving_forwarder'):
        serving_forwarder_cases(res)
        if ctx.replay is not None:
            return res
    if ctx.replay is None or ctx.replay['replay'].get('bounded_engine'):
        bounded_engine_cases(res)
        if ctx.replay is not None:
            return res
    if ctx.replay is None or not ctx.replay['replay'].get('race'):
        scs = [ctx.replay['replay']] if ctx.replay is not None else scenarios(ctx, res)
        run_scenarios(ctx, scs, res, SIGS)
    from harness import decider_race
    decider_race.attach(ctx, res)
    return res


def search(ctx: Ctx) -> Result:
    res = Result()
    run_scenarios(Ctx(ctx.prop, ctx.tier, ctx.seed, ctx.rng), (gc.fault_scenario(ctx.rng) for _ in range(400)), res, SIGS)
    res.disagreements = []
    return res


SPEC = PropSpec(
    prop='C05', extra_props=['C05All'], translators=['deciderfrag'], run=run, search=search,
    rule='singleton families (a merged SYNC naming the sender\'s finished run and the receiver\'s adopted run; random fault schedules over singleton patterns), merged-backlog family (one failed or unacknowledged send, then the run finishes, then the merged SYNC; 2 and 3 instances), '
         'the C04 racing-pair family, and seeded random schedules with and without link faults and clock advances (8-40 ops, 2-3 '
         'instances); the oracle runs after every elementary step including each pass and delivery inside sync/heal; '
         'engines with a forwarder that serves peers\' completions too (local_only=False) and with bounded task queues',
    trusted_base=['harness/cluster.py in-memory network double'],
    assumptions=['finished-run memory enabled and larger than the number of runs finished in the scenario', 'cluster scenarios: default local_only=True forwarder (local_only=False: serving_forwarder_cases)'],
    model_covers='filter of remote completed/halted/updated against the finished-run memory, precedence inside one remote update, '
                 'local-only action dispatch',
)
