"""
C05 — A finished run stays finished: at most one complex event per run and instance.

Schedules of C04 and fault sequences of C06 (including SYNCs that merge a
backlog with newer changes), with the oracle evaluated after EVERY elementary
step (not only at quiescence), on the real instances: a run id that instance i
ever reported completed/halted is never in i's active set again; per (instance,
run) at most one 'completed' report (=> one complex event) and at most one action
execution; a completion learned from a peer executes no action there (default
local-only configuration).  Per-component D-tie as in C04.
"""
from harness.core import PropSpec, Result, Ctx
from harness import gen_cluster as gc
from harness.props.c04 import run_scenarios

SIGS = {'completed-twice', 'finished-run-resurrected', 'action-executed-twice', 'remote-completion-executed-action'}


def scenarios(ctx: Ctx, res: Result):
    import json
    from harness.core import CORPUS
    for f in sorted((CORPUS / 'C05').glob('*.json')):        # witnesses of past findings run first
        res.count('corpus')
        yield json.loads(f.read_text())['scenario']
    for sc in gc.merged_backlog_family():
        res.count('merged_backlog_family')
        yield sc
    for sc in gc.singleton_merged_family():
        res.count('singleton_merged_family')
        yield sc
    for sc in gc.instant_completion_family():
        res.count('instant_completion_family')
        yield sc
    for sc in gc.racing_engine_family():
        res.count('racing_engine_family')
        yield sc
    for sc in gc.remote_then_local_family():
        res.count('remote_then_local_family')
        yield sc
    for _ in range(600 if ctx.thorough else 80):
        res.count('random_singleton')
        sc = gc.fault_scenario(ctx.rng)
        sc['phens'] = ctx.rng.choice((gc.SING, gc.SING2))
        yield sc
    fam = list(gc.conflict_family())
    for sc in ctx.rng.sample(fam, len(fam) if ctx.thorough else 60):
        res.count('conflict_family')
        yield sc
    for _ in range(3000 if ctx.thorough else 350):
        res.count('random')
        yield gc.fault_scenario(ctx.rng) if ctx.rng.random() < 0.5 else gc.scenario(ctx.rng)


def run(ctx: Ctx) -> Result:
    res = Result()
    if ctx.replay is None or not ctx.replay['replay'].get('race'):
        scs = [ctx.replay['replay']] if ctx.replay is not None else scenarios(ctx, res)
        run_scenarios(ctx, scs, res, SIGS)
    from harness import decider_race
    decider_race.attach(ctx, res)
    return res


def search(ctx: Ctx) -> Result:
    res = Result()
    run_scenarios(Ctx(ctx.prop, ctx.tier, ctx.seed, ctx.rng), (gc.fault_scenario(ctx.rng) for _ in range(400)), res, SIGS)
    res.disagreements = []
    return res


SPEC = PropSpec(
    prop='C05', extra_props=['C05All'], translators=['deciderfrag'], run=run, search=search,
    rule='singleton families (a merged SYNC naming the sender\'s finished run and the receiver\'s adopted run; random fault schedules over singleton patterns), merged-backlog family (one failed or unacknowledged send, then the run finishes, then the merged SYNC; 2 and 3 instances), '
         'the C04 racing-pair family, and seeded random schedules with and without link faults and clock advances (8-40 ops, 2-3 '
         'instances); the oracle runs after every elementary step including each pass and delivery inside sync/heal',
    trusted_base=['harness/cluster.py in-memory network double'],
    assumptions=['finished-run memory enabled and larger than the number of runs finished in the scenario', 'default local_only=True forwarder'],
    model_covers='filter of remote completed/halted/updated against the finished-run memory, precedence inside one remote update, '
                 'local-only action dispatch',
)
