"""
C14 — A failing predicate cannot corrupt or stop detection.

Cases: the C01 pattern families with `raiseif:k:<pred>` wrapped around every
kind of predicate site (precondition, haltcondition, n-th predicate of any
block incl. the first) and a second, non-raising pattern alongside, so that
"every other run and pattern" is observable.  D-tie with `bobodrv decider`
(the model's predicates return `none` for a raise).  Oracle: the reference
semantics, where a raise leaves the affected run untouched and everything
else proceeds; plus: update() never lets an exception escape.
"""
import copy

from harness.core import PropSpec, Result, Ctx, Violation
from harness import gen_patterns as gp
from harness.decider_suite import Case, run_cases, ev_ops

BYSTANDER = gp.pattern('q', ['0000', '0100', '0000'], [['eq:0'], ['eq:1'], ['eq:2']], groups=['x', 'y', 'z'])


def sites(pat):
    out = [('pre', i) for i in range(len(pat['pre']))] + [('halt', i) for i in range(len(pat['halt']))]
    for b, (_, _, preds) in enumerate(pat['blocks']):
        out += [('blk', b, i) for i in range(len(preds))]
    return out


def with_raise(pat, site, k):
    p = copy.deepcopy(pat)
    p['blocks'] = [(g, f, list(ps)) for g, f, ps in p['blocks']]
    if site[0] == 'pre':
        p['pre'][site[1]] = f'raiseif:{k}:' + p['pre'][site[1]]
    elif site[0] == 'halt':
        p['halt'][site[1]] = f'raiseif:{k}:' + p['halt'][site[1]]
    else:
        p['blocks'][site[1]][2][site[2]] = f'raiseif:{k}:' + p['blocks'][site[1]][2][site[2]]
    return p


def cases(ctx: Ctx, res: Result):
    P = gp.pattern
    # corpus: raise after an optional fall-through; raise in the 2nd predicate of a block; raise in first block
    corpus = [
        (P('p', ['0000', '0001', '0100', '1000'], [['eq:0'], ['eq:1'], ['raiseif:2:eq:2'], ['eq:3']]), [0, 2, 2, 1, 3]),
        (P('p', ['0000', '1000'], [['eq:0'], ['eq:1', 'raiseif:2:any']]), [0, 2, 0, 1, 2]),
        (P('p', ['0000', '0000'], [['raiseif:0:any', 'eq:0'], ['eq:1']]), [0, 1, 0, 1]),
        (P('p', ['0000', '1010', '0000'], [['eq:0'], ['raiseif:1:eq:1'], ['eq:2']], pre=['raiseif:2:any']), [0, 1, 0, 2, 2]),
        (P('p', ['0000', '0000'], [['eq:0'], ['eq:1']], halt=['raiseif:1:eq:2', 'eq:2']), [0, 1, 0, 2, 1]),
    ]
    for pat, stream in corpus:
        res.count('corpus')
        yield Case([('ph', [pat, BYSTANDER])], 0, ev_ops(stream), 'corpus')
    # ONE predicate object used by several patterns (the same predicate text is one object inside a configuration): what it
    # remembers from an evaluation that raised must not leak into its next evaluation for another pattern / run
    shared = [
        [('ph', [P('p', ['0000', '0000'], [['raiseif:1:ne:9'], ['eq:2']]), P('q', ['0000', '0000'], [['raiseif:1:ne:9'], ['eq:3']])])],
        [('ph', [P('p', ['0000', '0000'], [['raiseif:1:ne:9'], ['eq:2']])]), ('qh', [P('q', ['0000', '0000', '0000'], [['raiseif:1:ne:9'], ['eq:3'], ['eq:0']])])],
        [('ph', [P('p', ['0000', '0100', '0000'], [['eq:0'], ['raiseif:2:ne:9'], ['eq:3']]), P('q', ['0000', '0000'], [['eq:0'], ['raiseif:2:ne:9']]),
                 P('r', ['0000', '0000'], [['raiseif:2:ne:9'], ['eq:1']])])],
        [('ph', [P('p', ['0000', '0000'], [['eq:0'], ['eq:1']], pre=['raiseif:2:ne:9']), P('q', ['0000', '0000'], [['eq:0'], ['eq:1']], pre=['raiseif:2:ne:9'],
                                                                                            halt=['raiseif:2:ne:9'])])],
    ]
    for phens in shared:
        for s in ([0, 1, 2, 3], [0, 1, 0, 1, 2], [2, 1, 0, 1], [0, 0, 2, 2, 1, 3], [1, 0, 1, 3]):
            res.count('shared_predicate_object')
            yield Case(phens, 0, ev_ops(s), 'shared')
    streams = list(gp.all_streams(4))
    nsite, nstream = (4, 20) if ctx.thorough else (2, 7)
    for pat in gp.exhaustive_patterns(3, ctx.thorough):
        ss = sites(pat)
        for site in ctx.rng.sample(ss, min(nsite, len(ss))):
            k = ctx.rng.randint(0, 2)
            rp = with_raise(pat, site, k)
            res.count('site_' + site[0] + (('_first' if site[1] == 0 else '_later') if site[0] == 'blk' else ''))
            for s in ctx.rng.sample(streams, nstream):
                yield Case([('ph', [rp, BYSTANDER])], 0, ev_ops(s), 'exh')
    for _ in range(1500 if ctx.thorough else 300):
        phens = gp.random_phens(ctx.rng, raising=True)
        res.count('random')
        yield Case(phens, 0, ev_ops(gp.random_stream(ctx.rng, ctx.rng.randint(5, 25), hi=3)), 'rnd')


def per_case(case, rd, outs, r):
    raising_hit = False
    # a raise actually happened iff some raiseif constant occurs in the stream (cheap over-approximation)
    ks = set()
    for _, pats in case.phens:
        for p in pats:
            for q in p['pre'] + p['halt'] + [x for b in p['blocks'] for x in b[2]]:
                if q.startswith('raiseif:'):
                    ks.add(q.split(':')[1])
    for op in case.ops:
        if op.split()[4] in ks:
            raising_hit = True
    r.add_case({'phens': case.phens, 'ops': case.ops[:8]}, nontrivial=raising_hit)
    r.count('cases_with_raise_reached' if raising_hit else 'cases_without_raise')
    if 'X' in outs:
        k = outs.index('X')
        r.violations.append(Violation('exception-escaped', f"an exception escaped BoboDecider.update() at {case.ops[k]!r}",
                                      {**case.to_json(), 'failing_step': k}))


def run(ctx: Ctx) -> Result:
    res = Result()
    cs = [Case.from_json(ctx.replay['replay'])] if ctx.replay is not None else cases(ctx, res)
    # every other event carries its number as a value with no JSON form (predlang.Num): the decider has no business with
    # the JSON text of the events it matches, least of all on the path that handles a failing predicate
    from harness import predlang as pl
    pl.OPAQUE['on'] = True
    try:
        run_cases(ctx, cs, res, per_case=per_case, use_ref=True, sig='raise-corrupts-detection')
    finally:
        pl.OPAQUE['on'] = False
    return res


def search(ctx: Ctx) -> Result:
    res = Result()
    streams = list(gp.all_streams(4))

    def gen():
        for pat in gp.exhaustive_patterns(3, True):
            for site in sites(pat):
                for k in (0, 1, 2):
                    for s in ctx.rng.sample(streams, 6):
                        yield Case([('ph', [with_raise(pat, site, k), BYSTANDER])], 0, ev_ops(s), 'search')
    from harness import predlang as pl
    pl.OPAQUE['on'] = True
    try:
        run_cases(Ctx(ctx.prop, ctx.tier, ctx.seed, ctx.rng), gen(), res, per_case=per_case, use_ref=True, sig='raise-corrupts-detection')
    finally:
        pl.OPAQUE['on'] = False
    res.disagreements = []
    return res


SPEC = PropSpec(
    prop='C14', extra_props=['C14Total'], translators=['runwalk', 'deciderfrag'], run=run, search=search,
    rule='C01 pattern families (all legal flag vectors up to 3 blocks) with a raising wrapper at sampled predicate sites '
         '(precondition, haltcondition, every predicate position of every block incl. the first) x sampled streams of length 4 '
         'over {0,1,2}, a non-raising bystander pattern alongside; plus seeded random multi-pattern configurations with raising '
         'predicates; a case is non-trivial when the stream contains the value on which some predicate raises',
    trusted_base=['harness/oracle_runs.py: reference semantics in which a raise leaves the affected run untouched'],
    assumptions=['a raising predicate has no other side effect'],
    model_covers='exception paths of BoboRun.process (gate, _is_match at every depth of the walk) and the try/except of '
                 'BoboDecider._check_against_runs / _check_against_patterns',
)
