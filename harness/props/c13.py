"""
C13 — A singleton pattern never has two active runs.

Histories: adaptive interleavings of local events with remote completed /
halted / updated records carrying the same or a different run id, duplicates
and stale replays, on real deciders whose pattern sets contain singleton
patterns.  D-tie: `bobodrv decider`.  Oracle on the real decider after every
operation: at most one run per singleton pattern (`runs_from`), and
restartability — when no run of the singleton is active and an event accepted
by its first block arrives, a run starts (or completes at once for a
one-block pattern).
"""
from harness.core import PropSpec, Result, Ctx, Violation
from harness import gen_patterns as gp
from harness import oracle_runs as ref
from harness.decider_suite import Case, run_cases
from harness.gen_remote import gen_history, _parse_table
import itertools


def singleton_phens(rng):
    P = gp.pattern
    fam = [
        [('ph', [P('s', ['0000', '0000', '0000'], [['eq:0'], ['eq:1'], ['eq:2']], singleton=True)])],
        [('ph', [P('s', ['0000', '1000'], [['eq:0'], ['eq:0']], singleton=True),
                 P('n', ['0000', '0100', '0000'], [['eq:0'], ['eq:1'], ['eq:2']])])],
        [('ph', [P('s', ['0000', '0100', '1000'], [['any'], ['gtmax'], ['lt:2']], singleton=True, halt=['eq:4'])]),
         ('qh', [P('s', ['0000', '0001', '0000'], [['eq:1'], ['eq:2'], ['eq:3']], singleton=True)])],
        [('ph', [P('one', ['0000'], [['eq:0']], singleton=True), P('s', ['0000', '0010', '0000'], [['eq:0'], ['eq:1'], ['eq:2']], singleton=True)])],
    ]
    # a predicate of a LATER block of the singleton raises on the very event its first block accepts (the stored run sees
    # the event, raises, is left alone -- and is still there: no second run may start)
    fam.append([('ph', [P('s', ['0000', '0000', '0000'], [['eq:0'], ['raiseif:0:eq:1'], ['eq:2']], singleton=True)])])
    fam.append([('ph', [P('s', ['0000', '1000', '0000'], [['lt:2'], ['raiseif:1:eq:3'], ['eq:2']], singleton=True, halt=['raiseif:0:eq:9']),
                        P('n', ['0000', '0000'], [['eq:0'], ['raiseif:0:eq:1']])])])
    fam.append([('ph', [P('s', ['0000', '0000'], [['any'], ['eq:2']], singleton=True, pre=['raiseif:1:any'])])])
    # the same pattern NAME in two phenomena, singleton in one only (whatever is looked up or remembered by pattern name
    # alone confuses the two)
    for first_single in (True, False):
        fam.append([('ph', [P('s', ['0000', '0000', '0000'], [['eq:0'], ['eq:1'], ['eq:2']], singleton=first_single)]),
                    ('qh', [P('s', ['0000', '0000', '0000'], [['eq:0'], ['eq:1'], ['eq:2']], singleton=not first_single)])])
        fam.append([('ph', [P('s', ['0000', '0100', '0000'], [['eq:0'], ['eq:1'], ['eq:2']], singleton=first_single),
                            P('t', ['0000', '0000'], [['eq:1'], ['eq:2']])]),
                    ('qh', [P('t', ['0000', '0000', '0000'], [['eq:0'], ['eq:1'], ['eq:2']], singleton=True),
                            P('s', ['0000', '0000'], [['eq:0'], ['eq:3']], singleton=not first_single)])])
    # names that coincide once (phenomenon, pattern) are joined with a separator: ('a','b_c') vs ('a_b','c')
    for sep in ('_', '-', '.'):
        fam.append([('a', [P(f'b{sep}c', ['0000', '0000', '0000'], [['eq:0'], ['eq:1'], ['eq:2']], singleton=True)]),
                    (f'a{sep}b', [P('c', ['0000', '0000', '0000'], [['eq:0'], ['eq:1'], ['eq:2']])])])
        fam.append([(f'a{sep}b', [P('c', ['0000', '0100', '0000'], [['eq:0'], ['eq:1'], ['eq:2']])]),
                    ('a', [P(f'b{sep}c', ['0000', '0000', '0000'], [['eq:0'], ['eq:1'], ['eq:2']], singleton=True, halt=['eq:4'])])])
    if rng.random() < 0.6:
        return rng.choice(fam)
    while True:
        phens = gp.random_phens(rng)
        if any(p.get('singleton') for _, ps in phens for p in ps):
            return phens


def pl_weird():
    from harness import predlang as pl
    return pl.WEIRD_TS


def _nfc(name):
    import unicodedata
    return unicodedata.normalize('NFC', name)


def exhaustive_cases():
    """all sequences of length <= 4 over local events {0,1,2} and remote upd/halt/comp with same/other id."""
    P = gp.pattern
    phens = [('ph', [P('s', ['0000', '0000', '0000'], [['eq:0'], ['eq:1'], ['eq:2']], singleton=True)])]
    # the local run started by the first `ev .. 0` is r0; a foreign peer's run is f0
    atoms = ['L0', 'L1', 'L2',
             'rem U r0|ph|s|2|g0=e0:0:s:0;g1=z:5:s:1', 'rem U f0|ph|s|2|g0=y:0:s:0;g1=z:5:s:1', 'rem U f0|ph|s|1|g0=y:0:s:0',
             'rem H r0|ph|s|1|g0=e0:0:s:0', 'rem H f0|ph|s|1|g0=y:0:s:0',
             'rem C r0|ph|s|3|g0=e0:0:s:0', 'rem C f0|ph|s|3|g0=y:0:s:0', 'rem C f1|ph|s|3|g0=y:0:s:0 U f0|ph|s|1|g0=y:0:s:0',
             # a SYNC merged with a backlog: the peer's run named finished AND, with an older state, updated
             'rem C f0|ph|s|3|g0=y:0:s:0;g1=z:5:s:1;g2=w:6:s:2 U f0|ph|s|2|g0=y:0:s:0;g1=z:5:s:1',
             'rem H f0|ph|s|2|g0=y:0:s:0;g1=z:5:s:1 U f0|ph|s|2|g0=y:0:s:0;g1=z:5:s:1']
    for n in (2, 3, 4):
        for seq in itertools.product(atoms, repeat=n - 1):
            ops, t = [], 0
            for a in ('L0',) + seq:
                if a[0] == 'L':
                    ops.append(f'ev e{t} {t} s {a[1]}')
                    t += 1
                else:
                    ops.append(a)
            yield Case(phens, 1000, ops, 'exh')
    # the same alphabet of local events on a singleton whose second block raises on the value its first block accepts
    rphens = [('ph', [P('s', ['0000', '0000', '0000'], [['eq:0'], ['raiseif:0:eq:1'], ['eq:2']], singleton=True)])]
    for cache in (0, 1000):
        for n in (2, 3, 4):
            for seq in itertools.product(['L0', 'L1', 'L2', 'rem U f0|ph|s|2|g0=y:0:s:0;g1=z:5:s:1', 'rem C f0|ph|s|3|g0=y:0:s:0'], repeat=n - 1):
                ops, t = [], 0
                for a in ('L0',) + seq:
                    if a[0] == 'L':
                        ops.append(f'ev e{t} {t} s {a[1]}')
                        t += 1
                    else:
                        ops.append(a)
                yield Case(rphens, cache, ops, 'exh-raise')
    # the peer spells the pattern's name with other code points (precomposed here, combining there): whichever pattern the
    # decider takes such a record to belong to, no pattern ends up with two runs
    nfc, nfd = 'caf\u00e9', 'cafe\u0301'
    for mine, theirs in ((nfc, nfd), (nfd, nfc)):
        uphens = [('ph', [P(mine, ['0000', '0000', '0000'], [['eq:0'], ['eq:1'], ['eq:2']], singleton=True)])]
        atoms_u = ['L0', 'L1', f'rem U f0|ph|{theirs}|2|g0=y:0:s:0;g1=z:5:s:1', f'rem U f1|ph|{theirs}|1|g0=x:0:s:0',
                   f'rem U f2|ph|{mine}|1|g0=v:0:s:0', f'rem C f0|ph|{theirs}|3|g0=y:0:s:0']
        for n in (1, 2, 3):
            for first in atoms_u:
                for seq in itertools.product(atoms_u, repeat=n - 1):
                    ops, t = [], 0
                    for a in (first,) + seq:
                        if a[0] == 'L':
                            ops.append(f'ev e{t} {t} s {a[1]}')
                            t += 1
                        else:
                            ops.append(a)
                    yield Case(uphens, 1000, ops, 'exh-spelling')


def per_case(case, rd, outs, r):
    singles = [(ph, p) for ph, ps in case.phens for p in ps if p.get('singleton')]
    r.add_case({'phens': case.phens, 'ops': case.ops[:6]}, nontrivial=any(o.startswith('rem') for o in case.ops))
    r.count('ops_remote', sum(1 for o in case.ops if o.startswith('rem')))
    r.count('ops_local', sum(1 for o in case.ops if o.startswith('ev')))
    prev_tab = []
    prev_raw = []
    told_finished = set()      # ids this instance was told (or itself reported) are finished
    slots = 0                  # places of the finished-run memory they can have taken (a foreign id and the local run it stood for)
    for k, (op, out) in enumerate(zip(case.ops, outs)):
        if out == 'X':
            r.violations.append(Violation('exception-escaped', f'exception escaped at {op[:60]}', {**case.to_json(), 'failing_step': k}))
            return
        tab = [x.rstrip('!').split('|') for x in _parse_table(out)]
        # a run that finished while processing THIS event is not held any more: held finished, it never moves again and a
        # singleton pattern can never restart (whatever made the step end abnormally -- an event the history cannot order)
        if op.startswith('ev '):
            t_now = out[out.rindex('T[') + 2:-1].split()
            t_was = set(prev_raw)
            stuck = [x for x in t_now if x.endswith('!') and x not in t_was]
            if stuck:
                r.violations.append(Violation('finished-singleton-run-active',
                                              f"after {op[:60]} run {stuck[0].split('|')[0]} is finished (complete or halted) but still held as an active run of "
                                              f"{stuck[0].split('|')[1]}/{stuck[0].split('|')[2]}: it will never move again",
                                              {**case.to_json(), 'failing_step': k}))
                return
        prev_raw = out[out.rindex('T[') + 2:-1].split() if 'T[' in out else []
        # a run the instance has seen finish — also one finished by a peer under a foreign id — must not be active
        # again (with the memory enabled and large): it would block the singleton from ever restarting
        if case.cache > 0:
            if op.startswith('rem '):
                cur_l = None
                for x in op.split()[1:]:
                    if x in ('C', 'H', 'U'):
                        cur_l = x
                    elif cur_l in ('C', 'H'):
                        told_finished.add(x.split('|')[0])
                        slots += 2
            for part in ('C[', 'H['):
                i = out.index(part) + 2
                now_fin = {y.split('|')[0] for y in out[i:out.index(']', i)].split()}
                slots += len(now_fin - told_finished)
                told_finished |= now_fin
        if 0 < case.cache and slots <= case.cache:
            back = [x for x in tab if x[0] in told_finished and (x[1], x[2]) in {(ph, p['name']) for ph, p in singles}]
            if back:
                r.violations.append(Violation('finished-singleton-run-active',
                                              f"run {back[0][0]} of singleton {back[0][1]}/{back[0][2]} finished (locally or at a peer) and is active again after {op[:70]}: the pattern cannot restart",
                                              {**case.to_json(), 'failing_step': k}))
                return
        for ph, p in singles:
            n = sum(1 for x in tab if x[1] == ph and x[2] == p['name'])
            # (a run kept under another spelling of the name is a run the decider took to be of this pattern)
            if sum(1 for x in tab if x[1] == ph and _nfc(x[2]) == _nfc(p['name'])) > 1:
                n = sum(1 for x in tab if x[1] == ph and _nfc(x[2]) == _nfc(p['name']))
            if n > 1:
                r.violations.append(Violation('two-active-singleton-runs',
                                              f"{n} active runs of singleton pattern {ph}/{p['name']} after {op[:70]}",
                                              {**case.to_json(), 'failing_step': k}))
                return
            # restartability through a peer: an `updated` record of this singleton pattern that is not stale (its run is not
            # known as finished, it is not at the last block) leaves the pattern WITH a run -- the one it folds onto, or
            # the one it creates when there is none (because this very message finished the previous one, say)
            if op.startswith('rem ') and n == 0:
                cur_l, fin_here, ups = None, set(), []
                for x in op.split()[1:]:
                    if x in ('C', 'H', 'U'):
                        cur_l = x
                    elif cur_l in ('C', 'H'):
                        fin_here.add(x.split('|')[0])
                    else:
                        ups.append(x.split('|'))
                live = [u for u in ups if u[1] == ph and u[2] == p['name'] and u[0] not in fin_here and u[0] not in told_finished
                        and int(u[3]) < len(p['blocks'])]
                if live:
                    r.violations.append(Violation('singleton-not-restartable',
                                                  f"after {op[:90]} no run of {ph}/{p['name']} is active although the message carries the "
                                                  f"live run {live[0][0]} at block {live[0][3]} of {len(p['blocks'])}",
                                                  {**case.to_json(), 'failing_step': k}))
                    return
            # restartability
            if op.startswith('ev '):
                w = op.split()
                e = (w[1], int(w[2]), w[3], int(w[4]))
                before = sum(1 for x in prev_tab if x[1] == ph and x[2] == p['name'])
                hit = False
                for q in p['blocks'][0][2]:
                    try:
                        if ref.ev(q, e, []):
                            hit = True
                            break
                    except ref.Raised:
                        pass
                if hit and len(p['blocks']) > 1:
                    # a run that was active before may have finished on this very event; then a start is allowed too
                    if before == 0 and n != 1:
                        r.violations.append(Violation('singleton-not-restartable',
                                                      f"no run of {ph}/{p['name']} was active, its first block accepts {op}, yet {n} runs are active",
                                                      {**case.to_json(), 'failing_step': k}))
                        return
                    if before == 0:
                        r.count('restarts_checked')
        prev_tab = tab
    # the decider's own accessor agrees
    for ph, p in singles:
        if len(rd.dec.runs_from(ph, p['name'])) > 1:
            r.violations.append(Violation('two-active-singleton-runs', 'runs_from reports two runs at the end', case.to_json()))


def run(ctx: Ctx) -> Result:
    res = Result()

    def cases():
        if ctx.replay is not None:
            yield Case.from_json(ctx.replay['replay'])
            return
        ex = list(exhaustive_cases())
        if not ctx.thorough:
            ex = [c for c in ex if len(c.ops) <= 3 or c.tag == 'exh-spelling'] + ctx.rng.sample([c for c in ex if len(c.ops) == 4 and c.tag != 'exh-spelling'], 600)
        for c in ex:
            res.count('exhaustive')
            yield c
        for _ in range(1500 if ctx.thorough else 250):
            res.count('random')
            yield gen_history(ctx.rng, singleton_phens(ctx.rng), ctx.rng.choice((0, 8, 1000)), ctx.rng.randint(6, 40), p_remote=0.5)
        # events stamped by their sources with something that is not a number (an ISO text, None): the history cannot order
        # them against the others; whatever becomes of such an event, no pattern ends up with two runs or with a dead one
        for _ in range(600 if ctx.thorough else 120):
            res.count('random_unorderable_timestamps')
            c = gen_history(ctx.rng, singleton_phens(ctx.rng), ctx.rng.choice((0, 8, 1000)), ctx.rng.randint(6, 30), p_remote=0.3)
            ops, n = [], 0
            for o in c.ops:
                w = o.split()
                if w[0] == 'ev' and ctx.rng.random() < 0.2:
                    w[2] = str(pl_weird() - n)
                    n += 1
                ops.append(' '.join(w))
            yield Case(c.phens, c.cache, ops, 'weirdts+nomodel')
    if ctx.replay is None or not ctx.replay['replay'].get('race'):
        run_cases(ctx, cases(), res, per_case=per_case, use_ref=False)
    # "at every moment, under every interleaving": the engine thread's update() against the distributed thread's
    # on_distributed_update() on one decider, the second started at every lock boundary of the first
    from harness import decider_race
    decider_race.attach(ctx, res)
    res.exhaustive = ctx.thorough
    return res


def search(ctx: Ctx) -> Result:
    r = run(Ctx(ctx.prop, 'thorough', ctx.seed, ctx.rng))
    r.disagreements = []
    return r


SPEC = PropSpec(
    prop='C13', translators=['deciderfrag'], run=run, search=search,
    rule='bounded-exhaustive: all sequences of length 2-3 (4 sampled in quick, all in thorough) over {local event 0/1/2, remote '
         'updated/halted/completed with the local or a foreign run id, a merged completed+updated message} on a 3-block singleton '
         'pattern; plus adaptive random histories (6-40 ops, half remote) over pattern sets containing singleton patterns, memory '
         '0/8/1000; non-trivial = contains a remote operation',
    trusted_base=[], assumptions=['pattern names are unique within a phenomenon'],
    model_covers='BoboDecider._check_against_patterns (singleton start gate) and on_distributed_update (folding remote records onto the '
                 'local singleton run, identifier substitution)',
)
