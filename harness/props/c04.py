"""
C04 — Replicas converge under every message interleaving.

Real instances (engine + BoboDistributedTCP each) on the in-memory network of
harness/cluster.py; schedules over {input at i, outgoing-loop iteration of i,
deliver next message on link i->j, re-delivery of an unacknowledged message}.
Per-component D-tie: every decider call made in these schedules (local and
remote) is replayed on the Lean decider model.  Oracles (independent of the
model): at quiescence all live instances hold the same runs at the same
positions and a run completed anywhere was reported completed everywhere; every
remote update obeys the documented conflict table (complete > halt > progress,
progress never backwards).
"""
from harness.core import PropSpec, Result, Ctx, Violation
from harness import gen_cluster as gc
from harness.cluster_suite import Runner, model_check_traces, conflict_table_check

SIGS = {'not-converged', 'completion-not-reported-everywhere', 'conflict-table', 'no-quiescence'}


def scenarios(ctx: Ctx, res: Result):
    fam = list(gc.conflict_family())
    if not ctx.thorough:
        fam = ctx.rng.sample(fam, 120)
    for k, sc in enumerate(fam):
        res.count('conflict_family')
        # every third: behind each decider a further subscriber that FAILS on notifications carrying a finished run
        # (cluster.Bomb): the application carries on, the conflict is decided as ever
        yield dict(sc, bomb=list(sc['names'])) if k % 3 == 1 else sc
    # re-delivery of an unacknowledged message merged with newer changes (the `dup` variants: delivered, reported failed)
    for sc in gc.newer_first_family():
        if any(o.startswith('dup') for o in sc['ops']):
            res.count('newer_first_family')
            yield sc
    # re-delivery from the per-peer backlog of successive states of ONE run (progress inside a looping block included: same
    # block, longer history) after 2-3 failed or unacknowledged sends
    for sc in gc.repeated_failure_family():
        res.count('repeated_failure_family')
        yield sc
    race = list(gc.loop_race_family())
    for sc in (race if ctx.thorough else ctx.rng.sample(race, 120)):
        res.count('loop_race_family')
        yield sc
    for _ in range(4000 if ctx.thorough else 500):
        res.count('random_schedule')
        yield gc.scenario(ctx.rng)


def run_scenarios(ctx: Ctx, scs, res: Result, sigs, extra=None, at_quiescence='check_converged'):
    runners = []
    for sc in scs:
        r = Runner(sc)
        try:
            r.run()
            if sc['ops'] and sc['ops'][-1] == 'heal':
                getattr(r, at_quiescence)()
        except Exception as e:   # an exception escaping a component is itself a finding of the run
            r.fail('component-raised', f"{e.__class__.__name__}: {e}")
        keys_s = {(ph, p['name']) for ph, ps in sc['phens'] for p in ps if p.get('singleton')}
        keys = {(ph, p['name']) for ph, ps in sc['phens'] for p in ps}
        if 'conflict-table' in sigs:
            for inst in list(r.c.insts.values()) + r.c.dead:
                bad = conflict_table_check(inst, keys_s, keys)
                if bad:
                    r.fail('conflict-table', f"instance {inst.tag}: {bad}")
                    break
        if extra:
            extra(r)
        n_msgs = sum(len(i.wire_log) for i in r.c.insts.values())
        res.add_case({'names': sc['names'], 'ops': sc['ops'][:14]}, nontrivial=n_msgs > 2)
        res.count('messages_on_wire', n_msgs)
        res.count('ops', len(sc['ops']))
        for (sig, what, step) in r.violations:
            if sig in sigs or sig in ('component-raised', 'lock-left-held'):
                # these schedules are deterministic (one thread, scripted clock and network): what they show, they show
                # again.  A failure that does not come back when the same schedule is run once more is not a property of
                # code and schedule (it was seen once in some thousand runs, on a loaded machine, and never reproduced): it
                # is reported as a note, not as a violation.
                again = Runner(sc)
                try:
                    again.run()
                    if sc['ops'] and sc['ops'][-1] == 'heal':
                        getattr(again, at_quiescence)()
                except Exception as e:   # noqa
                    again.fail('component-raised', f"{e.__class__.__name__}: {e}")
                if extra:
                    extra(again)
                if 'conflict-table' in sigs and sig == 'conflict-table':
                    again.violations.append((sig, what, step))          # (computed outside the runner: same inputs, same answer)
                if any(s2 == sig for (s2, _w, _k) in again.violations):
                    res.violations.append(Violation(sig, what + f" (step {step})", {**sc, 'failing_step': step}))
                else:
                    res.notes.append(f"NOT REPRODUCED (no violation reported): {sig}: {what[:200]} -- the same schedule run again shows nothing")
                    res.count('observations_not_reproduced')
                break
        runners.append(r)
    model_check_traces(ctx, runners, res)
    return runners


def run(ctx: Ctx) -> Result:
    res = Result()
    if ctx.replay is None or not ctx.replay['replay'].get('race'):
        scs = [ctx.replay['replay']] if ctx.replay is not None else scenarios(ctx, res)
        run_scenarios(ctx, scs, res, SIGS)
    # inside one instance: the engine thread's update() against the distributed thread's on_distributed_update(), the second
    # started at every lock boundary of the first — the outcome must be that of a serial order (harness/decider_race.py)
    from harness import decider_race
    decider_race.attach(ctx, res)
    return res


def search(ctx: Ctx) -> Result:
    res = Result()
    run_scenarios(Ctx(ctx.prop, ctx.tier, ctx.seed, ctx.rng), (gc.scenario(ctx.rng) for _ in range(400)), res, SIGS)
    res.disagreements = []
    return res


SPEC = PropSpec(
    prop='C04', translators=['deciderfrag'], run=run, search=search,
    rule='a loop-race family (one instance repeats a looping block while another leaves it; sampled delivery orders), a racing-pair family (2 instances, one replicated run, a racing pair of inputs {update,halt,complete} x every order of '
         'the pending passes/deliveries; sampled in quick, complete in thorough) plus seeded random schedules of 8-40 operations '
         'over {input, outgoing pass, deliver, re-delivery} for 2-3 instances and three pattern sets (halt condition, loops, '
         'optional, two patterns), each ended by healing; non-trivial = more than two messages crossed the wire',
    trusted_base=['harness/cluster.py: in-memory network; `_tcp_send`, `_now` and the loop lock are replaced on the instances, everything '
                  'else (outgoing loop body, header, AES, incoming handler, JSON, decider, engine) is the real code'],
    assumptions=['non-singleton patterns, finished-run memory enabled and larger than the number of runs finished in the scenario',
                 'each step of the schedule is atomic (thread interleavings inside a step are C07/C08)'],
    model_covers='BoboDecider.on_distributed_update / update (status lattice), decider snapshot; network modelled as per-pair ordered links',
)
