"""
C15 — SYNC, PING and RESYNC are chosen and retried as documented.

D-tie: the REAL `BoboDistributedTCP._tcp_outgoing` body is run one pass at a
time, in-process, without sockets or threads: on the instance the harness
replaces `_lock_in_out` (a context manager that lets the loop body run once and
then sets `_thread_closed`), `_now` (scripted clock: one reading for the
decision phase, one after every send) and `_tcp_send` (scripted result 0/1/2,
records what reaches the wire).  The queue is fed through the real
`on_decider_update(..., local=True)`; incoming messages go through the real
`_tcp_incoming_handle_client` (fake socket + pass-through crypto double).  The
same operations are piped to the Lean model (`bobodrv modes`) and the printed
wire log / device fields / queue length are compared line by line.

Oracle (independent of the model): docs/distributed.rst + the C15 statement as
Python predicates over (message type, fields before, fields after) for every
pass, and over per-peer sequences (retry pacing; flag accompanies every message
until one is delivered; after a received RESET only RESYNC until one is
delivered).
"""
import itertools
import json
import logging
from pathlib import Path

from harness.core import PropSpec, Result, Violation, Ctx, run_model, CORPUS

from bobocep.cep.event import BoboEventSimple, BoboHistory
from bobocep.cep.engine.decider.runserial import BoboRunSerial
from bobocep.dist.device import BoboDevice
from bobocep.dist.devman import BoboDeviceManager
from bobocep.dist.tcp import BoboDistributedTCP

logging.disable(logging.CRITICAL)   # the loop logs every failed send; not an observable of this property

SYNC, PING, RESYNC = 0, 1, 2
TNAME = {0: 'SYNC', 1: 'PING', 2: 'RESYNC', None: 'nothing'}
DEFAULT_CFG = (30, 60, 5, 5, 10)            # documented constructor defaults (period_ping, period_resync, attempt_stash, attempt_ping, attempt_resync)
CFGS = [None, (20, 50, 3, 7, 11), (10, 10, 4, 2, 6), (12, 6, 3, 2, 4), (4.5, 9.5, 0.5, 1.5, 2.5)]      # the last: full transfer after LESS silence than a ping (nobody forbids it)
def eff(cfg):
    """what a configuration MEANS: clock readings are whole seconds, so `elapsed >= 2.5` is `elapsed >= 3` (the last
    configuration of CFGS is in fractions of a second: nobody forbids it, and sub-second retry intervals mean "not twice in one
    clock second")"""
    import math
    return tuple(math.ceil(x) for x in cfg)


CFG_KEYS = ('period_ping', 'period_resync', 'attempt_stash', 'attempt_ping', 'attempt_resync')


# --------------------------------------------------------------------------
# doubles
# --------------------------------------------------------------------------

def rec(rid):
    return BoboRunSerial(rid, 'ph', 'pa', 1, BoboHistory({'g': [BoboEventSimple('e1', 1, 1)]}))


def ids(lst):
    return [r.run_id for r in lst]


def show_list(l):
    return ','.join(l) if l else '-'


class StubDecider:
    def __init__(self):
        self.snap = ([], [], [])

    def snapshot(self):
        return self.snap

    def subscribe(self, subscriber):
        pass


class PassLock:
    """stands in for `_lock_in_out`: the loop body runs `n` times, then the thread is told to close."""

    def __init__(self, t, n=1):
        self.t, self.n, self.entered = t, n, 0

    def __enter__(self):
        self.entered += 1
        if self.entered > self.n:
            self.t._thread_closed = True
        return self

    def __exit__(self, *a):
        return False


class StubCrypto:
    END = b'#END'

    def encrypt(self, s):
        return s.encode() + self.END

    def decrypt(self, b):
        return bytes(b[:-len(self.END)]).decode()

    def end_bytes(self):
        return self.END

    def min_length(self):
        return len(self.END) + 1


class FakeSock:
    def __init__(self, data):
        self.data = data

    def recv(self, n):
        d, self.data = self.data, b''
        return d

    def close(self):
        pass

    def settimeout(self, t):      # the handler sets a receive timeout on the accepted socket (fix F8)
        pass


POINTS = ('bs', 'bc', 'br', 'bp', 'ds', 'ba', 'end')


class HookDev(BoboDeviceManager):
    """the real device manager; its property reads / writes additionally tell the rig that the outgoing thread
    is at one of the boundaries between atomic steps, so that the rig can run the listener there (single thread)."""
    _rig = None

    def _fire(self, pt):
        r = self._rig
        if r is not None and r.active:
            r.fire(pt, BoboDeviceManager.urn.fget(self))

    def _mark(self, step):
        r = self._rig
        if r is not None and r.active:
            r.timeline.append((step, BoboDeviceManager.urn.fget(self)))

    @property
    def resets(self):
        self._fire('bs')                       # before the reset counter is read
        v = BoboDeviceManager.resets.fget(self)
        self._mark('R')
        self._fire('bc')                       # counter read, last_comms not yet
        return v

    @property
    def last_comms(self):
        v = BoboDeviceManager.last_comms.fget(self)
        self._mark('C')
        self._fire('br')                       # last_comms read, the rest not yet
        return v

    @last_comms.setter
    def last_comms(self, v):
        BoboDeviceManager.last_comms.fset(self, v)

    @property
    def flag_reset(self):
        self._fire('bp')                       # top of the send-loop body
        return BoboDeviceManager.flag_reset.fget(self)

    @flag_reset.setter
    def flag_reset(self, v):
        BoboDeviceManager.flag_reset.fset(self, v)

    @property
    def last_attempt(self):
        self._mark('X')
        return BoboDeviceManager.last_attempt.fget(self)

    @last_attempt.setter
    def last_attempt(self, v):
        self._fire('ba')                       # bookkeeping done except `last_attempt = now`
        BoboDeviceManager.last_attempt.fset(self, v)
        self._mark('T')


class Rig:
    """one real BoboDistributedTCP instance under scripted clock / wire."""

    def __init__(self, self_urn, urns, cfg, flag):
        self.decider = StubDecider()
        devices = [BoboDevice(addr='10.0.0.%d' % (i + 1), port=9000 + i, urn=u, id_key='key_' + u) for i, u in enumerate(urns)]
        kw = {} if cfg is None else dict(zip(CFG_KEYS, cfg))
        self.t = BoboDistributedTCP(self_urn, self.decider, devices, StubCrypto(), flag_reset=bool(flag), **kw)
        self.t._running = True          # what run() sets after starting the threads
        for d in self.t._devices.values():
            d.__class__ = HookDev
            d._rig = self
        self.active = False
        self.sched = {}
        self.fired = []
        self.timeline = []
        self.now_decision = 0
        self.post = {}
        self.err = {}
        self.pending = None
        self.wire = []
        self.clock_reads = 0
        self.t._now = self._now
        self.t._tcp_send = self._send

    def _now(self):
        self.clock_reads += 1
        if self.pending is not None:
            v, self.pending = self.pending, None
            return v
        return self.now_decision

    def _send(self, d, msg_type, msg_flags, msg_str):
        obj = json.loads(msg_str)
        lists = []
        for k in ('completed', 'halted', 'updated'):
            lists.append([BoboRunSerial.from_json_str(x).run_id for x in obj.get(k, [])])
        urn = BoboDeviceManager.urn.fget(d)
        self.wire.append((urn, msg_type, msg_flags, lists))
        self.fire('ds', urn)              # the listener may run while the send is in progress
        self.pending = self.post[urn]
        return self.err[urn]

    def fire(self, pt, urn):
        """the outgoing thread is at boundary `pt` of device `urn`: run the listener's scheduled steps."""
        evs = self.sched.pop((pt, urn), None)
        if not evs:
            return
        self.active = False
        try:
            for (frm, mtype, flags) in evs:
                self.incoming(frm, mtype, flags)
                self.fired.append((pt, urn, frm, mtype, flags, len(self.wire)))
                self.timeline.append(('in', frm, flags))
        finally:
            self.active = True

    # -- operations ---------------------------------------------------------
    def set(self, urn, lc, la, rs, fl, c, h, u):
        # through the public interface of BoboDeviceManager only (its representation is not the harness's business)
        d = self.t._devices[urn]
        if rs < d.resets or lc < 0 or la < 0:
            raise ValueError('state not reachable through the public interface: resets=%r last_comms=%r last_attempt=%r' % (rs, lc, la))
        stuck = 0
        while d.resets < rs and stuck < 3:
            was = d.resets
            # (a device with a contact on record: `clear_last` is then the full operation whatever shortcut it takes when there
            # is nothing to clear)
            if stuck:
                d.last_comms, d.last_attempt = 1, 1
            d.clear_last()
            stuck = stuck + 1 if d.resets == was else 0
        if d.resets < rs:
            raise ValueError('clear_last() does not advance the restart counter (resets=%r, wanted %r)' % (d.resets, rs))
        d.last_comms, d.last_attempt, d.flag_reset = lc, la, bool(fl)
        d.clear_stash()
        d.append_stash([rec(x) for x in c], [rec(x) for x in h], [rec(x) for x in u])

    def push(self, c, h, u):
        self.t.on_decider_update([rec(x) for x in c], [rec(x) for x in h], [rec(x) for x in u], local=True)

    def incoming(self, urn, mtype, flags):
        d = self.t._devices[urn]
        body = '{}' if mtype == PING else '{"completed": [], "halted": [], "updated": []}'
        data = StubCrypto().encrypt('{} {} {} {} {}'.format(urn, d.id_key, mtype, flags, body))
        import time as _time
        self.t._tcp_incoming_handle_client(FakeSock(data), d.addr, int(_time.time()))

    def one_pass(self, now, snap, outcomes, mid=()):
        self.decider.snap = tuple([rec(x) for x in l] for l in snap)
        self.now_decision = now
        self.err = {u: o[0] for u, o in outcomes.items()}
        self.post = {u: o[1] for u, o in outcomes.items()}
        self.pending = None
        self.wire = []
        self.clock_reads = 0
        self.sched = {}
        self.fired = []
        self.timeline = []
        for (pt, urn, frm, mtype, flags) in mid:
            self.sched.setdefault(('end', None) if pt == 'end' else (pt, urn), []).append((frm, mtype, flags))
        self.t._thread_closed = False
        self.t._lock_in_out = PassLock(self.t, 1)
        self.active = True
        try:
            self.t._tcp_outgoing()
            self.fire('end', None)
        finally:
            self.active = False
        return list(self.wire)

    # -- observation ---------------------------------------------------------
    def fields(self):
        out = {}
        for urn, d in self.t._devices.items():
            sc, sh, su = d.stash()
            out[urn] = {'lc': d.last_comms, 'la': d.last_attempt, 'rs': d.resets, 'fr': d.flag_reset,
                        'c': ids(sc), 'h': ids(sh), 'u': ids(su)}
        return out

    def queue_ids(self):
        return [[ids(m['completed']), ids(m['halted']), ids(m['updated'])] for m in list(self.t._queue_outgoing.queue)]

    def state_line(self):
        f = self.fields()
        return ' ; '.join('|'.join([u, str(x['lc']), str(x['la']), str(x['rs']), '1' if x['fr'] else '0',
                                    show_list(x['c']), show_list(x['h']), show_list(x['u'])])
                          for u, x in f.items()) + ' q=%d' % self.t._queue_outgoing.qsize()


def wire_line(wire):
    return ' ; '.join('|'.join([u, str(t), str(fl), show_list(l[0]), show_list(l[1]), show_list(l[2])]) for (u, t, fl, l) in wire)


# --------------------------------------------------------------------------
# the oracle: documented table and bookkeeping, written from docs/distributed.rst and the C15 text
# --------------------------------------------------------------------------

def expected_type(cfg, c, a, q_empty, stash):
    """documented choice towards one peer (c: seconds since last contact, a: since last attempt)."""
    pp, pr, a_st, a_pi, a_re = cfg
    if c >= pr:                       # RESYNC period: only a full RESYNC, paced by attempt_resync
        return RESYNC if a >= a_re else None
    if not q_empty:                   # new changes: incremental SYNC at once (takes any backlog along)
        return SYNC
    if stash > 0:                     # backlog on its own: paced by attempt_stash
        return SYNC if a >= a_st else None
    if c >= pp:                       # PING period and nothing to send: PING paced by attempt_ping
        return PING if a >= a_pi else None
    return None                       # in contact, nothing to say


def reset_positions(self_urn, before, timeline):
    """where, relative to the outgoing thread's own accesses of device u, did the listener handle a RESET from u?
    `timeline` is the order in which things really happened in this pass: ('R'|'C'|'X'|'T', u) = the outgoing thread read
    u's reset counter / read u's last_comms / read u's last_attempt / wrote u's last_attempt; ('in', u, flags) = the
    listener handled a message from u.  Returns {u: [timeline indices of RESETs received from u]} and pos_of(u, step)
    (the index of the FIRST such access in the pass; +inf if it never happened)."""
    others = [u for u in before if u != self_urn]
    resets = {u: [] for u in others}
    first = {}
    for k, ev in enumerate(timeline):
        if ev[0] == 'in':
            if ev[2] & 1 == 1 and ev[1] in resets:
                resets[ev[1]].append(k)
        else:
            first.setdefault((ev[1], ev[0]), k)

    def pos_of(u, step):
        return first.get((u, step), float('inf'))
    return resets, pos_of


def oracle_pass(case, k, cfg, self_urn, before, qbefore, now, snap, outcomes, wire, after, qafter_len, fired=(), timeline=()):
    """returns [(sig, what)] for one pass of the real loop (possibly with listener steps inside the pass)."""
    bad = []
    sent = {}
    for (u, t, fl, l) in wire:
        if u in sent or u == self_urn:
            bad.append(('wire-duplicate', f"pass {k}: more than one message (or a message to self) for {u}"))
        sent[u] = (t, fl, l)
    order = [u for u in before if u in sent]
    if [w[0] for w in wire] != order:
        bad.append(('wire-order', f"pass {k}: messages not in device order: {[w[0] for w in wire]}"))
    if bad:
        return bad
    resets, pos_of = reset_positions(self_urn, before, timeline)
    q_empty = len(qbefore) == 0
    item = qbefore[0] if qbefore else [[], [], []]
    any_sync = False
    for u, b in before.items():
        if u == self_urn:
            exp_self = dict(b)
            n_self = sum(1 for f in fired if f[2] == u and f[4] & 1 == 1)
            if n_self:
                exp_self.update(lc=0, la=0, rs=b['rs'] + n_self)
            if after[u] != exp_self:
                bad.append(('untouched-peer-changed', f"pass {k}: own device entry changed"))
            continue
        rq = resets[u]
        st = len(b['c']) + len(b['h']) + len(b['u'])
        lc_read = 0 if any(q < pos_of(u, 'C') for q in rq) else b['lc']     # what the decision saw
        la_read = 0 if any(q < pos_of(u, 'X') for q in rq) else b['la']
        c, a = now - lc_read, now - la_read
        exp = expected_type(cfg, c, a, q_empty, st)
        got = sent[u][0] if u in sent else None
        mids = f" resets-from-{u}-at={rq}" if rq else ''
        ctxt = f"pass {k} peer {u}: since-contact={c} since-attempt={a} queue={'empty' if q_empty else len(qbefore)} backlog={st} periods={cfg}{mids}"
        if got != exp:
            bad.append(('mode-selection', f"{ctxt}: documented choice is {TNAME[exp]}, loop chose {TNAME[got]}"))
            continue
        af = after[u]
        exp_rs = b['rs'] + len(rq)
        if got is None:
            exp_after = dict(b)
            if rq:
                exp_after.update(lc=0, la=0, rs=exp_rs)
            if af != exp_after:
                bad.append(('untouched-peer-changed', f"{ctxt}: nothing sent but device fields {b} -> {af}, expected {exp_after}"))
            continue
        t, fl, l = sent[u]
        err, post = outcomes[u]
        if fl != (1 if b['fr'] else 0):
            bad.append(('flags-on-wire', f"{ctxt}: flag_reset={b['fr']} but flags on the wire = {fl}"))
        if t == RESYNC:
            exp_pl = [list(x) for x in snap]
        elif t == PING:
            exp_pl = [[], [], []]
        else:
            any_sync = True
            exp_pl = [item[0] + b['c'], item[1] + b['h'], item[2] + b['u']]
        if l != exp_pl:
            bad.append(('payload', f"{ctxt}: {TNAME[t]} carried {l}, expected {exp_pl}"))
        clamp = max(0, post)
        # last_attempt: written last; a RESET handled after that write clears it again
        exp_la = 0 if any(q > pos_of(u, 'T') for q in rq) else clamp
        # last_comms: a RESET handled after the decision read last_comms must survive the pass (it must read 0 at the
        # end, whatever the send did); a successful send is recorded as contact iff no RESET arrived since the decision
        # (between the read of the counter and the read of last_comms either outcome is acceptable: the decision
        # already saw the cleared time)
        after_c = any(q > pos_of(u, 'C') for q in rq)
        window = any(pos_of(u, 'R') < q < pos_of(u, 'C') for q in rq)
        if after_c:
            ok_lc = {0}
        elif err == 0:
            ok_lc = {clamp, 0} if window else {clamp}
        else:
            ok_lc = {lc_read}
        if af['lc'] not in ok_lc:
            if after_c:
                bad.append(('reset-overwritten', f"{ctxt}: a RESET from {u} was handled after the decision read the contact time, but at the "
                                                 f"end of the pass last_comms={af['lc']} (must be 0 so that the next message is a RESYNC)"))
            else:
                bad.append(('bookkeeping-success' if err == 0 else 'bookkeeping-failure',
                            f"{ctxt}: {TNAME[t]} {'delivered' if err == 0 else 'failed'}, clock after send {post}: last_comms={af['lc']}, expected one of {sorted(ok_lc)}"))
        if err == 0:
            exp_after = {'lc': af['lc'], 'la': exp_la, 'rs': exp_rs, 'fr': False,
                         'c': b['c'] if t == PING else [], 'h': b['h'] if t == PING else [], 'u': b['u'] if t == PING else []}
            if af != exp_after:
                bad.append(('bookkeeping-success', f"{ctxt}: {TNAME[t]} delivered, clock after send {post}: fields {af}, expected {exp_after}"))
        else:
            if t == SYNC:
                sc, sh, su = b['c'] + item[0], b['h'] + item[1], b['u'] + item[2]
            elif t == RESYNC:
                sc, sh, su = [], [], []
            else:
                sc, sh, su = b['c'], b['h'], b['u']
            exp_after = {'lc': af['lc'], 'la': exp_la, 'rs': exp_rs, 'fr': b['fr'], 'c': sc, 'h': sh, 'u': su}
            if af != exp_after:
                bad.append(('bookkeeping-failure', f"{ctxt}: {TNAME[t]} failed (code {err}), clock after send {post}: fields {af}, expected {exp_after}"))
    exp_q = len(qbefore) - (1 if (any_sync and qbefore) else 0)
    if qafter_len != exp_q:
        bad.append(('queue-pop', f"pass {k}: queue length {len(qbefore)} -> {qafter_len}, expected {exp_q}"))
    return bad


def oracle_sequences(cfg, self_urn, flag0, logs, all_late):
    """per-peer sequence predicates. logs[u] = list of ('att', now, q_empty, type, flags, err, post) / ('reset',) /
    ('reset_late',): a RESET handled after the decision of the following message had read last_comms but before it
    read last_attempt (pacing restarts before that message, the RESYNC obligation starts after it)."""
    pp, pr, a_st, a_pi, a_re = cfg
    bad = []
    for u, log in logs.items():
        prev = None
        flag = flag0[u]
        pending = False
        pending_next = False
        for ev in log:
            if ev[0] == 'reset':
                prev = None
                pending = True
                continue
            if ev[0] == 'reset_late':
                prev = None
                pending_next = True
                continue
            _, now, q_empty, t, fl, err, post = ev
            if prev is not None:
                gap = now - max(0, prev[6])
                need = a_pi if t == PING else a_re if t == RESYNC else (a_st if q_empty else None)
                if need is not None and gap < need:
                    bad.append(('pacing', f"peer {u}: {TNAME[t]} decided at {now}, only {gap}s after the previous attempt (clock {prev[6]}); interval {need}"))
            if fl != (1 if flag else 0):
                bad.append(('flag-until-delivered', f"peer {u}: message at {now} carries flags={fl} but flag state is {flag}"))
            flag = flag and err != 0
            if pending and all_late:
                if t != RESYNC:
                    bad.append(('reset-then-resync', f"peer {u}: after a received RESET the next message (at {now}) is {TNAME[t]}, not RESYNC"))
                if err == 0:
                    pending = False
            elif pending and err == 0 and t == RESYNC:
                pending = False
            if pending_next:
                pending, pending_next = True, False
            prev = ev
    return bad


# --------------------------------------------------------------------------
# running one case on implementation (+ oracle) and producing the model's op lines
# --------------------------------------------------------------------------

def run_case(case):
    """returns (op lines for the model, implementation's answer lines, [(sig, what)])."""
    cfgv = tuple(case['cfg']) if case['cfg'] is not None else None
    cfg = eff(cfgv) if cfgv is not None else DEFAULT_CFG
    self_urn, urns, flag = case['self'], case['urns'], case['flag']
    rig = Rig(self_urn, urns, cfgv, flag)
    lines, impl, bad = [], [], []
    if cfgv is None:
        lines.append('newdef %s %d %s' % (self_urn, flag, ' '.join(urns)))
    else:
        lines.append('new %s %s %d %s' % (self_urn, ' '.join(str(x) for x in cfg), flag, ' '.join(urns)))
    impl.append('ok')
    logs = {u: [] for u in urns if u != self_urn}
    flag0 = {u: bool(flag) for u in logs}
    all_late = True
    k = 0
    for op in case['ops']:
        if op[0] == 'set':
            _, u, lc, la, rs, fl, c, h, uu = op
            rig.set(u, lc, la, rs, fl, c, h, uu)
            lines.append('set %s %d %d %d %d %s %s %s' % (u, lc, la, rs, fl, show_list(c), show_list(h), show_list(uu)))
            impl.append(rig.state_line())
            if u in logs:
                logs[u] = []          # fields overwritten by the harness: restart the sequence predicates
                flag0[u] = bool(fl)
        elif op[0] == 'push':
            _, c, h, uu = op
            rig.push(c, h, uu)
            lines.append('push %s %s %s' % (show_list(c), show_list(h), show_list(uu)))
            impl.append(rig.state_line())
        elif op[0] == 'in':
            _, u, mtype, fl = op
            before = rig.fields()
            rig.incoming(u, mtype, fl)
            after = rig.fields()
            exp = {x: dict(v) for x, v in before.items()}
            if fl & 1 == 1:
                exp[u]['lc'] = 0
                exp[u]['la'] = 0
                exp[u]['rs'] += 1
                if u in logs:
                    logs[u].append(('reset',))
            if after != exp:
                bad.append(('incoming-reset', f"message type {mtype} flags {fl} from {u}: fields {before[u]} -> {after[u]}, expected {exp[u]}"))
            lines.append('in %s %d' % (u, fl))
            impl.append(rig.state_line())
        elif op[0] == 'pass':
            now, snap, outcomes = op[1], op[2], op[3]
            mid = [tuple(m) for m in (op[4] if len(op) > 4 else [])]
            outcomes = {u: tuple(v) for u, v in outcomes.items()}
            before = rig.fields()
            qbefore = rig.queue_ids()
            wire = rig.one_pass(now, snap, outcomes, mid)
            fired = list(rig.fired)
            timeline = list(rig.timeline)
            after = rig.fields()
            k += 1
            if now < cfg[1]:
                all_late = False
            pbad = oracle_pass(case, k, cfg, self_urn, before, qbefore, now, snap, outcomes, wire, after, rig.t._queue_outgoing.qsize(), fired, timeline)
            bad += pbad
            if rig.clock_reads != 1 + len(wire):
                bad.append(('clock-reads', f"pass {k}: {rig.clock_reads} clock readings for {len(wire)} sends"))
            if not any(sig in ('wire-duplicate', 'wire-order') for sig, _ in pbad):
                resets, pos_of = reset_positions(self_urn, before, timeline)
                sent = {w[0]: w for w in wire}
                for u in logs:
                    rq = resets[u]
                    if u in sent:
                        _, t, fl, l = sent[u]
                        logs[u] += [('reset',)] * sum(1 for q in rq if q < pos_of(u, 'C'))
                        logs[u] += [('reset_late',)] * sum(1 for q in rq if pos_of(u, 'C') < q < pos_of(u, 'X'))
                        logs[u].append(('att', now, len(qbefore) == 0, t, fl, outcomes[u][0], outcomes[u][1]))
                        logs[u] += [('reset',)] * sum(1 for q in rq if q > pos_of(u, 'X'))
                    else:
                        logs[u] += [('reset',)] * len(rq)
            head = '%d %s %s %s %s' % (now, show_list(snap[0]), show_list(snap[1]), show_list(snap[2]),
                                       ' '.join('%s:%d:%d' % (u, outcomes[u][0], outcomes[u][1]) for u in urns if u != self_urn))
            if mid:
                lines.append('passmid ' + head + ' @ ' + ' '.join('%s:%s:%s:%d' % (pt, urn, frm, flags) for (pt, urn, frm, mtype, flags) in mid))
            else:
                lines.append('pass ' + head)
            impl.append('wires=' + wire_line(wire) + ' # ' + rig.state_line())
        else:
            raise ValueError(op)
    bad += oracle_sequences(cfg, self_urn, flag0, logs, all_late)
    return lines, impl, bad, logs


# --------------------------------------------------------------------------
# generators
# --------------------------------------------------------------------------

def grid_values(cfg):
    pp, pr, a_st, a_pi, a_re = cfg
    cs = sorted({0, pp - 1, pp, pp + 1, pr - 1, pr, pr + 1})
    as_ = sorted({a_st - 1, a_st, a_st + 1, a_pi - 1, a_pi, a_pi + 1, a_re - 1, a_re, a_re + 1})
    return cs, as_


STASHES = [([], [], []), (['s1'], [], []), ([], [], ['s2'])]


def grid_cases(ctx: Ctx):
    """single-pass grid: (c, a) around every threshold × queue ∅/1/2 × stash ∅/1 × flag × outcome × 3 configurations × 1–2 peers."""
    rng = ctx.rng
    NOW = 1000
    for cfgv in CFGS:
        cfg = eff(cfgv or DEFAULT_CFG)
        cs, as_ = grid_values(cfg)
        for npeers in (1, 2):
            for c, a, qn, sti, fl, err in itertools.product(cs, as_, (0, 1, 2), (0, 1), (0, 1), (0, 1, 2)):
                urns = ['a', 'b'] if npeers == 1 else rng.choice([['a', 'b', 'c'], ['b', 'a', 'c'], ['b', 'c', 'a']])
                stash = STASHES[0] if sti == 0 else STASHES[1 + (c + a + qn) % 2]
                ops = [['set', 'b', NOW - c, NOW - a, (c + qn) % 3, fl, *stash]]
                outcomes = {'b': [err, NOW + (c + a) % 3]}
                if npeers == 2:
                    c2, a2 = rng.choice(cs), rng.choice(as_)
                    st2 = rng.choice([([], [], []), ([], ['t1'], []), (['t2'], [], ['t3'])])
                    ops.append(['set', 'c', NOW - c2, NOW - a2, rng.randint(0, 2), rng.randint(0, 1), *st2])
                    outcomes['c'] = [rng.choice((0, 0, 1, 2)), NOW + rng.randint(0, 4)]
                for i in range(qn):
                    ops.append(['push', ['q%dc' % i], [] if i else ['q0h'], ['q%du' % i]])
                ops.append(['pass', NOW, [['n1'], [], ['n2', 'n3']], outcomes])
                yield {'self': 'a', 'urns': urns, 'cfg': list(cfgv) if cfgv else None, 'flag': fl, 'ops': ops, 'kind': 'grid'}


def mid_grid_cases(ctx: Ctx):
    """one pass with ONE listener step inside it: every boundary × what the pass sends to b (SYNC from the queue, SYNC of the
    backlog alone, PING, RESYNC, nothing) × send outcome × who the incoming message is from × its flags × 3 configurations."""
    NOW = 1000
    for cfgv in CFGS:
        pp, pr, a_st, a_pi, a_re = eff(cfgv or DEFAULT_CFG)
        states = {
            'sync-queue': (['set', 'b', NOW - 1, NOW - 1, 0, 0, [], [], []], 1),
            'sync-backlog': (['set', 'b', NOW - 1, NOW - a_st, 2, 1, ['s1'], [], []], 0),
            'ping': (['set', 'b', NOW - pp, NOW - a_pi, 1, 0, [], [], []], 0),
            'resync': (['set', 'b', NOW - pr, NOW - a_re, 0, 1, [], ['s2'], []], 1),
            'nothing': (['set', 'b', NOW - 1, NOW - 1, 5, 0, [], [], []], 0),
        }
        for (name, (setb, qn)), pt, err, frm, flags in itertools.product(states.items(), POINTS, (0, 1), ('b', 'c'), (1, 2, 3)):
            ops = [setb, ['set', 'c', NOW - 2, NOW - 2, 1, 0, ['t1'], [], []]]
            for i in range(qn):
                ops.append(['push', ['q%d' % i], [], []])
            owner = 'b' if pt in ('bs', 'bc', 'br') or name != 'nothing' else 'c'
            ops.append(['pass', NOW, [['n1'], [], []], {'b': [err, NOW + 1], 'c': [0, NOW + 2]}, [[pt, owner, frm, PING, flags]]])
            ops.append(['pass', NOW + max(pr, a_re) + 3, [['n1'], [], []], {'b': [0, NOW + max(pr, a_re) + 3], 'c': [0, NOW + max(pr, a_re) + 3]}])
            yield {'self': 'a', 'urns': ['a', 'b', 'c'], 'cfg': list(cfgv) if cfgv else None, 'flag': 0, 'ops': ops, 'kind': 'midgrid'}


def random_case(rng, idx):
    n = rng.choice((2, 2, 3, 3, 4))
    urns = ['a', 'b', 'c', 'd'][:n]
    rng.shuffle(urns)
    self_urn = 'a'
    cfgv = rng.choice(CFGS + [(rng.randint(2, 9), rng.randint(9, 15), rng.randint(0, 4), rng.randint(0, 4), rng.randint(0, 5)),
                             (rng.randint(6, 15), rng.randint(2, 9), rng.randint(0, 4), rng.randint(0, 4), rng.randint(0, 5))])
    cfg = eff(cfgv or DEFAULT_CFG)
    flag = rng.randint(0, 1)
    weird = rng.random() < 0.15         # clocks may start early / negative / run backwards
    now = rng.choice((-3, 0, 1, cfg[1] - 1)) if weird else rng.choice((cfg[1], 1000, 10 ** 9))
    ops = []
    rid = [0]

    def fresh(kmax=2):
        out = []
        for _ in range(rng.choice((0, 0, 1, 1, kmax))):
            rid[0] += 1
            out.append('r%d' % rid[0])
        return out
    steps = list(cfg) + [0, 0, 1, 1, 1, 2, 3, cfg[0] - 1, cfg[1] + 1, cfg[1] - cfg[0]]
    for _ in range(rng.randint(8, 40)):
        x = rng.random()
        if x < 0.6:
            now += rng.choice(steps)
            if weird and rng.random() < 0.2:
                now -= rng.randint(1, 5)
            outcomes = {}
            p_fail = rng.choice((0.0, 0.2, 0.5, 0.9))
            for u in urns:
                if u != self_urn:
                    err = rng.choice((1, 2)) if rng.random() < p_fail else 0
                    post = now + rng.choice((0, 0, 1, 3)) - (rng.randint(0, 4) if weird else 0)
                    outcomes[u] = [err, post]
            op = ['pass', now, [fresh(), fresh(1), fresh()], outcomes]
            if rng.random() < 0.35:      # the listener handles messages while the pass is in progress
                peers = [u for u in urns if u != self_urn]
                mid = []
                for _ in range(rng.choice((1, 1, 2, 3))):
                    owner = rng.choice(peers)
                    mid.append([rng.choice(POINTS), owner, owner if rng.random() < 0.7 else rng.choice(peers),
                                rng.choice((SYNC, PING, RESYNC)), rng.choice((1, 1, 1, 0, 2, 3))])
                op.append(mid)
            ops.append(op)
        elif x < 0.85:
            ops.append(['push', fresh(), fresh(1), fresh()])
        else:
            ops.append(['in', rng.choice([u for u in urns if u != self_urn] + ([self_urn] if rng.random() < 0.1 else [])),
                        rng.choice((SYNC, PING, RESYNC)), rng.choice((0, 1, 1, 1, 2, 3))])
    return {'self': self_urn, 'urns': urns, 'cfg': list(cfgv) if cfgv else None, 'flag': flag, 'ops': ops, 'kind': 'random'}


def corpus_cases():
    d = CORPUS / 'C15'
    if d.exists():
        for p in sorted(d.glob('*.json')):
            c = json.loads(p.read_text())
            c.setdefault('kind', 'corpus')
            yield c


# --------------------------------------------------------------------------

def classify(res: Result, case, logs):
    res.count('kind_' + case['kind'])
    res.count('peers_%d' % (len(case['urns']) - 1))
    if case['kind'] == 'random':
        res.count('cfg_random_or_listed')
    else:
        res.count('cfg_' + ('default' if case['cfg'] is None else '_'.join(str(x) for x in case['cfg'])))
    n_att = 0
    for u, log in logs.items():
        for ev in log:
            if ev[0] in ('reset', 'reset_late'):
                res.count('received_reset')
            else:
                n_att += 1
                res.count('sent_' + TNAME[ev[3]])
                res.count('outcome_' + ('ok' if ev[5] == 0 else 'timeout' if ev[5] == 1 else 'error'))
                if ev[4]:
                    res.count('sent_with_reset_flag')
    if n_att == 0:
        res.count('cases_without_any_message')
    return n_att


def evaluate(ctx: Ctx, cases, res: Result, compare=True):
    all_lines, all_impl, owners = [], [], []
    for ci, case in enumerate(cases):
        lines, impl, bad, logs = run_case(case)
        n_att = classify(res, case, logs)
        slim = {k: v for k, v in case.items() if k != 'kind'}
        res.add_case(slim, nontrivial=n_att > 0 or any(op[0] == 'in' for op in case['ops']))
        for op in case['ops']:
            if op[0] == 'pass' and len(op) > 4:
                for m in op[4]:
                    res.count('listener_step_inside_pass_' + m[0])
        for sig, what in bad[:3]:
            res.violations.append(Violation(sig, what, slim))
        owners += [ci] * len(lines)
        all_lines += lines
        all_impl += impl
    if not compare:
        return
    if ctx.model_available():
        model_out = run_model('modes', all_lines)
        res.traces_validated += len(cases)
        for k, (a, b) in enumerate(zip(model_out, all_impl)):
            if a != b:
                res.disagreements.append({'case': {kk: v for kk, v in cases[owners[k]].items() if kk != 'kind'},
                                          'op': all_lines[k], 'model': a, 'impl': b})
                if len(res.disagreements) > 5:
                    break
    else:
        res.notes.append('model driver unavailable: correspondence not run')
        res.disagreements.append({'correspondence': 'modes', 'error': 'model driver did not build'})


def run(ctx: Ctx) -> Result:
    res = Result()
    if ctx.replay is not None:
        case = dict(ctx.replay['replay'])
        case.setdefault('kind', 'replay')
        evaluate(ctx, [case], res)
        return res
    cases = list(corpus_cases())
    cases += list(grid_cases(ctx))
    cases += list(mid_grid_cases(ctx))
    for i in range(20000 if ctx.thorough else 400):
        cases.append(random_case(ctx.rng, i))
    evaluate(ctx, cases, res)
    res.exhaustive = False
    return res


def search(ctx: Ctx) -> Result:
    """failing-input search on the real code alone with the oracle: the whole single-pass grid with *every*
    second-peer threshold state on a coarser grid, then long random runs."""
    res = Result()
    cases = list(corpus_cases()) + list(grid_cases(ctx)) + list(mid_grid_cases(ctx))
    for i in range(4000):
        cases.append(random_case(ctx.rng, i))
    evaluate(ctx, cases, res, compare=False)
    return res


SPEC = PropSpec(
    prop='C15', extra_props=['C15Frac'],
    translators=['modes'],
    run=run,
    search=search,
    rule='single-pass grid: (seconds since contact) ∈ {0, period_ping−1/0/+1, period_resync−1/0/+1} × (seconds since attempt) ∈ '
         '{attempt_stash, attempt_ping, attempt_resync}−1/0/+1 × queue ∅/1/2 × backlog ∅/1 × flag on/off × send outcome ok/timeout/error '
         '× 5 period configurations (constructor defaults, (20,50,3,7,11), (10,10,4,2,6), (12,6,3,2,4): resync period below the ping period, (4.5,9.5,0.5,1.5,2.5): fractions of a second) × 1 peer and 2 peers (second peer in a random '
         'threshold state, own device first/middle/last in the dict); plus seeded random multi-pass runs (400 quick / 20000 thorough, 8–40 '
         'steps, 1–3 peers, passes with clock advances by the configured periods ±1, queue insertions, incoming SYNC/PING/RESYNC with '
         'flags 0–3 through the real listener handler, 15 % with early/negative/backwards clocks; in 35 % of the passes 1–3 listener '
         'steps run INSIDE the pass, at one of seven boundaries of the outgoing thread: before/after the reset counter is read, after '
         'last_comms is read, top of the send-loop body, during _tcp_send, before `last_attempt = now`, after the pass); plus a '
         'single-listener-step grid (7 boundaries × SYNC-from-queue / backlog-alone SYNC / PING / RESYNC / nothing × ok/timeout × '
         'sender b/c × flags 1/2/3 × 3 configurations, followed by a late pass); plus harness/corpus/C15. '
         'A case is non-trivial when at least one message is handed to the wire or an incoming message is handled; distinct = distinct op list',
    trusted_base=['harness doubles: `_lock_in_out` (runs the loop body once), `_now` (scripted), `_tcp_send` (scripted result, records the wire), '
                  'stub decider snapshot, pass-through crypto + fake socket for the listener handler; a BoboDeviceManager subclass whose '
                  'property reads/writes only record the order of accesses and run scheduled listener steps at those boundaries (single thread)',
                  'the three return codes of `_tcp_send` are the only way socket behaviour reaches the loop'],
    assumptions=['the C15 theorems are about the sequential model: the listener\'s clear_last and on_decider_update happen between '
                 'passes of the outgoing loop (every interleaving inside a pass is proved in Props/C07.lean on the small-step model '
                 '`passSmall`, which this harness also compares with the real loop at seven boundaries)',
                 'reset_then_resync_seq: every pass reads a clock ≥ period_resync (true of seconds since 1970)',
                 'the outgoing queue is unbounded or not full (max_size_outgoing default 0)'],
    model_covers='BoboDistributedTCP._tcp_outgoing (decision phase incl. the reset counter read before the times, cache_sync sharing, '
                 'per-branch flags/payload/bookkeeping with contacted(now, resets)), BoboDeviceManager mutators incl. the max(0,·) clamps, '
                 'clear_last\'s counter and contacted, the reset test of _tcp_incoming_handle_client; '
                 'selectMode, book, flagsOf, prep, payload, device-manager mutators, constants and default periods are generated from '
                 'the source and proved equal to the model',
)
