"""
C17 — Encryption round-trips, authenticates and never reuses a nonce.

D-tie: the module globals `AES` and `get_random_bytes` of
bobocep.dist.crypto.aes are wrapped (from here, the repo is not edited) so
that every call the real BoboDistributedCryptoAES makes into pycryptodome
is recorded: (key, nonce, mac_len keyword) of AES.new, the bytes sealed /
opened and what came back, the sizes and values drawn from the CSPRNG.
The recorded cipher answers are handed to the Lean model (`bobodrv
crypto`), which contributes the framing only; its output (arguments it
would hand to the cipher, bytes it would return) must equal what the real
class did.

Oracle (independent of the model, evaluated on the real class):
  decrypt(encrypt(t)) == t;  ValueError on every single-bit flip of the
  ciphertext / nonce / tag region of sampled outputs (all bits of a few);
  len(encrypt(t)) >= min_length() for non-empty t;  output ends with
  end_bytes();  exactly one draw of nonce_length bytes per encrypt, that
  value is the nonce handed to AES.new and sits in the nonce slot;  nonces
  pairwise distinct;  equal plaintexts give different outputs.
"""
import json
from pathlib import Path

from harness.core import PropSpec, Result, Violation, Ctx, run_model, CORPUS

import bobocep.dist.crypto.aes as aes_mod
from bobocep.dist.crypto.aes import BoboDistributedCryptoAES
from bobocep.dist.crypto.crypto import BoboDistributedCryptoError

KEY_SIZES = (16, 24, 32)
NONCE_LENS = tuple(range(8, 33))
TAG_LENS = tuple(range(4, 17))


def hx(b) -> str:
    b = bytes(b)
    return b.hex() if b else '-'


# --------------------------------------------------------------------------
# recording doubles for the two pycryptodome entry points used by aes.py
# --------------------------------------------------------------------------

class CipherProxy:
    def __init__(self, real, rec):
        self._real = real
        self._rec = rec

    def encrypt_and_digest(self, data):
        ct, tag = self._real.encrypt_and_digest(data)
        self._rec.ops.append(('seal', bytes(data), bytes(ct), bytes(tag)))
        return ct, tag

    def decrypt_and_verify(self, ct, tag):
        try:
            pt = self._real.decrypt_and_verify(ct, tag)
        except ValueError:
            self._rec.ops.append(('open', bytes(ct), bytes(tag), None))
            raise
        self._rec.ops.append(('open', bytes(ct), bytes(tag), bytes(pt)))
        return pt


class Recorder:
    """stands in for the names `AES` and `get_random_bytes` inside aes.py."""

    def __init__(self):
        self.real_AES = aes_mod.AES
        # (the name may be gone if the module draws its nonces from somewhere else: then no draw is ever recorded, which
        # the nonce-discipline oracle reports; the stand-in is installed all the same)
        self.had_grb = hasattr(aes_mod, 'get_random_bytes')
        if self.had_grb:
            self.real_grb = aes_mod.get_random_bytes
        else:
            from Crypto.Random import get_random_bytes as _grb
            self.real_grb = _grb
        self.clear()

    def clear(self):
        self.draws = []   # (n requested, bytes returned)
        self.news = []    # {'args':…, 'kw':…, 'raised': name|None}
        self.ops = []     # ('seal', pt, ct, tag) | ('open', ct, tag, pt|None)

    @property
    def MODE_GCM(self):
        return self.real_AES.MODE_GCM

    def __getattr__(self, name):
        # any other attribute of the real `AES` module (block_size, key_size, other modes …)
        if name in ('real_AES', 'real_grb', 'draws', 'news', 'ops'):
            raise AttributeError(name)
        return getattr(self.real_AES, name)

    def new(self, *args, **kw):
        rec = {'args': args, 'kw': dict(kw), 'raised': None}
        self.news.append(rec)
        try:
            c = self.real_AES.new(*args, **kw)
        except Exception as e:
            rec['raised'] = type(e).__name__
            raise
        return CipherProxy(c, self)

    def get_random_bytes(self, n):
        b = self.real_grb(n)
        self.draws.append((n, bytes(b)))
        return b

    def __enter__(self):
        aes_mod.AES = self
        aes_mod.get_random_bytes = self.get_random_bytes
        return self

    def __exit__(self, *a):
        aes_mod.AES = self.real_AES
        if self.had_grb:
            aes_mod.get_random_bytes = self.real_grb
        elif hasattr(aes_mod, 'get_random_bytes'):
            del aes_mod.get_random_bytes


# --------------------------------------------------------------------------
# generators
# --------------------------------------------------------------------------

ALPHABETS = {
    'ascii': 'abcXYZ019 {}":,_-',
    'utf8_2': 'éñüßΩжд',
    'utf8_3': '€あ中한ก',
    'utf8_4': '😀𝄞🂡𐍈',
}
ALPHABETS['mixed'] = ''.join(ALPHABETS.values())
CLASSES = list(ALPHABETS)


def gen_text(rng, cls, n):
    a = ALPHABETS[cls]
    return ''.join(rng.choice(a) for _ in range(n))


def gen_key(rng, size):
    return ''.join(rng.choice('0123456789abcdefghijklmnopqrstuvwxyzABCDEFGHIJKLMNOPQRSTUVWXYZ!#$%&*+') for _ in range(size))


def configs(ctx: Ctx):
    if ctx.thorough:
        return [(k, n, t) for k in KEY_SIZES for n in NONCE_LENS for t in TAG_LENS]
    cs = [(k, n, t) for k in KEY_SIZES for n in (8, 16, 32) for t in (4, 12, 16)]
    seen = set(cs)
    while len(cs) < 27 + 73:
        c = (ctx.rng.choice(KEY_SIZES), ctx.rng.choice(NONCE_LENS), ctx.rng.choice(TAG_LENS))
        if c not in seen:
            seen.add(c)
            cs.append(c)
    return cs


def texts_for(ctx: Ctx, idx: int):
    """(kind, text) list for one configuration: every length 0..64 of one text class
    (classes rotate over the configurations), sampled longer ones, NUL cases."""
    rng = ctx.rng
    cls = CLASSES[idx % len(CLASSES)]
    out = [(cls, gen_text(rng, cls, n)) for n in range(0, 65)]
    for _ in range(4 if ctx.thorough else 2):
        c2 = rng.choice(CLASSES)
        out.append((c2 + '_long', gen_text(rng, c2, rng.choice((65, 79, 80, 81, 127, 128, 129, 255, 256, 1000, rng.randint(65, 3000))))))
    base = gen_text(rng, cls, rng.randint(1, 30))
    out.append(('nul_embedded', base + '\0' + gen_text(rng, cls, rng.randint(1, 20))))
    out.append(('nul_embedded', '\0' + base))
    out.append(('nul_trailing', base + '\0' * rng.randint(1, 3)))
    out.append(('nul_trailing', gen_text(rng, cls, 15) + '\0'))
    out.append(('nul_trailing', gen_text(rng, cls, 16) + '\0'))
    out.append(('nul_only', '\0' * rng.randint(1, 17)))
    # endings that look like the padding of a common scheme (PKCS#7: n copies of chr(n); ANSI X.923: zeros then chr(n);
    # ISO 7816: 0x80; a lone length byte), on texts whose length is a whole number of blocks, one less and one more
    n = 1 + idx % 16
    for total in (16, 32, 31, 33, 48):
        for tail in (chr(n) * n, '\0' * (n - 1) + chr(n), '\x80', chr(n)):
            if len(tail) <= total:
                out.append(('pad_like', gen_text(rng, cls, total - len(tail)) + tail))
    return out


def corpus_cases():
    d = CORPUS / 'C17'
    out = []
    if d.is_dir():
        for p in sorted(d.glob('*.json')):
            for c in json.loads(p.read_text())['cases']:
                out.append(c)
    return out


# --------------------------------------------------------------------------
# one case on the real class: oracle + op lines for the model
# --------------------------------------------------------------------------

def classify(e: BaseException) -> str:
    if isinstance(e, UnicodeDecodeError):
        return 'err:utf8'
    if isinstance(e, ValueError):
        return 'err:cipher'
    return 'err:' + type(e).__name__


class Session:
    """accumulates op lines / expected outputs over all cases; one Recorder."""

    def __init__(self, res: Result, rec: Recorder):
        self.res = res
        self.rec = rec
        self.lines = []
        self.impl = []
        self.line_case = []
        self.nonces = {}      # key text -> {nonce: case}
        self.compared = 0

    def emit(self, line, out, case):
        self.lines.append(line)
        self.impl.append(out)
        self.line_case.append(case)

    def viol(self, sig, what, case, extra=None):
        r = dict(case)
        if extra:
            r.update(extra)
        self.res.violations.append(Violation(sig, what, r))

    # -- construction
    def make(self, case):
        key, nl, ml = case['key'], case['nl'], case['ml']
        try:
            c = BoboDistributedCryptoAES(key, nl, ml)
        except BoboDistributedCryptoError:
            self.emit(f"cfg {hx(key.encode('utf-8'))} {nl} {ml}", 'rejected', case)
            return None
        self.emit(f"cfg {hx(key.encode('utf-8'))} {nl} {ml}", f"ok min={c.min_length()} end={hx(c.end_bytes())}", case)
        return c

    # -- decrypt once, recording; returns (result string, value|None)
    def dec(self, c, msg, case, emit=True):
        rec = self.rec
        rec.clear()
        try:
            back = c.decrypt(bytes(msg))
            r = 'ok:' + hx(back.encode('utf-8'))
        except Exception as e:
            back = None
            r = classify(e)
        if emit:
            new = rec.news[0] if rec.news else None
            opn = [o for o in rec.ops if o[0] == 'open']
            if new is None:
                self.emit(f"dec {hx(msg)} err", f"no-AES.new res={r}", case)
            else:
                head = (f"key={hx(new['args'][0])} nonce={hx(new['kw'].get('nonce', b''))} "
                        f"mac_len={new['kw'].get('mac_len', '-')}")
                if new['raised'] or not opn:
                    self.emit(f"decn {hx(msg)}", f"{head} res={r}", case)
                else:
                    _, ct, tag, pt = opn[0]
                    verdict = 'err' if pt is None else 'ok:' + hx(pt)
                    self.emit(f"dec {hx(msg)} {verdict}", f"{head} ct={hx(ct)} tag={hx(tag)} res={r}", case)
        return r, back

    def run_case(self, case, tamper='none'):
        """tamper: 'none' | 'some' (8 random bits) | 'all' (every bit of ct|nonce|tag)."""
        res, rec = self.res, self.rec
        text = case['text']
        c = self.make(case)
        if c is None:
            if len(case['key']) in KEY_SIZES:
                self.viol('ctor-rejected', f"constructor rejected a {len(case['key'])}-character key", case)
            return
        if len(case['key'].encode('utf-8')) not in KEY_SIZES:
            return  # non-ASCII key observation: handled by observe_key_check
        # ---- encrypt (twice: equal plaintexts must give different outputs)
        outs = []
        raws = []
        for rep in range(2):
            rec.clear()
            try:
                raw = c.encrypt(text)
                out = bytes(raw)
                raws.append((raw, out))
            except Exception as e:
                self.viol('encrypt-raised', f"encrypt raised {type(e).__name__}: {e} for a {len(text)}-character text "
                          f"(key {len(case['key'])}, nonce {case['nl']}, tag {case['ml']})", case)
                return
            outs.append(out)
            draws, news, seals = list(rec.draws), list(rec.news), [o for o in rec.ops if o[0] == 'seal']
            if len(draws) != 1 or draws[0][0] != case['nl'] or len(draws[0][1]) != case['nl']:
                self.viol('nonce-draw-count', f"encrypt drew {[d[0] for d in draws]} from the CSPRNG instead of one draw of "
                          f"{case['nl']} bytes", case)
            used = news[0]['kw'].get('nonce') if news else None
            if draws and used is not None and bytes(used) != draws[-1][1]:
                self.viol('nonce-not-drawn', "the nonce handed to AES.new is not the value drawn from the CSPRNG", case)
            if used is not None:
                seen = self.nonces.setdefault(case['key'], {})
                if bytes(used) in seen:
                    self.viol('nonce-reused', f"nonce {hx(used)} used for two encryptions under one key", case,
                              {'first_use': seen[bytes(used)]})
                seen[bytes(used)] = {'text': text, 'nl': case['nl'], 'ml': case['ml']}
            if not out.endswith(bytes(c.end_bytes())):
                self.viol('no-end-marker', f"output of encrypt does not end with {bytes(c.end_bytes())!r}", case)
            if text != '' and len(out) < c.min_length():
                self.viol('below-min-length', f"non-empty text of {len(text)} characters encrypts to {len(out)} bytes < "
                          f"min_length() = {c.min_length()}", case)
            if draws:
                lo = len(out) - (case['nl'] + case['ml'] + len(c.end_bytes()))
                if out[lo:lo + case['nl']] != draws[-1][1]:
                    self.viol('nonce-slot', "the drawn nonce is not in the nonce slot of the output", case)
            if rep == 0:
                drawn = draws[0][1] if draws else b''
                ct, tag = (seals[0][2], seals[0][3]) if seals else (b'', b'')
                pt = seals[0][1] if seals else b''
                new = news[0] if news else {'args': (b'',), 'kw': {}}
                self.emit(f"enc {hx(text.encode('utf-8'))} {hx(drawn)} {hx(ct)} {hx(tag)}",
                          f"draws={','.join(str(d[0]) for d in draws)} key={hx(new['args'][0])} "
                          f"nonce={hx(new['kw'].get('nonce', b''))} mac_len={new['kw'].get('mac_len', '-')} "
                          f"pt={hx(pt)} out={hx(out)}", case)
        # what encrypt() returned earlier must not change when the same object encrypts again (a frame may be queued,
        # kept for a retry, or compared with the next one)
        for k, (raw, copy) in enumerate(raws):
            if bytes(raw) != copy:
                self.viol('output-changed-by-later-call', f"the bytes returned by encrypt() call #{k} changed after a later encrypt() on the "
                          f"same object (key {len(case['key'])}, nonce {case['nl']}, tag {case['ml']})", case)
                return
        if outs[0] == outs[1]:
            self.viol('equal-outputs', "two encryptions of the same text gave identical bytes", case)
        out = outs[0]
        # ---- round trip
        r, back = self.dec(c, out, case)
        if back is None:
            self.viol('roundtrip-rejected', f"decrypt(encrypt(t)) raised ({r}) with key {len(case['key'])}, nonce "
                      f"{case['nl']}, tag {case['ml']}, {len(text)}-character text", case)
        elif back != text:
            if text.endswith('\0') and back == text.rstrip('\0'):
                self.viol('trailing-nul-lost', f"decrypt(encrypt(t)) dropped the trailing U+0000 of t ({len(text)} -> {len(back)} "
                          f"characters): NUL padding + rstrip", case)
            else:
                self.viol('roundtrip-mismatch', f"decrypt(encrypt(t)) != t ({len(text)}-character text came back as "
                          f"{len(back)} characters)", case)
        # ---- tampering
        if tamper != 'none':
            nbits = 8 * (len(out) - len(c.end_bytes()))
            if tamper == 'all':
                bits = range(nbits)
            else:
                bits = sorted({self_rng_bit(case, nbits, k) for k in range(8)})
            for i, bit in enumerate(bits):
                m = bytearray(out)
                m[bit // 8] ^= 1 << (bit % 8)
                r2, back2 = self.dec(c, m, case, emit=(tamper == 'some' or i % 16 == 0))
                res.count('bit_flips')
                if back2 is not None:
                    region = ('ciphertext' if bit // 8 < len(out) - len(c.end_bytes()) - case['nl'] - case['ml']
                              else 'nonce' if bit // 8 < len(out) - len(c.end_bytes()) - case['ml'] else 'tag')
                    self.viol('tamper-accepted', f"flipping bit {bit} ({region}) of an output was not rejected", case,
                              {'bit': bit, 'message': out.hex()})
                    break

    def malformed(self, case, rng):
        """decrypt of truncated / extended / random / hand-framed inputs: expected ValueError, and the model must agree."""
        c = self.make(case)
        if c is None:
            return
        self.rec.clear()
        out = bytes(c.encrypt(case['text']))
        nl, ml = case['nl'], case['ml']
        variants = [('truncate_front', out[1:]), ('truncate_back', out[:-1]), ('extend', out + b'\0'),
                    ('empty', b''), ('marker_only', b'BOBO'), ('short', out[-(ml + 4):]),
                    ('short', out[-(nl + ml + 4) + 1:]), ('random', bytes(rng.getrandbits(8) for _ in range(rng.randint(0, 90))))]
        for kind, m in variants:
            r, back = self.dec(c, m, case)
            self.res.count('malformed_' + kind)
            if back is not None:
                self.viol('malformed-accepted', f"decrypt accepted a {kind} message", case, {'message': m.hex()})
        # a marker-only change is outside C17 (the frame layer owns the marker): compared with the model, no oracle
        self.dec(c, out[:-4] + b'XXXX', case)
        # genuine seals of byte strings that are not text the sender could have produced
        real = self.rec.real_AES
        for kind, pt in [('bad_utf8', b'\xff\xfe'), ('bad_utf8', b'\xed\xa0\x80'), ('bad_utf8', b'\xc0\x80'),
                         ('bad_utf8', b'ab\xe2\x82'), ('unpadded', b'abc'), ('all_nul', b'\0' * 5), ('empty_pt', b'')]:
            nonce = self.rec.real_grb(nl)
            ct, tag = real.new(case['key'].encode('utf-8'), real.MODE_GCM, nonce=nonce, mac_len=ml).encrypt_and_digest(pt)
            self.dec(c, ct + nonce + tag + b'BOBO', case)
            self.res.count('crafted_' + kind)


def self_rng_bit(case, nbits, k):
    # deterministic per case (no global PRNG state consumed inside the oracle)
    import hashlib
    h = hashlib.sha1(json.dumps([case['key'], case['nl'], case['ml'], case['text'], k]).encode()).digest()
    return int.from_bytes(h[:4], 'big') % nbits


def observe_key_check(sess: Session, rng):
    """the constructor counts CHARACTERS, the cipher gets BYTES: compared with the model, reported as a note."""
    for key in ['é' + 'a' * 15, 'é' * 8, 'é' * 16, 'k' * 15, 'k' * 17, '', 'k' * 33]:
        case = {'key': key, 'nl': 16, 'ml': 16, 'text': 'x'}
        c = sess.make(case)
        sess.res.count('key_check_probe')
        if c is not None and len(key.encode('utf-8')) not in KEY_SIZES:
            try:
                c.encrypt('x')
                sess.res.notes.append(f"key of {len(key)} chars / {len(key.encode('utf-8'))} bytes accepted and usable?!")
            except ValueError as e:
                sess.res.notes.append(f"observation: a key of {len(key)} characters / {len(key.encode('utf-8'))} UTF-8 bytes passes "
                                      f"the constructor's length check and every encrypt then raises ValueError ({e})")


# --------------------------------------------------------------------------
# run / search
# --------------------------------------------------------------------------

def compare_with_model(ctx: Ctx, sess: Session, res: Result, ncases: int):
    if not ctx.model_available():
        res.notes.append('model driver unavailable: correspondence not run')
        res.disagreements.append({'correspondence': 'crypto', 'error': 'model driver did not build'})
        return
    model_out = run_model('crypto', sess.lines)
    res.traces_validated = ncases
    for k, (a, b) in enumerate(zip(model_out, sess.impl)):
        if a != b:
            res.disagreements.append({'op_index': k, 'op': sess.lines[k][:400], 'model': a[:600], 'impl': b[:600],
                                      'case': sess.line_case[k]})
            if len(res.disagreements) > 5:
                break
    res.count('model_lines', len(sess.lines))


def run(ctx: Ctx) -> Result:
    res = Result()
    rng = ctx.rng
    with Recorder() as rec:
        sess = Session(res, rec)
        if ctx.replay is not None:
            case = {k: ctx.replay['replay'][k] for k in ('key', 'nl', 'ml', 'text')}
            res.add_case(case)
            sess.run_case(case, tamper='all')
            compare_with_model(ctx, sess, res, 1)
            return res
        n = 0
        for case in corpus_cases():
            res.add_case(case, nontrivial=case['text'] != '')
            res.count('corpus')
            sess.run_case(case, tamper='some')
            n += 1
        cfgs = configs(ctx)
        full_idx = set(range(0, len(cfgs), max(1, len(cfgs) // (12 if ctx.thorough else 6))))
        for idx, (ks, nl, ml) in enumerate(cfgs):
            key = gen_key(rng, ks)
            res.count(f'key_{ks}')
            res.count(f'nonce_len_{nl}')
            res.count(f'tag_len_{ml}')
            for j, (kind, text) in enumerate(texts_for(ctx, idx)):
                case = {'key': key, 'nl': nl, 'ml': ml, 'text': text}
                res.add_case(case, nontrivial=text != '')
                res.count('text_' + kind)
                tamper = 'none'
                if idx in full_idx and j == 17:
                    tamper = 'all'
                elif j % 10 == 3:
                    tamper = 'some'
                sess.run_case(case, tamper=tamper)
                n += 1
            if idx % (10 if ctx.thorough else 3) == 0:
                mcase = {'key': key, 'nl': nl, 'ml': ml, 'text': gen_text(rng, 'mixed', rng.randint(0, 40))}
                res.add_case(mcase)
                sess.malformed(mcase, rng)
                n += 1
        observe_key_check(sess, rng)
        compare_with_model(ctx, sess, res, n)
    return res


def search(ctx: Ctx) -> Result:
    """failing-input search on the real code alone: every configuration × a few texts of each class,
    round trip, framing facts and every single-bit flip of one output per configuration."""
    res = Result()
    rng = ctx.rng
    with Recorder() as rec:
        sess = Session(res, rec)
        for case in corpus_cases():
            sess.run_case(case, tamper='some')
            res.evaluations += 1
        for idx, (ks, nl, ml) in enumerate((k, n, t) for k in KEY_SIZES for n in NONCE_LENS for t in TAG_LENS):
            key = gen_key(rng, ks)
            for j, n in enumerate((1, 15, 16, 17, 33)):
                cls = CLASSES[(idx + j) % len(CLASSES)]
                case = {'key': key, 'nl': nl, 'ml': ml, 'text': gen_text(rng, cls, n)}
                sess.run_case(case, tamper='all' if (j == 0 and idx % 40 == 0) else 'none')
                res.evaluations += 1
            known = {'trailing-nul-lost'}
            if any(v.sig not in known for v in res.violations):
                return res
    return res


SPEC = PropSpec(
    prop='C17',
    translators=['crypto'],
    run=run,
    search=search,
    rule='corpus, then per configuration (quick: 27 corner + 73 sampled of the 3x25x13 key-size x nonce-length x tag-length '
         'grid; thorough: all 975): every text length 0..64 of one text class (ASCII / 2- / 3- / 4-byte UTF-8 / mixed, '
         'rotating), sampled longer texts up to 3000 characters, embedded / leading / trailing / only NUL; each text is '
         'encrypted twice and decrypted; 8 pseudo-random single-bit flips on every 10th case and every bit of the '
         'ciphertext|nonce|tag region of 6 (quick) / 12 (thorough) outputs; a malformed stream (truncated, extended, empty, '
         'random, marker changed, genuinely sealed non-UTF-8 / unpadded plaintexts) on every 3rd / 10th configuration; '
         'a case is non-trivial when the text is non-empty; distinct = distinct (key, nonce length, tag length, text)',
    trusted_base=[
        'AES-GCM (pycryptodome) as an ideal AEAD: hypotheses of the theorems (fields of `AEAD`: open_seal, '
        'open_modified_none = whatever is not an output of seal under the key is rejected, open_taglen_none, seal_ct_len, '
        'seal_tag_len), inhabited by a toy instance; not axioms',
        'get_random_bytes returns the requested number of bytes (DrawLen) and does not repeat (hypothesis hfresh of outputs_differ)',
        'pycryptodome uses a 16-byte tag when mac_len is not passed (defaultMacLen; only used by the F11 counter-lemma)',
        'Lean String.toUTF8 / String.fromUTF8? agree with Python str.encode / bytes.decode for the UTF-8 codec on texts '
        'without lone surrogates (sampled by the correspondence, incl. invalid sequences)',
        'the recording doubles in harness/props/c17.py forward to the real pycryptodome objects unchanged',
    ],
    assumptions=[
        'texts are sequences of Unicode scalar values (a Python str with a lone surrogate makes encrypt raise UnicodeEncodeError before any framing)',
        'tamper_rejected assumes the party that modified the message cannot produce new sealed triples (unforgeability, hypothesis hunf)',
        'roundtrip is stated for texts not ending in U+0000; for the others trailing_nul_lost proves the loss (open finding F12)',
    ],
    model_covers='BoboDistributedCryptoAES: constructor key check and min_length formula, padding by character count, UTF-8 '
                 'encoding, arguments handed to AES.new in both directions, layout ct|nonce|tag|BOBO, the three Python slices '
                 'of decrypt, decode + rstrip; the cipher and the CSPRNG are parameters',
)
