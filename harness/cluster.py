"""
A cluster of REAL bobocep instances (engine + BoboDistributedTCP) wired through
an in-memory network.  Nothing in /repo is edited: on each instance the harness
replaces `_tcp_send` (bytes are produced by the real header + real AES encrypt
and handed to the network), `_now` (scripted clock), and runs the real
`_tcp_outgoing` body one pass at a time and the real
`_tcp_incoming_handle_client` + `_update()` for each delivered message, so
records cross a real serialise / encrypt / decrypt / parse boundary.

Every decider call is recorded as a line of the `decider` model protocol so that
each instance's trace can be replayed on the Lean model (per-component tie).
"""
import os
import logging
from typing import Dict, List, Optional, Tuple

import bobocep.dist.tcp as tcpmod
from bobocep.cep.action.action import BoboAction
from bobocep.cep.action.handler import BoboActionHandlerBlocking
from bobocep.cep.engine.decider.decider import BoboDecider
from bobocep.cep.engine.decider.pubsub import BoboDeciderSubscriber
from bobocep.cep.engine.engine import BoboEngine
from bobocep import BoboError
from bobocep.cep.engine.forwarder.forwarder import BoboForwarder
from bobocep.cep.engine.producer.producer import BoboProducer
from bobocep.cep.engine.producer.pubsub import BoboProducerSubscriber
from bobocep.cep.engine.receiver.receiver import BoboReceiver
from bobocep.cep.engine.receiver.validator import BoboValidatorAll
from bobocep.cep.gen.timestamp import BoboGenTimestamp
from bobocep.dist.crypto.aes import BoboDistributedCryptoAES
from bobocep.dist.device import BoboDevice
from bobocep.dist.tcp import BoboDistributedTCP

from harness import predlang as pl
from harness.drive_decider import CounterGen

logging.disable(logging.CRITICAL)     # the real components log every failed send

AES_KEY = '0123456789abcdef'
TYPE_NAMES = {0: 'SYNC', 1: 'PING', 2: 'RESYNC'}


class Clock:
    def __init__(self, t=1000):
        self.t = t

    def now(self):
        return self.t

    def time(self):
        return float(self.t)


class TS(BoboGenTimestamp):
    def __init__(self):
        self.n = 0

    def generate(self):
        self.n += 1
        return self.n


class RecAction(BoboAction):
    """records every execution; returns a fixed outcome."""

    def __init__(self, name, log):
        super().__init__(name)
        self.log = log

    def execute(self, event):
        self.log.append((event.phenomenon_name, event.pattern_name, pl.show_hist(event.history)))
        return True, 7


class FakeSock:
    # how much one read returns at most, rotating over the messages of a run: the network hands a message over in pieces
    # (whole, MTU-sized, small), whatever the receiver asks for
    CAPS = (1 << 20, 64, 1448, 17, 2048, 100)
    count = 0

    def __init__(self, data):
        self.data = data
        self.timeout = None
        FakeSock.count += 1
        self.cap = FakeSock.CAPS[FakeSock.count % len(FakeSock.CAPS)]

    def settimeout(self, t):
        self.timeout = t

    def recv(self, n):
        if not self.data:
            # everything the sender wrote has been read and the sender is done: a blocking socket with a receive timeout
            # now times out (returning b'' for ever would let a receiver that missed the end of the message spin)
            self.silent = getattr(self, 'silent', 0) + 1
            if self.timeout is not None or self.silent > 3:
                import socket as _socket
                raise _socket.timeout('timed out')
            return b''
        n = min(n, self.cap)
        out, self.data = self.data[:n], self.data[n:]
        return out

    def close(self):
        pass


class OnePass:
    """replacement for `_lock_in_out`: lets the loop body run once, then closes the thread."""

    def __init__(self, tcp):
        self.tcp, self.n = tcp, 0

    def __enter__(self):
        self.n += 1
        if self.n >= 2:
            self.tcp._thread_closed = True

    def __exit__(self, *a):
        # the decision phase is over, the send phase has not begun: an atomic-step boundary of the outgoing thread
        if self.n == 1 and self.on_exit is not None:
            self.on_exit()
        return False

    on_exit = None


class DecRecorder(BoboDeciderSubscriber):
    def __init__(self):
        self.notifs = []
        self.kept = []            # the list OBJECTS handed over, each with a copy taken at that moment

    def on_decider_update(self, completed, halted, updated, local):
        self.notifs.append((list(completed), list(halted), list(updated), local))
        self.kept.append(((completed, halted, updated), (list(completed), list(halted), list(updated))))

    def changed(self):
        """the first notification whose lists no longer hold what they held when they were handed over, or None
        (a subscriber that keeps a notification re-reads it later: it is a snapshot)"""
        for k, (objs, copies) in enumerate(self.kept):
            for name, o, c in zip(('completed', 'halted', 'updated'), objs, copies):
                try:
                    now = list(o)
                except Exception:   # noqa
                    continue
                if len(now) != len(c) or any(a is not b for a, b in zip(now, c)):
                    return k, name, len(c), len(now)
        return None


class Bomb(BoboDeciderSubscriber):
    """a decider subscriber subscribed AFTER everybody else that fails on the notifications carrying a finished run (a sink
    that is full, a link object that was closed): the caller of update() gets the exception and carries on.  What the
    decider did for the event is done, and every subscriber before this one has been told -- once."""

    def __init__(self):
        self.armed, self.fired, self.count = False, False, 0

    def on_decider_update(self, completed, halted, updated, local):
        if self.armed and (completed or halted):
            self.count += 1
            self.fired = True
            raise (RuntimeError, BoboError, OSError)[self.count % 3]('the sink is full')


class CERecorder(BoboProducerSubscriber):
    def __init__(self):
        self.events = []          # (pattern, history text, local, run-independent key)

    def on_producer_update(self, event, local):
        self.events.append((event.phenomenon_name, event.pattern_name, pl.show_hist(event.history), local))


def hist_key(hist_text: str) -> str:
    """history compared by (group, kind, data) — event ids and timestamps differ between engines."""
    out = []
    for g in hist_text.split(';'):
        if not g:
            continue
        name, evs = g.split('=')
        out.append(name + '=' + '.'.join(':'.join(e.split(':')[2:]) for e in evs.split('.')))
    return ';'.join(out)


class Inst:
    def __init__(self, name: str, gen: int, phens, devices: List[Tuple[str, str]], cache: int, net, clock: Clock,
                 periods: Optional[dict] = None, with_action=True, local_only=True, flag_reset=True, via_setup=False):
        self.name, self.gen, self.phens, self.cache = name, gen, phens, cache
        self.via_setup = via_setup
        self.net, self.clock = net, clock
        self.exec_log: List = []
        tag = f'{name}{gen}' if gen else name
        self.tag = tag
        self.phenomena = pl.mk_phenomena(
            phens, action=(lambda n: RecAction('act_' + n, self.exec_log)) if with_action else None,
            datagen=lambda p, h: h.size())
        tcp_from_setup = None
        if via_setup:
            # the engine (and the distributed component) exactly as BoboSetupSimple / BoboSetupSimpleDistributed wire them:
            # their identifier generators, validator, memory size and subscriptions (default arguments)
            from bobocep.setup.simple import BoboSetupSimple, BoboSetupSimpleDistributed
            self.handler = BoboActionHandlerBlocking()
            if devices:
                devs0 = [BoboDevice(addr='127.0.0.1', port=9000 + i, urn=u, id_key=k) for i, (u, k) in enumerate(devices)]
                self.engine, tcp_from_setup = BoboSetupSimpleDistributed(
                    phenomena=self.phenomena, handler=self.handler, urn=name, devices=devs0, aes_key=AES_KEY).generate()
            else:
                self.engine = BoboSetupSimple(phenomena=self.phenomena, handler=self.handler, urn=name).generate()
            self.receiver, self.decider = self.engine.receiver, self.engine.decider
            self.producer, self.forwarder = self.engine.producer, self.engine.forwarder
        else:
            ids = CounterGen(tag + 'e')
            ts = TS()
            self.receiver = BoboReceiver(BoboValidatorAll(), ids, ts)
            self.decider = BoboDecider(self.phenomena, ids, CounterGen(tag + 'r'), max_cache=cache)
            self.producer = BoboProducer(self.phenomena, ids, ts)
            self.handler = BoboActionHandlerBlocking()
            self.forwarder = BoboForwarder(self.phenomena, self.handler, ids, ts, local_only=local_only)
            self.engine = BoboEngine(self.receiver, self.decider, self.producer, self.forwarder)
        self.drec, self.cerec = DecRecorder(), CERecorder()
        self.decider.subscribe(self.drec)
        self.producer.subscribe(self.cerec)
        self.tcp = None
        self.wire_log: List = []          # (t, dst, type, flags, err, payload ids)
        self.trace: List[Tuple[str, str]] = []   # (model op line, impl output line)
        self.alive = True
        if devices:
            if tcp_from_setup is not None:
                self.tcp = tcp_from_setup
            else:
                devs = [BoboDevice(addr='127.0.0.1', port=9000 + i, urn=u, id_key=k) for i, (u, k) in enumerate(devices)]
                kw = dict(periods or {})
                self.tcp = BoboDistributedTCP(urn=name, decider=self.decider, devices=devs,
                                              crypto=BoboDistributedCryptoAES(AES_KEY), flag_reset=flag_reset, **kw)
                self.decider.subscribe(self.tcp)
                self.tcp.subscribe(self.decider)
            self.tcp._running = True
            self.tcp._now = clock.now
            self.tcp._tcp_send = self._send
        self.bomb = Bomb()
        self.decider.subscribe(self.bomb)
        self._wrap_decider()

    # ---- recording of decider calls (model protocol lines) ----
    def table(self) -> str:
        return 'T[' + ' '.join(pl.show_rec(r.serialize()) + ('!' if r.is_halted() else '')
                               for r in self.decider.all_runs()) + ']'

    def _wrap_decider(self):
        dec = self.decider
        orig_update = dec.update
        orig_remote = dec.on_distributed_update
        inst = self

        # the events waiting in the decider, mirrored through its public entry points only (how it stores them is its
        # own business): appended when `on_receiver_update` accepts one, dropped when `update()` has taken one
        mirror = []
        orig_recv = dec.on_receiver_update

        def on_receiver_update(event):
            orig_recv(event)
            mirror.append(event)

        def update():
            waiting = dec.size()
            ev = mirror[0] if (waiting > 0 and mirror) else None
            n0 = len(inst.drec.notifs)
            inst.bomb.fired = False
            try:
                ch = orig_update()
            except Exception:
                if inst.bomb.fired:
                    ch = True           # (a notification went out, so there was a change; the failing sink is the harness's own)
                    if ev is not None and dec.size() < waiting:
                        mirror.pop(0)
                        new = inst.drec.notifs[n0:]
                        n = new[0] if new else ([], [], [], True)
                        inst.trace.append(('ev ' + ' '.join(pl.show_event(ev).split(':')),
                                           f"1 C{pl.show_recs(n[0])} H{pl.show_recs(n[1])} U{pl.show_recs(n[2])} | {inst.table()}"))
                    raise
                if ev is not None and dec.size() < waiting:
                    mirror.pop(0)
                if ev is not None:
                    inst.trace.append(('ev ' + ' '.join(pl.show_event(ev).split(':')), 'X'))
                raise
            if ev is not None and dec.size() < waiting:
                mirror.pop(0)
            else:
                ev = None
            if ev is not None:
                new = inst.drec.notifs[n0:]
                n = new[0] if new else ([], [], [], True)
                inst.trace.append(('ev ' + ' '.join(pl.show_event(ev).split(':')),
                                   f"{1 if ch else 0} C{pl.show_recs(n[0])} H{pl.show_recs(n[1])} U{pl.show_recs(n[2])} | {inst.table()}"))
            return ch

        def remote(completed, halted, updated):
            op = 'rem' + ''.join(' ' + k + ''.join(' ' + pl.show_rec(r) for r in lst)
                                 for k, lst in (('C', completed), ('H', halted), ('U', updated)) if lst)
            n0 = len(inst.drec.notifs)
            inst.bomb.fired = False
            try:
                orig_remote(completed=completed, halted=halted, updated=updated)
            except Exception:
                if not inst.bomb.fired:
                    inst.trace.append((op, 'X'))
                    raise
            # the engine thread may have slipped in a local update of its own (receive_racing_engine): the remote one is the
            # notification marked local=False
            n = [x for x in inst.drec.notifs[n0:] if not x[3]][-1]
            inst.trace.append((op, f"C{pl.show_recs(n[0])} H{pl.show_recs(n[1])} U{pl.show_recs(n[2])} | {inst.table()}"))

        dec.update = update
        dec.on_receiver_update = on_receiver_update
        dec.on_distributed_update = remote

    def model_lines(self) -> Tuple[List[str], List[str]]:
        cfg = pl.config_lines(self.phens, self.cache)
        cfg.insert(2, f'idprefix {self.tag}r')
        return cfg + [t[0] for t in self.trace], ['ok'] * len(cfg) + [t[1] for t in self.trace]

    # ---- operations ----
    def input(self, d):
        self.receiver.add_data(d)
        self.settle()

    def settle(self, bound=200):
        for _ in range(bound):
            if (self.receiver.size() == 0 and self.decider.size() == 0 and self.producer.size() == 0
                    and self.forwarder.size() == 0 and self.handler.size() == 0):
                return
            try:
                self.engine.update()
            except Exception:
                if not self.bomb.fired:
                    raise
                self.bomb.fired = False          # the application logs the failing sink and carries on
        raise RuntimeError('engine did not settle')

    def outgoing_pass(self, inject=None):
        """one iteration of the real outgoing loop.  `inject` maps an atomic-step boundary of the outgoing thread
        ('lock' = after the decision phase, 'send:<peer>' = while the send to <peer> is in progress) to a callable
        run there, i.e. what another thread (incoming handler, engine) does at that point of the interleaving."""
        t = self.tcp
        t._thread_closed = False
        lock = OnePass(t)
        self.inject = dict(inject or {})
        lock.on_exit = self.inject.get('lock')
        t._lock_in_out = lock
        try:
            t._tcp_outgoing()
        finally:
            t._thread_closed = False
            self.inject = {}

    def _send(self, d, msg_type, msg_flags, msg_str):
        mydev = self.tcp._devices[self.name]
        plain = '{} {} {} {} {}'.format(mydev.urn, mydev.id_key, msg_type, msg_flags, msg_str)
        data = bytes(self.tcp._crypto.encrypt(plain))
        err = self.net.transmit(self.name, d.urn, data, msg_type, msg_flags)
        hook = getattr(self, 'inject', {}).get('send:' + d.urn)
        if hook is not None:
            hook()          # another thread runs while this send is in progress
        self.wire_log.append((self.clock.t, d.urn, TYPE_NAMES.get(msg_type, msg_type), msg_flags, err))
        return err

    def receive_racing_engine(self, data: bytes, addr='127.0.0.1') -> str:
        """the distributed thread applies a message while the ENGINE thread is about to process data already queued in the
        receiver: the engine's whole cycle runs at the moment the distributed thread reaches for the decider's lock (it
        does not hold it yet, so the engine thread may well win it) — and once more right after it let go of it.  What
        `on_distributed_update` looked at BEFORE taking the lock is stale by then."""
        dec = self.decider
        names = [k for k, v in vars(dec).items() if hasattr(v, 'acquire') and hasattr(v, 'release')]
        state = {'depth': 0, 'fired': False}
        inst = self

        class Racing:
            def __init__(self, real):
                self.real = real

            def __enter__(self):
                if state['depth'] == 0 and not state['fired']:
                    state['fired'] = True
                    for k in names:                      # the engine thread uses the real lock
                        setattr(dec, k, saved[k])
                    try:
                        inst.settle()
                    finally:
                        for k in names:
                            setattr(dec, k, wrapped[k])
                state['depth'] += 1
                return self.real.__enter__()

            def __exit__(self, *a):
                state['depth'] -= 1
                return self.real.__exit__(*a)

            def acquire(self, *a, **k):
                return self.real.acquire(*a, **k)

            def release(self):
                return self.real.release()
        saved = {k: getattr(dec, k) for k in names}
        wrapped = {k: Racing(saved[k]) for k in names}
        for k in names:
            setattr(dec, k, wrapped[k])
        try:
            return self.receive(data, addr, settle=False)
        finally:
            for k in names:
                setattr(dec, k, saved[k])
            self.settle()

    def receive(self, data: bytes, addr='127.0.0.1', settle=True) -> str:
        old = tcpmod.time
        tcpmod.time = self.clock
        try:
            self.tcp._tcp_incoming_handle_client(FakeSock(data), addr, self.clock.t)
            out = 'accepted'
        except Exception as e:       # the accept loop catches everything
            out = 'rejected:' + e.__class__.__name__
        finally:
            tcpmod.time = old
        self.tcp._update()
        if settle:
            self.settle()
        return out

    def queue_len(self):
        return self.tcp._queue_outgoing.qsize()

    def stash_len(self, peer):
        return self.tcp._devices[peer].size_stash()

    def positions(self) -> Dict[str, Tuple[int, int]]:
        return {r.run_id: (r.block_index, r.history().size()) for r in self.decider.all_runs()}


class Net:
    """ordered links (src,dst) -> list of in-flight byte strings; per-link up/down and scripted faults."""

    def __init__(self):
        self.links: Dict[Tuple[str, str], List[bytes]] = {}
        self.down = set()
        self.fail_after_delivery = set()     # links on which the next send is delivered but reported as failed
        self.meta: Dict[Tuple[str, str], List] = {}

    def transmit(self, src, dst, data, mtype, flags) -> int:
        if (src, dst) in self.down:
            return 2
        self.links.setdefault((src, dst), []).append(data)
        self.meta.setdefault((src, dst), []).append((mtype, flags))
        if (src, dst) in self.fail_after_delivery:
            self.fail_after_delivery.discard((src, dst))
            return 1
        return 0

    def pending(self):
        return sum(len(v) for v in self.links.values())


class Cluster:
    def __init__(self, names, phens, cache=1000, periods=None, with_action=True, clock0=1000, via_setup=False, quiet=(), bomb=()):
        self.names, self.phens, self.cache, self.periods = list(names), phens, cache, periods
        self.quiet = set(quiet)       # instances cold-started WITHOUT announcing themselves (flag_reset=False); a restart announces
        self.via_setup = via_setup
        FakeSock.count = 0            # (the read sizes depend on the scenario alone: a replay sees the same ones)
        self.clock = Clock(clock0)
        self.net = Net()
        # (device keys with white space that is not the ASCII space -- ideographic space, no-break space, tab: BoboDevice refuses
        # ' ' only -- for every instance but the first)
        self.devices = [(n, 'k' + n if i == 0 else ('k\u3000' + n, 'k\u00a0' + n + '\tx')[i % 2]) for i, n in enumerate(names)] if len(names) > 1 else []
        self.with_action = with_action
        self.bombed = set(bomb)       # instances with a decider subscriber that fails on finished runs (class Bomb)
        self.insts: Dict[str, Inst] = {n: self._mk(n, 0, flag_reset=n not in self.quiet) for n in names}
        self.dead: List[Inst] = []
        self.gens = {n: 0 for n in names}

    def _mk(self, n, gen, flag_reset=True):
        inst = Inst(n, gen, self.phens, self.devices, self.cache, self.net, self.clock, self.periods,
                    self.with_action, flag_reset=flag_reset, via_setup=self.via_setup)
        inst.bomb.armed = n in getattr(self, 'bombed', ())
        return inst

    def live(self):
        return [i for i in self.insts.values() if i.alive]

    def input(self, name, d):
        self.insts[name].input(d)

    def pass_(self, name):
        self.insts[name].outgoing_pass()

    def deliver(self, src, dst, k=0, keep=False, settle=True, racing=False) -> Optional[str]:
        q = self.net.links.get((src, dst), [])
        if k >= len(q):
            return None
        data = q[k] if keep else q.pop(k)
        if not keep:
            self.net.meta[(src, dst)].pop(k)
        if not self.insts[dst].alive:
            return 'lost'
        addr = getattr(self, 'src_addr', {}).get(src, '127.0.0.1')      # the address the sender's connections come from now
        if racing:
            return self.insts[dst].receive_racing_engine(data, addr)
        return self.insts[dst].receive(data, addr, settle=settle)

    def crash(self, name):
        """the process is gone: what was on its way to it is lost, connecting to it fails from now on (the sender's
        `_tcp_send` reports an error and the change goes to the peer's backlog); what it had already handed to the
        network is still delivered."""
        self.insts[name].alive = False
        self.dead_links = getattr(self, 'dead_links', set())
        for (s, d) in list(self.net.links):
            if d == name:
                self.net.links[(s, d)] = []
                self.net.meta[(s, d)] = []
        for s in self.names:
            if s != name:
                self.net.down.add((s, name))
                self.dead_links.add((s, name))

    def restart(self, name):
        old = self.insts[name]
        old.alive = False
        self.dead.append(old)
        # whatever was on its way to the lost process is gone with it; what it had already handed to the network
        # is still delivered (before anything its successor sends: the link is first-in first-out), so the crash
        # sits between two of its outgoing-loop iterations, not inside one
        for (s, d) in list(self.net.links):
            if d == name:
                self.net.links[(s, d)] = []
                self.net.meta[(s, d)] = []
        for s in self.names:                      # the new process listens again
            if (s, name) in getattr(self, 'dead_links', set()):
                self.net.down.discard((s, name))
                self.dead_links.discard((s, name))
        self.gens[name] += 1
        self.insts[name] = self._mk(name, self.gens[name])

    def sync(self, rounds=6):
        """deliver everything: outgoing passes and deliveries until nothing is queued, stashed or in flight."""
        for _ in range(rounds):
            busy = False
            for i in self.live():
                if i.tcp is None:
                    continue
                live_peers = [p for p in self.names if p != i.name and self.insts[p].alive]
                if live_peers and (i.queue_len() or any(i.stash_len(p) for p in live_peers)):
                    busy = True
                n_pass = 0
                while i.queue_len() and n_pass < 60:       # (the queue is not drained while every peer is unreachable and
                    i.outgoing_pass()                      #  waiting for its next RESYNC attempt: bounded)
                    n_pass += 1
                i.outgoing_pass()
            for (s, d), q in list(self.net.links.items()):
                while q:
                    busy = True
                    self.deliver(s, d)
            if not busy:
                return
        raise RuntimeError('cluster did not quiesce')

    def quiescent(self):
        if self.net.pending():
            return False
        for i in self.live():
            if i.tcp and (i.queue_len() or any(i.stash_len(p) for p in self.names if p != i.name and self.insts[p].alive)):
                return False
        return True
