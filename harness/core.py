"""
Common machinery for every check (DESIGN.md section 2.3).

One check =  translate (G)  ->  lake build of the property module  ->  axiom /
hygiene audit  ->  correspondence (D) + property oracle on the REAL code  ->
known findings  ->  failing-input search when an obligation or the
correspondence broke  ->  evidence  ->  exit code.
"""
from __future__ import annotations

import fcntl
import hashlib
import importlib
import json
import os
import random
import re
import subprocess
import sys
import time
from dataclasses import dataclass, field
from pathlib import Path
from typing import Any, Callable, Dict, List, Optional, Tuple

ROOT = Path(__file__).resolve().parent.parent
LEAN = ROOT / 'lean'
REPO = Path(os.environ.get('BOBOCEP_REPO', '/repo'))
# evidence goes to /verif/evidence; trial runs against a changed copy of the repository (tools/try_seed.sh,
# tools/rerun_seeds.sh) redirect it so that the committed evidence always describes the unchanged tree
EVIDENCE = Path(os.environ['VERIF_EVIDENCE_DIR']) if os.environ.get('VERIF_EVIDENCE_DIR') else ROOT / 'evidence'
REPLAYS = ROOT / 'replays'
CORPUS = ROOT / 'harness' / 'corpus'
DRIVER = LEAN / '.lake' / 'build' / 'bin' / 'bobodrv'

ALLOWED_AXIOMS = {'propext', 'Classical.choice', 'Quot.sound'}
FORBIDDEN = re.compile(r'\b(sorry|admit|native_decide|bv_decide|implemented_by|maxHeartbeats\s+0)\b|^\s*axiom\s|\bunsafe\s', re.M)

GENERIC_TRUSTED = [
    'Lean 4.33.0 kernel (lake build; leanchecker in the thorough tier)',
    'axioms allowed in property theorems: propext, Classical.choice, Quot.sound (audited with #print axioms on every run)',
    'translate/*.py: renders the listed source fragments of /repo into Lean (refuses anything outside its subset)',
    'harness/*.py: drives the real bobocep classes in-process and canonicalises their observable output; agreement with the model is sampled, not proved',
]


# --------------------------------------------------------------------------
# small utilities
# --------------------------------------------------------------------------

def seed_from_env() -> int:
    try:
        return int(os.environ.get('VERIF_SEED', '0'))
    except ValueError:
        return 0


def rel(p: Path) -> str:
    try:
        return str(Path(p).resolve().relative_to(ROOT))
    except ValueError:
        return str(p)


class BuildLock:
    """serialise translate+lake across concurrently running checks."""

    def __enter__(self):
        self.f = open(LEAN / '.verif-build.lock', 'w')
        fcntl.flock(self.f, fcntl.LOCK_EX)
        return self

    def __exit__(self, *a):
        fcntl.flock(self.f, fcntl.LOCK_UN)
        self.f.close()


def strip_lean_comments(src: str) -> str:
    # block comments (nesting ignored: good enough for a hygiene grep), then line comments
    src = re.sub(r'/-.*?-/', ' ', src, flags=re.S)
    src = re.sub(r'--[^\n]*', ' ', src)
    return src


# --------------------------------------------------------------------------
# G: translation
# --------------------------------------------------------------------------

PINNED_GEN = ROOT / 'translate' / 'pinned_gen'


def repo_internal_names(repo: Path) -> set:
    """every non-public name the source defines: `def _x`, `self._x = …` / `self._x: T = …`, module- and class-level `_X = …`."""
    import ast
    names = set()
    for p in (repo / 'bobocep').rglob('*.py'):
        try:
            tree = ast.parse(p.read_text())
        except SyntaxError:
            continue
        for n in ast.walk(tree):
            if isinstance(n, (ast.FunctionDef, ast.AsyncFunctionDef, ast.ClassDef)) and n.name.startswith('_'):
                names.add(n.name)
            elif isinstance(n, (ast.Assign, ast.AnnAssign, ast.AugAssign)):
                tgts = n.targets if isinstance(n, ast.Assign) else [n.target]
                for t in tgts:
                    for m in ast.walk(t):
                        if isinstance(m, ast.Attribute) and m.attr.startswith('_'):
                            names.add(m.attr)
                        elif isinstance(m, ast.Name) and m.id.startswith('_'):
                            names.add(m.id)
    return names


def missing_internals() -> List[str]:
    """non-public names of bobocep that the harness modules loaded for this check rely on and the current source no longer
    defines (harness/pinned_internals.json, written by tools/pin_internals.py)."""
    pin = ROOT / 'harness' / 'pinned_internals.json'
    if not pin.exists():
        return []
    table = json.loads(pin.read_text())
    loaded = set()
    for m in list(sys.modules.values()):
        f = getattr(m, '__file__', None)
        if f:
            try:
                loaded.add(str(Path(f).resolve().relative_to(ROOT)))
            except ValueError:
                pass
    need = {}
    for f, names in table.items():
        if f in loaded:
            for n in names:
                need.setdefault(n, f)
    have = repo_internal_names(REPO)
    from translate import renames
    have |= set(renames.rename_map(REPO)[0])          # renamed, reachable through aliases
    return sorted(f"{n} (used by {need[n]})" for n in need if n not in have)


NO_PROOF_FALLBACK = {'locks'}


def differs_from_pinned(name: str) -> bool:
    idx = PINNED_GEN / 'index.json'
    if not idx.exists():
        return False
    for fname in json.loads(idx.read_text()).get(name, []):
        a, b = PINNED_GEN / fname, LEAN / 'BoboVerif' / 'Gen' / fname
        if a.exists() and b.exists() and a.read_text() != b.read_text():
            return True
    return False


def restore_pinned(name: str) -> bool:
    """
    Translator `name` could not regenerate its fragment from the current source: put back the fragment generated
    from the pinned tree (translate/pinned_gen/, written by tools/pin_gen.py and committed), so that the Lean build
    and the driver use a well-defined model — a hand-held model from then on, tied to the code by D only.
    """
    idx = PINNED_GEN / 'index.json'
    if not idx.exists():
        return False
    files = json.loads(idx.read_text()).get(name)
    if not files:
        return False
    for fname in files:
        src = PINNED_GEN / fname
        dst = LEAN / 'BoboVerif' / 'Gen' / fname
        if not src.exists():
            return False
        if not dst.exists() or dst.read_text() != src.read_text():
            dst.write_text(src.read_text())
    return True


def run_translators(names: List[str], fallback: Optional[List[str]] = None) -> Tuple[Dict[str, str], List[str]]:
    """
    Regenerate lean/BoboVerif/Gen/<X>.lean for the named translators from
    /repo's working tree.  Returns ({fragment: sha256}, [tie-broken messages]).
    If `fallback` is a list, the names of translators that failed but whose pinned fragment was restored are
    appended to it and their message goes there instead of into the broken list.
    """
    sys.path.insert(0, str(ROOT))
    from translate.pyexpr import TieBroken
    hashes: Dict[str, str] = {}
    broken: List[str] = []

    def failed(n, msg):
        if fallback is not None and restore_pinned(n):
            fallback.append(msg)
        else:
            broken.append(msg)
    for n in names:
        mod = importlib.import_module('translate.' + n)
        try:
            files, hs = mod.translate(REPO)
        except TieBroken as e:
            failed(n, f"tie-broken: translate/{n}.py: {e}")
            continue
        except Exception as e:  # a crash of the translator is also a broken tie, never a pass
            failed(n, f"tie-broken: translate/{n}.py crashed: {e.__class__.__name__}: {e}")
            continue
        hashes.update(hs)
        for fname, content in files.items():
            p = LEAN / 'BoboVerif' / 'Gen' / fname
            if not p.exists() or p.read_text() != content:
                p.write_text(content)
    return hashes, broken


# --------------------------------------------------------------------------
# Lean: build + audit
# --------------------------------------------------------------------------

@dataclass
class LeanStatus:
    theorems: List[str] = field(default_factory=list)       # obligations (fully qualified)
    discharged: List[str] = field(default_factory=list)
    build_ok: bool = False
    driver_ok: bool = False
    messages: List[str] = field(default_factory=list)       # what no longer checks
    axioms: Dict[str, List[str]] = field(default_factory=dict)
    wall_s: float = 0.0


def _theorem_names(path: Path) -> List[str]:
    """fully qualified names of the theorems declared in a Props file."""
    src = strip_lean_comments(path.read_text())
    names: List[str] = []
    ns: List[str] = []
    for m in re.finditer(r'^\s*(namespace|end|theorem)\s+([^\s:({\[]+)', src, re.M):
        kw, name = m.group(1), m.group(2)
        if kw == 'namespace':
            ns.append(name)
        elif kw == 'end':
            if ns and ns[-1] == name:
                ns.pop()
        else:
            names.append('.'.join(ns + [name]) if ns else name)
    return names


def _import_closure(path: Path) -> List[Path]:
    """project files transitively imported by `path` (including itself)."""
    seen: Dict[Path, None] = {}
    todo = [path]
    while todo:
        p = todo.pop()
        if p in seen or not p.exists():
            continue
        seen[p] = None
        for m in re.finditer(r'^\s*import\s+(BoboVerif(?:\.\w+)+)', p.read_text(), re.M):
            todo.append(LEAN / (m.group(1).replace('.', '/') + '.lean'))
    return sorted(seen)


def lean_build_and_audit(prop: str, extra_modules: List[str] = (), thorough: bool = False,
                         extra_props: List[str] = ()) -> LeanStatus:
    """`extra_props`: further modules under Props/ whose theorems are obligations of this property too (e.g. `C01Decider`,
    which cannot live in Props/C01.lean because the lemmas it needs import Props/C01 themselves)."""
    t0 = time.time()
    st = LeanStatus()
    props_file = LEAN / 'BoboVerif' / 'Props' / f'{prop}.lean'
    st.theorems = _theorem_names(props_file)
    mod = f'BoboVerif.Props.{prop}'
    more = [f'BoboVerif.Props.{x}' for x in extra_props]
    for x in extra_props:
        st.theorems += _theorem_names(LEAN / 'BoboVerif' / 'Props' / f'{x}.lean')

    # hygiene grep over everything this property's module imports inside the project (comments stripped)
    closure = set(_import_closure(props_file))
    for x in extra_props:
        closure |= set(_import_closure(LEAN / 'BoboVerif' / 'Props' / f'{x}.lean'))
    for p in sorted(closure):
        m = FORBIDDEN.search(strip_lean_comments(p.read_text()))
        if m:
            st.messages.append(f"hygiene: forbidden token {m.group(0).strip()!r} in {rel(p)}")

    r = subprocess.run(['lake', 'build', mod, 'bobodrv'] + more + list(extra_modules), cwd=LEAN,
                       capture_output=True, text=True)
    st.driver_ok = DRIVER.exists()
    if r.returncode != 0:
        errs = [l for l in (r.stdout + r.stderr).splitlines() if 'error' in l.lower()]
        st.messages.append(f"lake build {mod} failed: " + ' | '.join(errs[:6]))
        # the driver may still build on its own (models untouched)
        r2 = subprocess.run(['lake', 'build', 'bobodrv'], cwd=LEAN, capture_output=True, text=True)
        st.driver_ok = (r2.returncode == 0) and DRIVER.exists()
        st.wall_s = time.time() - t0
        return st
    st.build_ok = True

    # axiom audit
    audit_dir = LEAN / '.lake' / 'audit'
    audit_dir.mkdir(parents=True, exist_ok=True)
    af = audit_dir / f'Audit{prop}.lean'
    af.write_text(f'import {mod}\n' + ''.join(f'import {m}\n' for m in more) + ''.join(f'#print axioms {t}\n' for t in st.theorems))
    r = subprocess.run(['lake', 'env', 'lean', str(af)], cwd=LEAN, capture_output=True, text=True)
    out = r.stdout + r.stderr
    if r.returncode != 0:
        st.messages.append('axiom audit failed to run: ' + out[:400])
    cur = None
    for t in st.theorems:
        st.axioms[t] = None  # type: ignore
    # output forms:  "'X' depends on axioms: [a, b]"   /   "'X' does not depend on any axioms"
    for m in re.finditer(r"'(\S+?)' (does not depend on any axioms|depends on axioms: \[([^\]]*)\])", out, re.S):
        name = m.group(1)
        axs = [] if m.group(3) is None else [a.strip() for a in m.group(3).replace('\n', ' ').split(',') if a.strip()]
        st.axioms[name] = axs
    for t in st.theorems:
        axs = st.axioms.get(t)
        if axs is None:
            st.messages.append(f"axiom audit: no report for {t}")
        elif not set(axs) <= ALLOWED_AXIOMS:
            st.messages.append(f"axiom audit: {t} depends on {sorted(set(axs) - ALLOWED_AXIOMS)}")
        else:
            st.discharged.append(t)

    if thorough and st.build_ok:
        r = subprocess.run(['lake', 'env', 'leanchecker', mod] + more, cwd=LEAN, capture_output=True, text=True)
        if r.returncode != 0:
            st.messages.append('leanchecker rejected ' + mod + ': ' + (r.stdout + r.stderr)[-400:])
            st.discharged = []
    st.wall_s = time.time() - t0
    return st


# --------------------------------------------------------------------------
# D: the model driver
# --------------------------------------------------------------------------

def run_model(model: str, lines: List[str], timeout: float = 600) -> List[str]:
    """pipe op lines to the native Lean driver; one output line per op."""
    if not DRIVER.exists():
        raise RuntimeError('model driver not built')
    for l in lines:
        assert '\n' not in l, l
    if not lines:
        return []
    r = subprocess.run([str(DRIVER), model], input='\n'.join(lines) + '\n', capture_output=True, text=True,
                       timeout=timeout)
    if r.returncode != 0:
        raise RuntimeError(f'model driver failed ({r.returncode}): {r.stderr[:300]}')
    out = r.stdout.split('\n')
    if out and out[-1] == '':
        out.pop()
    if len(out) != len(lines):
        raise RuntimeError(f'model driver returned {len(out)} lines for {len(lines)} ops')
    return out


# --------------------------------------------------------------------------
# results, findings, evidence
# --------------------------------------------------------------------------

@dataclass
class Violation:
    sig: str                 # short signature used to match known findings
    what: str                # human-readable
    replay: Any              # JSON-serialisable replay (ops / input / schedule)


@dataclass
class Result:
    evaluations: int = 0
    nontrivial: set = field(default_factory=set)         # hashes of distinct non-trivial cases
    samples: List[Any] = field(default_factory=list)
    traces_validated: int = 0                             # cases on which model and impl outputs were compared
    disagreements: List[Any] = field(default_factory=list)  # model ≠ impl (each: dict with 'case', 'model', 'impl')
    violations: List[Violation] = field(default_factory=list)  # property oracle failed on the REAL code
    distribution: Dict[str, int] = field(default_factory=dict)
    exhaustive: bool = False
    notes: List[str] = field(default_factory=list)

    def count(self, key: str, n: int = 1):
        self.distribution[key] = self.distribution.get(key, 0) + n

    def add_case(self, case: Any, nontrivial: bool = True):
        self.evaluations += 1
        if nontrivial:
            self.nontrivial.add(hashlib.sha1(json.dumps(case, sort_keys=True, default=str).encode()).hexdigest())
        if len(self.samples) < 4:
            self.samples.append(case)

    def merge(self, o: 'Result'):
        self.evaluations += o.evaluations
        self.nontrivial |= o.nontrivial
        for s in o.samples:
            if len(self.samples) < 6:
                self.samples.append(s)
        self.traces_validated += o.traces_validated
        self.disagreements += o.disagreements
        self.violations += o.violations
        for k, v in o.distribution.items():
            self.count(k, v)
        self.notes += o.notes


def load_known(prop: str) -> List[dict]:
    p = ROOT / 'known_findings.json'
    if not p.exists():
        return []
    return [f for f in json.loads(p.read_text())['findings'] if f['property'] == prop]


@dataclass
class PropSpec:
    """what a property module (harness/props/cXX.py) exports as SPEC."""
    prop: str
    translators: List[str]
    run: Callable[['Ctx'], Result]
    search: Optional[Callable[['Ctx'], Result]] = None    # deeper failing-input search on the real code
    rule: str = ''
    g_required: List[str] = field(default_factory=list)   # translators whose fragment no D run exercises (none today)
    extra_props: List[str] = field(default_factory=list)  # further Props/<X>.lean modules whose theorems are obligations here
    trusted_base: List[str] = field(default_factory=list)
    assumptions: List[str] = field(default_factory=list)
    model_covers: str = ''


@dataclass
class Ctx:
    prop: str
    tier: str
    seed: int
    rng: random.Random
    lean: Optional[LeanStatus] = None
    tie_broken: List[str] = field(default_factory=list)
    replay: Optional[Any] = None

    @property
    def thorough(self) -> bool:
        return self.tier == 'thorough'

    def model_available(self) -> bool:
        return bool(self.lean and self.lean.driver_ok)


def write_replay(prop: str, seed: int, tag: str, payload: Any) -> Path:
    REPLAYS.mkdir(exist_ok=True)
    p = REPLAYS / f'{prop}-{tag}-{seed}.json'
    p.write_text(json.dumps(payload, indent=1, default=str))
    return p


def check_main(spec: PropSpec, tier: str, replay_path: Optional[str] = None) -> int:
    t0 = time.time()
    seed = seed_from_env()
    ctx = Ctx(spec.prop, tier, seed, random.Random(seed * 1000003 + int(spec.prop[1:])))
    if replay_path:
        ctx.replay = json.loads(Path(replay_path).read_text())

    # 1-3: G, build, audit (serialised across concurrent checks)
    g_fallback: List[str] = []
    with BuildLock():
        hashes, broken = run_translators(spec.translators, g_fallback)
        # a fragment nothing but G ties to the code cannot fall back on D
        for m in list(g_fallback):
            if any(f'translate/{n}.py' in m for n in spec.g_required):
                g_fallback.remove(m)
                broken.append(m)
        ctx.tie_broken = broken + g_fallback
        ctx.lean = lean_build_and_audit(spec.prop, thorough=(tier == 'thorough'), extra_props=spec.extra_props)
        if not ctx.lean.build_ok:
            # A translator may ACCEPT a rewritten source and produce a fragment for which the tie lemmas (`gen_*_eq`) no
            # longer go through — the same situation as a refusal, one step later: put the pinned fragment back and let D
            # decide.  Not for fragments whose theorems are about the generated table itself and that no D run covers in
            # full (`locks`: the lock-order, queue-wait and lockset tables).
            differing = [n for n in spec.translators if n not in NO_PROOF_FALLBACK and n not in spec.g_required
                         and not any(f'translate/{n}.py' in m for m in broken + g_fallback) and differs_from_pinned(n)]
            if differing:
                first = (ctx.lean.messages or ['?'])[0][:240]
                for n in differing:
                    restore_pinned(n)
                again = lean_build_and_audit(spec.prop, thorough=(tier == 'thorough'), extra_props=spec.extra_props)
                if again.build_ok:
                    ctx.lean = again
                    for n in differing:
                        g_fallback.append(f"tie-broken: translate/{n}.py: the fragment regenerated from the source does not build with "
                                          f"the tie lemmas stated for it ({first})")
                    ctx.tie_broken = broken + g_fallback
    lean = ctx.lean
    obligations_broken = list(broken) + list(lean.messages)

    # the harness drives the real classes through non-public entry points (doubles for `_tcp_send`, `_now`, one pass of
    # `_tcp_outgoing`, …): if one of those names is gone the correspondence cannot be run — running it anyway would probe
    # nothing (or hang on real sockets), so this is reported as a correspondence that no longer checks
    gone = missing_internals() if not os.environ.get('VERIF_SKIP_INTERNALS_CHECK') else []
    if gone:
        msg = ('correspondence cannot be run: the harness relies on non-public names the source no longer defines: '
               + ', '.join(gone[:12]))
        p = write_replay(spec.prop, seed, 'unproved', {
            'property': spec.prop, 'no_longer_checks': [msg] + list(broken) + list(g_fallback) + list(lean.messages),
            'note': 'the real code could not be driven; no failing input could be searched for'})
        print(f"VIOLATION property={spec.prop} replay={rel(p)} no-failing-input-found")
        print(f"{spec.prop} {tier}: {msg[:300]} -> exit 1")
        EVIDENCE.mkdir(exist_ok=True)
        (EVIDENCE / f'{spec.prop}.json').write_text(json.dumps({
            'property_id': spec.prop, 'tier': tier, 'seed': seed, 'level': 'proof',
            'coverage': {'obligations': max(len(lean.theorems) + len(spec.translators), 1), 'discharged': len(lean.discharged),
                         'checker_cmd': f'cd lean && lake build BoboVerif.Props.{spec.prop}',
                         'trusted_base': GENERIC_TRUSTED + spec.trusted_base, 'broken_obligations': [msg]},
            'assumptions': spec.assumptions, 'wall_s': round(time.time() - t0, 2), 'violations': 1}, indent=1, default=str))
        return 1

    # 4-5: correspondence + oracle on the real code
    res = spec.run(ctx)

    # 6: known findings
    known = load_known(spec.prop)
    open_sigs = {f['signature']: f for f in known if f.get('status') == 'open'}
    new_violations = [v for v in res.violations if v.sig not in open_sigs]
    seen_known = {}
    for v in res.violations:
        if v.sig in open_sigs:
            seen_known.setdefault(v.sig, v)

    # 7: a broken obligation / correspondence is not yet a violation: search for a failing input
    # A translator that refuses the current source (g_fallback) leaves tie D: the pinned fragment is then a hand-held
    # model and the same deeper search decides whether model and code still agree.
    searched = None
    if (obligations_broken or g_fallback or res.disagreements) and not new_violations:
        if spec.search is not None:
            searched = spec.search(ctx)
            res.merge(searched)
            new_violations = [v for v in res.violations if v.sig not in open_sigs]

    lines: List[str] = []
    rc = 0
    for sig, v in seen_known.items():
        lines.append(f"KNOWN-FINDING: property={spec.prop} {open_sigs[sig].get('id','')} {v.what}")
    if new_violations:
        v = new_violations[0]
        p = write_replay(spec.prop, seed, 'violation', {
            'property': spec.prop, 'what': v.what, 'signature': v.sig, 'replay': v.replay,
            'others': [{'what': o.what, 'signature': o.sig} for o in new_violations[1:10]],
            'broken_obligations': obligations_broken,
            'disagreements': res.disagreements[:3]})
        lines.append(f"VIOLATION property={spec.prop} replay={rel(p)}")
        rc = 1
    elif obligations_broken or res.disagreements:
        p = write_replay(spec.prop, seed, 'unproved', {
            'property': spec.prop,
            'no_longer_checks': obligations_broken,
            'correspondence_disagreements': res.disagreements[:5],
            'note': 'no concrete failing input was found on the implementation; the property is no longer shown to hold'})
        lines.append(f"VIOLATION property={spec.prop} replay={rel(p)} no-failing-input-found")
        rc = 1
    elif g_fallback:
        for m in g_fallback:
            lines.append(f"NOTE property={spec.prop} {m.splitlines()[0][:200]} -- fragment not regenerated: the model pinned in "
                         f"translate/pinned_gen is used, tied to the current code by D; deeper search "
                         f"({searched.evaluations if searched else 0} more cases): model and code agree, oracles hold")

    # 8: evidence
    n_ob = len(lean.theorems) + len(spec.translators)
    n_dis = len(lean.discharged) + (len(spec.translators) - len(broken) - len(g_fallback) if lean.build_ok else 0)
    ev = {
        'property_id': spec.prop,
        'tier': tier,
        'seed': seed,
        'level': 'proof',
        'coverage': {
            'obligations': max(n_ob, 1),
            'discharged': n_dis,
            'checker_cmd': f'cd lean && lake build BoboVerif.Props.{spec.prop} ' + ' '.join('BoboVerif.Props.' + x for x in spec.extra_props) + f' && lake env lean .lake/audit/Audit{spec.prop}.lean'
                           + (' && lake env leanchecker BoboVerif.Props.' + spec.prop if tier == 'thorough' else ''),
            'trusted_base': GENERIC_TRUSTED + spec.trusted_base,
            'theorems': lean.theorems,
            'axioms_per_theorem': {k: v for k, v in lean.axioms.items()},
            'generated_fragments_sha256': hashes,
            'broken_obligations': obligations_broken,
            'g_tie_not_regenerated': g_fallback,
            'evaluations': res.evaluations,
            'distinct_nontrivial': len(res.nontrivial),
            'rule': spec.rule,
            'samples': res.samples[:6],
            'traces_validated_against_impl': res.traces_validated,
            'correspondence_disagreements': len(res.disagreements),
            'input_distribution': res.distribution,
            'exhaustive': res.exhaustive,
            'model_covers': spec.model_covers,
            'notes': res.notes[:20],
            'known_findings_seen': sorted(seen_known),
            'lean_wall_s': round(lean.wall_s, 2),
        },
        'assumptions': spec.assumptions,
        'wall_s': round(time.time() - t0, 2),
        'violations': len(new_violations) if new_violations else (1 if rc else 0),
    }
    EVIDENCE.mkdir(exist_ok=True)
    (EVIDENCE / f'{spec.prop}.json').write_text(json.dumps(ev, indent=1, default=str))

    for l in lines:
        print(l)
    print(f"{spec.prop} {tier}: obligations {n_dis}/{n_ob} discharged, {res.evaluations} cases "
          f"({len(res.nontrivial)} distinct non-trivial), {res.traces_validated} compared with the model, "
          f"{len(res.disagreements)} disagreements, {len(res.violations)} oracle failures "
          f"({len(seen_known)} known), {time.time() - t0:.1f}s -> exit {rc}")
    return rc
