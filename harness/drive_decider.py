"""
Drives the REAL BoboDecider with the operations of the `decider` line protocol
and prints the same canonical lines as lean/BoboVerif/Drivers/Decider.lean.
"""
from typing import List, Optional

from bobocep.cep.engine.decider.decider import BoboDecider
from bobocep.cep.engine.decider.pubsub import BoboDeciderSubscriber
from bobocep.cep.gen.event_id import BoboGenEventID

from harness import predlang as pl


class CounterGen(BoboGenEventID):
    def __init__(self, prefix='r'):
        super().__init__()
        self.n = 0
        self.prefix = prefix

    def generate(self) -> str:
        s = f'{self.prefix}{self.n}'
        self.n += 1
        return s


class Recorder(BoboDeciderSubscriber):
    def __init__(self):
        self.notifs = []
        self.published = []
        self.dec = None          # set by RealDecider: the subscriber looks at the decider from inside the callback
        self.inside = []

    def __len__(self):           # a subscriber Python counts as false is still a subscriber
        return 0

    def on_decider_update(self, completed, halted, updated, local):
        # what a subscriber may well do while it is being told: look at the decider (the distributed component takes a
        # snapshot; a monitor reads sizes and runs).  Read-only, re-entrant on the caller's thread, must change nothing.
        if self.dec is not None:
            try:
                self.inside.append((self.dec.size(), len(self.dec.all_runs()), tuple(len(x) for x in self.dec.snapshot())))
            except Exception as e:      # noqa
                self.inside.append(('raised', type(e).__name__))
        # snapshot the lists: the decider may edit them later
        self.notifs.append((list(completed), list(halted), list(updated), local))
        # text of every published record at publication time (C12: published snapshots never change)
        # (only where the events have a JSON text: see predlang.Num)
        if not pl.OPAQUE['on']:
            self.published.append([(r, r.to_json_str()) for r in list(completed) + list(halted) + list(updated)])


class Bomb(BoboDeciderSubscriber):
    """a subscriber AFTER the recorder that fails on the notifications carrying a finished run, and on every fifth other one (a
    sink that is full, a link object that was closed).  The caller of update() / on_distributed_update() gets the
    exception and carries on: what the decider did for the event is done, the subscribers before this one have been
    told -- once -- and the next notification is about the next event only."""

    def __init__(self):
        self.armed, self.fired, self.count = False, False, 0

    def on_decider_update(self, completed, halted, updated, local):
        self.count += 1
        if self.armed and (completed or halted or self.count % 5 == 0):
            self.fired = True
            from bobocep import BoboError
            raise (RuntimeError, BoboError, OSError, KeyError)[self.count % 4]('the sink is full')


class RealDecider:
    def __init__(self, phens, cache, phenomena=None):
        self.phens = phens
        self.phenomena = phenomena if phenomena is not None else pl.mk_phenomena(phens)
        self.rec = Recorder()
        self.dec = BoboDecider(self.phenomena, CounterGen('e'), CounterGen('r'), max_cache=cache)
        self.dec.subscribe(self.rec)
        self.bomb = Bomb()
        self.dec.subscribe(self.bomb)
        self.rec.dec = self.dec
        # complex / action events of the streams are named after the first pattern of this configuration (predlang.mk_event)
        pl.FEEDBACK['names'] = (phens[0][0], phens[0][1][0]['name']) if phens and phens[0][1] else None

    def table(self) -> str:
        out = []
        for r in self.dec.all_runs():
            out.append(pl.show_rec(r.serialize()) + ('!' if r.is_halted() else ''))
        return 'T[' + ' '.join(out) + ']'

    @staticmethod
    def show_notif(n) -> str:
        return f'C{pl.show_recs(n[0])} H{pl.show_recs(n[1])} U{pl.show_recs(n[2])}'

    def ev(self, eid, ts, kind, data) -> str:
        """one update() with this event queued."""
        n0 = len(self.rec.notifs)
        self.bomb.fired = False
        ev_obj = pl.mk_event(eid, ts, kind, data)
        before = (ev_obj.data, ev_obj.event_id, ev_obj.timestamp)
        try:
            self.dec.on_receiver_update(ev_obj)
            changed = self.dec.update()
        except Exception:
            if not self.bomb.fired:
                return 'X'
            changed = True          # (a notification went out: there was a change; the failing sink is the harness's own)
        # the event is the SAME object for every run, pattern, history and subscriber that gets to see it: whatever a
        # predicate (or the code around it) does, it is still the event that came in
        if ev_obj.data is not before[0] or ev_obj.event_id is not before[1] or ev_obj.timestamp is not before[2]:
            return 'event-altered: after processing, the event carries data %r (%s), it came in with %r (%s)' % (
                ev_obj.data, type(ev_obj.data).__name__, before[0], type(before[0]).__name__)
        new = self.rec.notifs[n0:]
        if len(new) > 1:
            return 'multiple-notifications'
        notif = new[0] if new else ([], [], [], True)
        if notif[3] is not True:
            return 'wrong-local-flag: a notification of local processing carries local=%r' % (notif[3],)
        return f"{1 if changed else 0} {self.show_notif(notif)} | {self.table()}"

    def rem(self, comp: List[str], halt: List[str], upd: List[str]) -> str:
        n0 = len(self.rec.notifs)
        self.bomb.fired = False
        try:
            self.dec.on_distributed_update([pl.parse_rec(r) for r in comp], [pl.parse_rec(r) for r in halt],
                                           [pl.parse_rec(r) for r in upd])
        except Exception:
            if not self.bomb.fired:
                return 'X'
        new = self.rec.notifs[n0:]
        if len(new) != 1:
            return f'{len(new)}-notifications'
        if new[0][3] is not False:
            return 'wrong-local-flag: the notification of a remote update carries local=%r' % (new[0][3],)
        return f"{self.show_notif(new[0])} | {self.table()}"

    def do_quiet(self, line: str) -> None:
        """the same operation WITHOUT looking at the decider afterwards: `table()` serialises every run, and a look is not
        always harmless (state kept lazily, copy-on-write shortcuts reset by an accessor)."""
        w = line.split()
        try:
            if w[0] == 'ev':
                self.dec.on_receiver_update(pl.mk_event(w[1], int(w[2]), w[3], int(w[4])))
                self.dec.update()
            elif w[0] == 'rem':
                lists = {'C': [], 'H': [], 'U': []}
                cur = 'C'
                for x in w[1:]:
                    if x in lists:
                        cur = x
                    else:
                        lists[cur].append(x)
                self.dec.on_distributed_update([pl.parse_rec(r) for r in lists['C']], [pl.parse_rec(r) for r in lists['H']],
                                               [pl.parse_rec(r) for r in lists['U']])
        except Exception:   # noqa: exceptions are the observed run's business
            pass

    def snap(self) -> str:
        c, h, u = self.dec.snapshot()
        return f'C{pl.show_recs(c)} H{pl.show_recs(h)} U{pl.show_recs(u)}'

    def do(self, line: str) -> str:
        w = line.split()
        if w[0] == 'ev':
            return self.ev(w[1], int(w[2]), w[3], int(w[4]))
        if w[0] == 'rem':
            lists = {'C': [], 'H': [], 'U': []}
            cur = 'C'
            for x in w[1:]:
                if x in lists:
                    cur = x
                else:
                    lists[cur].append(x)
            return self.rem(lists['C'], lists['H'], lists['U'])
        if w[0] == 'snap':
            return self.snap()
        raise ValueError(line)


def run_script(phens, cache, ops: List[str]):
    """returns (all driver lines incl. configuration, impl outputs for every line)."""
    cfg = pl.config_lines(phens, cache)
    rd = RealDecider(phens, cache)
    lines = cfg + ops
    outs = ['ok'] * len(cfg) + [rd.do(o) for o in ops]
    return lines, outs, rd
